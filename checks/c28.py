"""C28 — Concurrent API use gives the same results as sequential use."""
import concurrent.futures as cf
import glob, json, os, re, time
from lib import vlib

PROP = "C28"
META = {
    "category": "exploration",
    "text": "Three layers. (1) Lean model of the process-global `currentModule` of compiler_wat/wir (sessions doing `begin(set current := mine); read*; "
            "finish`, interleaved by an arbitrary schedule, optionally under a compile lock): isolated_if_serialised (non-overlapping sessions always "
            "read their own module, lock or not), interference_exists (schedule 0b,1b,0r: session 0 reads session 1's module, by decide), "
            "with_lock_isolated (set…reads as a critical section makes EVERY schedule isolated), safe_iff_locked; the model's unlocked semantics is "
            "tied to the real wir package by a deterministic single-goroutine replay of random schedules (NewModule/SetCurrentModule/NewConst). "
            "(2) REGENERATED static facts (extract/c28_globals.go, go/types): package-level variables written after init in the API's packages "
            "(compared with the audited extract/c28_globals_expected.json) and whether Compiler.Compile holds a lock around SetCurrentModule…return "
            "(`compileLocked` in Gen/C28Facts.lean; current_source_safe_iff instantiates the model with it). (3) Search on the real code: G "
            "goroutines x mixed api.BuildFile / api.RunCode / api.FormatCode on DIFFERENT programs in a child process, every result compared with "
            "its sequential baseline, panics caught, process death classified; the same workload serialised (control) and with only Compile "
            "serialised (localisation); plus a run under the Go race detector whose reports are attributed to a global by their stack frames. "
            "Every Config is a Clone of one template (tags added by appends, different TargetOS), the job mix contains calls that panic in the "
            "backend / fail to type-check / fail to parse, every call runs under a watchdog (a call that never returns is a violation), and a "
            "deterministic explorer pauses a BuildVFS call inside its loader at every file it opens while another call runs to completion. "
            "The full statement (every interleaving, every mix) is decided by exploration only.",
    "note": "Trusted: Lean kernel; extract/c28_globals.go (syntactic: writes through aliases are invisible, the race detector run complements it); "
            "the audit in extract/c28_globals_expected.json; Go's race detector; schedules are produced by the Go scheduler and are not replayable "
            "(replays re-run up to K times). Modelled-not-verified: everything in the compiler except the one shared variable.",
    "technique": "Lean 4 proof over a schedule model of the shared global + regenerated/audited table of package-level variables and the lock fact "
                 "+ concurrent differential execution against sequential baselines, race detector",
}
REQUIRED = ["isolated_if_serialised", "interference_exists", "interference_not_isolated", "witness_harmless_with_lock",
            "with_lock_isolated", "safe_iff_locked", "current_source_safe_iff", "globals_accounted_claim",
            "leaked_lock_blocks_everyone", "deferred_unlock_never_leaks", "lock_discipline_claim"]

EXPECT = os.path.join(vlib.VERIF, "extract", "c28_globals_expected.json")
GEN = os.path.join(vlib.LEAN, "WaVerif", "Gen", "C28Facts.lean")
AUDITS = {"configFlag", "idempotent", "initOnly", "notOnApiPath", "lockGuarded"}

KEY_CUR = "wir.currentModule:compile-not-serialised"
KEY_UNI = "types.universe-children:unsynchronised-append"


def B(x):
    return "true" if x else "false"


def build_c28(ctx, race=False):
    """go build of harness/c28 with an overlay that contains ONLY this check's files (harness/c28, harness/vh, hooks named c28_*):
    the shared ctx.build_harness maps every property's hook files into the tree, so a change in /repo that breaks ANOTHER
    property's hook (e.g. c31's hook into internal/wazero) would keep this harness from building and hide the concrete failure."""
    out = os.path.join(vlib.BUILD, "bin", "c28" + ("_race" if race else ""))
    os.makedirs(os.path.dirname(out), exist_ok=True)
    keep = {}
    for virt, real in vlib.overlay_map().items():
        rel = os.path.relpath(real, os.path.join(vlib.VERIF, "harness"))
        if rel.startswith(("c28" + os.sep, "vh" + os.sep)) or (rel.startswith("hooks" + os.sep) and os.path.basename(real).startswith("c28_")):
            keep[virt] = real
    ov = os.path.join(vlib.BUILD, "overlay.c28.%d.json" % os.getpid())
    with open(ov, "w") as f:
        json.dump({"Replace": keep}, f, indent=1)
    cmd = ["go", "build", "-tags", "verif", "-overlay", ov, "-o", out]
    env = dict(vlib.GOENV)
    if race:
        cmd.insert(2, "-race")
        env["CGO_ENABLED"] = "1"
    cmd.append("./internal/zz_verif/c28")
    try:
        with vlib.Lock("go.c28"):
            if os.path.exists(out):
                os.remove(out)
            rc, o = vlib.sh(cmd, cwd=vlib.REPO, env=env, timeout=1200)
    finally:
        os.remove(ov)
    if rc != 0:
        raise vlib.InfraError("go build of harness c28 failed:\n%s" % o[-6000:])
    return out


def lean_str(s):
    return '"' + s.replace("\\", "\\\\").replace('"', '\\"') + '"'


def regenerate(ctx):
    exp = json.load(open(EXPECT))
    if os.path.exists(GEN):
        os.remove(GEN)
    rc, out = vlib.sh(["go", "run", os.path.join(vlib.VERIF, "extract", "c28_globals.go"), vlib.REPO] + exp["packages"],
                      cwd=vlib.REPO, env=vlib.GOENV, timeout=1200)
    facts = None
    if rc == 0:
        try:
            facts = json.loads(out[out.index("{"):])
        except Exception as e:                                      # noqa
            out += "\n(unparsable: %s)" % e
    rows, claim, locked = [], True, False
    acquired, deferred = False, True
    summary = {"globals": 0, "new_or_changed": [], "gone": [], "compile_locked": None, "shared_config_writes": [], "lock_leak_possible": False}
    if facts is None:
        ctx.proof["broken"].append({"theorem": "static facts C28 (extract/c28_globals.go)", "why": "extractor failed: %s" % out[-800:]})
        claim = False
    else:
        locked = bool(facts["compile_locked"])
        summary["compile_locked"] = locked
        summary["compile_lock_expr"] = facts.get("compile_lock_expr")
        acquired, deferred = bool(facts.get("compile_lock_acquired")), bool(facts.get("compile_unlock_deferred"))
        summary["compile_lock_acquired"], summary["compile_unlock_deferred"] = acquired, deferred
        if acquired and not deferred:
            summary["lock_leak_possible"] = True
            ctx.proof["broken"].append({
                "theorem": "static facts C28: the compile lock is not released on every path",
                "why": "(*Compiler).Compile calls Lock() but there is no `defer …Unlock()` (plain Unlock() calls: %s): when the backend panics inside Compile "
                       "(it does for legal programs, e.g. unsafe.MakeString) and the caller recovers, the lock is leaked and every later call blocks "
                       "(Lean: leaked_lock_blocks_everyone)" % facts.get("compile_unlock_plain_calls")})
        for w in facts.get("shared_config_writes") or []:
            wid = "%s:%s:%s:%s" % (w["pkg"], w["func"], w["field"], w["kind"])
            if wid not in exp.get("shared_config_writes", {}):
                summary["shared_config_writes"].append(dict(w, id=wid))
                ctx.proof["broken"].append({
                    "theorem": "static facts C28: write into a slice/map shared by shallow Config copies",
                    "why": "%s line %d: `%s` (%s of %s): config structs are copied shallowly (Config.Clone, the loader's own copy), so this write lands in "
                           "memory shared with the caller's Config and with every Config cloned from the same template — concurrent calls see each "
                           "other's values; copy the slice before modifying it, or audit it in extract/c28_globals_expected.json"
                           % (wid, w["line"], w["code"], w["kind"], w["field"])})
        summary["current_module_readers"] = facts.get("current_module_readers")
        if not facts["compile_found"]:
            ctx.proof["broken"].append({"theorem": "static facts C28", "why": "(*Compiler).Compile not found in internal/backends/compiler_wat"})
        if facts["current_module_var_exists"] and not facts["compile_sets_current_module"]:
            ctx.notes.append("Compile no longer calls wir.SetCurrentModule although the variable exists")
        g = {}
        for x in facts["globals"]:
            gid = x["pkg"].split(") ")[-1] + "." + x["name"]
            e = g.setdefault(gid, {"type": x["type"], "kinds": set(), "writers": []})
            e["kinds"] |= {w["kind"] for w in x["writers"]}
            e["writers"] += ["%s:%d(%s)" % (w["func"], w["line"], w["kind"]) for w in x["writers"]][:4]
        summary["globals"] = len(g)
        for gid in sorted(g):
            e, x = exp["globals"].get(gid), g[gid]
            same = e is not None and set(e["kinds"]) == x["kinds"]
            audit = e["audit"] if same else None
            if audit == "currentModule":
                audit = "lockGuarded" if locked else "unsynchronised"
            elif audit not in AUDITS:
                audit = "unaudited"
                claim = False
                summary["new_or_changed"].append({"global": gid, "kinds": sorted(x["kinds"]), "writers": x["writers"], "expected": e})
                ctx.proof["broken"].append({
                    "theorem": "static facts C28: package-level variable written after init is not accounted",
                    "why": "%s (%s) is %s: written by %s; shared by all concurrent API calls — guard it, make it per-call state, or audit it in "
                           "extract/c28_globals_expected.json" % (gid, x["type"], "NEW" if e is None else "written in a new way", x["writers"])})
            rows.append("  ⟨%s, .%s⟩" % (lean_str(gid), audit))
        summary["gone"] = sorted(set(exp["globals"]) - set(g))
    tmp = GEN + ".tmp.%d" % os.getpid()
    with open(tmp, "w") as f:
        f.write("import WaVerif.Model.C28\n/-! GENERATED by checks/c28.py from extract/c28_globals.go + extract/c28_globals_expected.json on every run — do not edit. -/\n"
                "namespace WaVerif.C28\n\n/-- does (*Compiler).Compile hold a lock from before wir.SetCurrentModule to its return? -/\n"
                "def compileLocked : Bool := %s\n\n/-- is a lock acquired at all / is it released by `defer` (also when Compile panics)? -/\n"
                "def compileLockAcquired : Bool := %s\ndef compileUnlockDeferred : Bool := %s\n"
                "/-- what the generator computed for `lockDiscipline acquired deferred` -/\ndef claimLockDiscipline : Bool := %s\n\n"
                "def globals : List GlobalVar := [\n%s\n]\n\n"
                "def claimGlobalsAccounted : Bool := %s\n\nend WaVerif.C28\n"
                % (B(locked), B(acquired), B(deferred), B((not acquired) or deferred), ",\n".join(rows), B(claim)))
    os.replace(tmp, GEN)
    return facts, summary, locked


# ------------------------------------------------------------------------------------------ workload
# a job is (op, path, target_os): op build|run|fmt on a file, or ("vfs", "-", os) = api.BuildVFS of the harness' in-memory project
def jl(j):
    return "%s %s%s" % (j[0], j[1], (" os=" + j[2]) if j[2] else "")


def jname(j):
    return "%s %s%s" % (j[0], os.path.basename(j[1]) if j[1] != "-" else "<in-memory project>", (" os=" + j[2]) if j[2] else "")


WATCHDOG_S = {"quick": 150, "thorough": 300}


def henv(ctx, extra=None):
    e = dict(os.environ, C28_WATCHDOG_S=str(WATCHDOG_S.get(ctx.tier, 150)))
    if extra:
        e.update(extra)
    return e


def make_jobs(ctx, n, h):
    """n jobs on DIFFERENT programs (different types in play => different per-module tables), ops mixed.
    Candidates are pre-screened sequentially: programs the front end rejects (several matrix programs do not parse in WaGo
    mode) exercise little, so at most two of them are kept (the error path is API behaviour too)."""
    cand = _candidates(ctx, 2 * n + 6)
    _, out, _ = ctx.run_bin(h, ["0", "0", "0", "once"], "\n".join(jl(j) for j in cand) + "\n", timeout=3000, env=henv(ctx))
    base = parse_run(out)["base"]
    good = [j for i, j in enumerate(cand) if base.get(i, "").startswith("ok")]
    bad = [j for i, j in enumerate(cand) if not base.get(i, "").startswith("ok")]
    # FAILING calls are part of the workload on purpose: a call that panics inside the backend (recovered, as net/http does per
    # request), a type error, a syntax error — followed and surrounded by ordinary calls, which must not be affected
    poison = [("build", p, "") for p in sorted(glob.glob(os.path.join(vlib.VERIF, "corpus", "C28", "*.wa")))
              if os.path.basename(p).startswith(("panic_", "type_error", "syntax_error"))]
    poison = [j for j in poison if j not in good[:n]]
    # BuildVFS calls of one project for different targets (files selected by #wa:build on the target OS / a template tag)
    vfs = [("vfs", "-", "js"), ("vfs", "-", "unknown")]
    body = [j for j in good if j not in poison][:max(0, n - len(poison) - len(vfs) - 1)] + [j for j in bad if j not in poison][:1]
    # interleave: ordinary calls, then a failing one, ordinary ones, ...
    out_jobs, pi = [], 0
    step = max(2, len(body) // (len(poison) + len(vfs) + 1))
    extras = [x for pair in zip(vfs, poison) for x in pair] + poison[len(vfs):] + vfs[len(poison):]
    for i, j in enumerate(body):
        out_jobs.append(j)
        if (i + 1) % step == 0 and pi < len(extras):
            out_jobs.append(extras[pi]); pi += 1
    out_jobs += extras[pi:]
    return out_jobs


def _candidates(ctx, n):
    from gen import matrix
    d = os.path.join(ctx.tmp, "src")
    os.makedirs(d, exist_ok=True)
    jobs = []
    for p in sorted(glob.glob(os.path.join(vlib.VERIF, "corpus", "C28", "*"))):
        if p.endswith(".wa.go"):
            jobs.append(("build", p, ""))
            jobs.append(("run", p, ""))
        elif os.path.basename(p).startswith("out_"):          # distinctive outputs of different lengths
            jobs.append(("run", p, ""))
            jobs.append(("runwasm", p, ""))
    mat = [x for x in matrix.all_programs() if x[0][1] not in ("methodval", "methodmix")]   # those do not validate (C16's finding)
    ctx.rng.shuffle(mat)
    seen_t = set()
    pick = []
    for (t, c), src in mat:                       # spread over the types first
        if t not in seen_t:
            seen_t.add(t); pick.append(((t, c), src))
    pick += [x for x in mat if x not in pick]
    ex = sorted(glob.glob(os.path.join(vlib.REPO, "waroot", "examples", "*.wa")))
    ops = ["build", "run", "build", "run", "fmt"]
    i = 0
    while len(jobs) < n and i < len(pick):
        (t, c), src = pick[i]
        p = os.path.join(d, "m_%s_%s.wa.go" % (t, c))
        open(p, "w").write(src)
        op = ops[i % len(ops)]
        if i % 7 == 3:
            op = "buildfset"
        jobs.append((op, p, ctx.rng.choice(["", "", "js", "unknown"]) if op == "build" else ""))
        i += 1
        if i % 6 == 0 and ex:
            jobs.append((("build", "fmt")[(i // 6) % 2], ex.pop(0), ""))
    return jobs[:n]


def parse_run(out):
    r = {"base": {}, "wrong": [], "panic": [], "unstable": [], "done": None, "uni": {}, "blocked": [], "mutated": [], "retained": {}}
    for ln in out.splitlines():
        f = ln.split()
        if not f:
            continue
        if f[0] == "BASE":
            r["base"][int(f[1])] = " ".join(f[2:])
        elif f[0] == "WRONG":
            r["wrong"].append({"job": int(f[1]), "goroutine": int(f[2]), "iter": int(f[3]),
                               "baseline": bytes.fromhex(f[4]).decode("utf-8", "replace"), "got": bytes.fromhex(f[5]).decode("utf-8", "replace")})
        elif f[0] == "PANIC":
            r["panic"].append({"job": int(f[1]), "goroutine": int(f[2]), "iter": int(f[3]), "msg": bytes.fromhex(f[4]).decode("utf-8", "replace")})
        elif f[0] == "UNSTABLE":
            r["unstable"].append(int(f[1]))
        elif f[0] == "MUTATED":
            r["mutated"].append({"job": int(f[1]), "detail": bytes.fromhex(f[2]).decode("utf-8", "replace")})
        elif f[0] == "RETAINED-CHECK":
            r["retained"][f[1]] = dict(kv.split("=") for kv in f[2:])
        elif f[0] == "BLOCKED":
            r["blocked"].append({"job": int(f[1]), "goroutine": int(f[2]), "iter": int(f[3]), "phase": f[4],
                                 "after": bytes.fromhex(f[5]).decode("utf-8", "replace") if len(f) > 5 else ""})
        elif f[0].startswith("UNIVERSE-CHILDREN"):
            r["uni"][f[0]] = int(f[1])
        elif f[0] == "DONE":
            r["done"] = dict(kv.split("=") for kv in f[1:])
    return r


def fatal_kind(err):
    m = re.search(r"fatal error: ([^\n]+)", err)
    if m:
        return "fatal:" + m.group(1).strip()
    m = re.search(r"^panic: ([^\n]+)", err, re.M)
    if m:
        return "uncaught-panic:" + m.group(1).strip()[:80]
    m = re.search(r"unexpected signal[^\n]*|SIGSEGV[^\n]*", err)
    if m:
        return "signal:" + m.group(0)[:80]
    return None


def parse_races(err):
    """one entry per race report: the top non-runtime frame of both accesses, and the global it is attributed to:
    types.NewScope -> the universe scope's children; any frame inside compiler_wat(/wir(/wat)) -> a wir.Module / DataSeg reached by two
    compilations, which can only be shared through the package-level wir.currentModule (each Compile creates its own Module)."""
    reps = []
    for rep in err.split("=================="):
        if "WARNING: DATA RACE" not in rep:
            continue
        allfns = [a for a, _, _ in re.findall(r"\n  (\S+)\(\)\n\s+(\S+?):(\d+)", rep)]
        tops = []
        for blk in re.split(r"\n\n", rep):
            m = re.search(r"((?:Previous )?(?:[Rr]ead|[Ww]rite)) at 0x[0-9a-f]+ by", blk)
            if m:
                fr = [x for x in re.findall(r"\n  (\S+)\(\)\n\s+(\S+?):(\d+)", blk) if not x[0].startswith(("runtime.", "bytes.", "sync."))]
                if fr:
                    tops.append("%s %s (%s:%s)" % (m.group(1), fr[0][0].replace("wa-lang.org/wa/internal/", ""), os.path.basename(fr[0][1]), fr[0][2]))
        owner = None
        if any("types.NewScope" in x for x in tops):
            owner = "types.universe-children"
        elif any("/compiler_wat" in a for a in allfns):
            owner = "wir.currentModule"
        reps.append({"owner": owner, "tops": tops[:2]})
    return reps


def run(ctx):
    tm = {}
    t = time.time()
    h = build_c28(ctx)
    hr = None
    try:
        hr = build_c28(ctx, race=True)
    except vlib.InfraError as e:
        ctx.notes.append("race build unavailable: %s" % str(e)[-300:])
    tm["build_s"] = round(time.time() - t, 1); t = time.time()
    facts, fsum, locked = regenerate(ctx)
    tm["extract_s"] = round(time.time() - t, 1); t = time.time()
    ctx.prove(required=REQUIRED)
    model = ctx.build_model("c28")
    tm["lean_s"] = round(time.time() - t, 1); t = time.time()
    quick = ctx.tier == "quick"

    # ---- correspondence: random schedules, Lean model (unlocked semantics = the wir package itself) vs the real wir package
    if model:
        scheds = ["0b,1b,0r", "0b,0r,0f,1b,1r,1f", "0b,1b,1r,0r,1f,0r,0f", "0r,0b,0b,0r,1f,1b,0r,1r", "-"]
        for _ in range(300 if quick else 5000):
            k = ctx.rng.randint(1, 14)
            ns = ctx.rng.choice([2, 2, 3, 4])
            scheds.append(",".join("%d%s" % (ctx.rng.randrange(ns), ctx.rng.choice("bbrrrf")) for _ in range(k)))
        _, o1, _ = ctx.run_bin(h, ["sched"], "\n".join("sched " + s for s in scheds) + "\n")
        _, o2, _ = ctx.run_bin(model, input_text="\n".join("run 0 " + s for s in scheds) + "\n")
        for i, op, a, b in ctx.diff_lines(scheds, o1.splitlines(), o2.splitlines())[:10]:
            ctx.proof["broken"].append({"theorem": "correspondence C28 model (unlocked) vs wir.SetCurrentModule/NewConst",
                                        "why": "schedule %r: real wir package logs %r, model %r" % (op, a, b)})
        interfering = sum(1 for s, a in zip(scheds, o1.splitlines()) if any(x.split(":")[0] != x.split(":")[1] for x in a.split(",") if ":" in x))
    else:
        scheds, interfering = [], 0
    tm["corr_s"] = round(time.time() - t, 1); t = time.time()

    # ---- search on the real code
    K = 3
    if ctx.replay:
        rp = json.load(open(ctx.replay))["replay"]
        d = os.path.join(ctx.tmp, "src"); os.makedirs(d, exist_ok=True)
        jobs = []
        for j in rp["jobs"]:
            p = os.path.join(d, j["file_name"])
            if j["file_name"] != "-":
                open(p, "w").write(j["source"])
            jobs.append((j["op"], p if j.get("file_name") != "-" else "-", j.get("os", "")))
        G, iters, seeds = int(rp["goroutines"]), int(rp["iters"]), [int(rp["seed"]) + k for k in range(K)]
        runs = [("free", G, iters, s, jobs) for s in seeds]
    else:
        njobs = 18 if quick else 60
        jobs = make_jobs(ctx, njobs, h)
        G, iters = (8, 3) if quick else (16, 8)
        seeds = [ctx.rng.randrange(1 << 30) for _ in range(2 if quick else 8)]
        runs = [("free", G, iters, s, jobs) for s in seeds]
        runs.append(("serial", G, 1 if quick else 2, seeds[0], jobs))
        runs.append(("lockcompile", G, iters, seeds[0], jobs))
        if not quick:
            runs.append(("lockcompile", G, iters, seeds[1], jobs))
    jobtext = "\n".join(jl(j) for j in jobs) + "\n"

    def one(mode, G, iters, seed, jobs_):
        flags = {"free": "once", "serial": "serial,once", "lockcompile": "lockcompile,once"}[mode]
        try:
            rc, out, err = ctx.run_bin(h, [str(G), str(iters), str(seed), flags], jobtext, timeout=3000, env=henv(ctx))
        except Exception as e:                                       # timeout
            return mode, seed, -9, "", "TIMEOUT %r" % (e,)
        return mode, seed, rc, out, err

    results = []
    race_out = None
    gate_out = None
    with cf.ThreadPoolExecutor(5) as ex:
        futs = [ex.submit(one, *r) for r in runs]
        # deterministic overlap: a BuildVFS call paused inside its loader at every file it opens, another call run to completion meanwhile
        gjobs = [j for j in jobs if j[0] in ("build", "vfs") and not os.path.basename(j[1]).startswith(("panic_", "type_error", "syntax_error"))]
        gjobs = ([j for j in gjobs if j[2] == "unknown"][:1] + [j for j in gjobs if j[2] == "js"][:1] + [j for j in gjobs if j[0] == "vfs"])[:3 if quick else 6]
        gate_fut = ex.submit(ctx.run_bin, h, ["gate"], "\n".join(jl(j) for j in gjobs) + "\n", 3000, henv(ctx)) if not ctx.replay else None
        if hr and not ctx.replay:
            rj = [j for j in jobs if not os.path.basename(j[1]).startswith("panic_")]
            rj = rj[:6] if quick else rj[:16]
            rtext = "\n".join(jl(j) for j in rj) + "\n"
            env = henv(ctx, {"GORACE": "halt_on_error=0 history_size=2", "C28_WATCHDOG_S": "900"})
            race_fut = ex.submit(ctx.run_bin, hr, ["4", "1" if quick else "3", str(seeds[0]), "once"], rtext, 3000, env)
        for fu in futs:
            results.append(fu.result())
        if gate_fut is not None:
            try:
                gate_out = gate_fut.result()
            except Exception as e:                                    # noqa
                ctx.notes.append("gate run failed: %r" % (e,))
        if hr and not ctx.replay:
            try:
                race_out = race_fut.result()
            except Exception as e:                                    # noqa
                ctx.notes.append("race run failed: %r" % (e,))
    tm["search_s"] = round(time.time() - t, 1)

    def job_replay(extra, seed, G_, iters_):
        return dict({"jobs": [{"op": op, "os": tos, "file_name": os.path.basename(p) if p != "-" else "-", "source": open(p).read() if p != "-" else ""}
                              for op, p, tos in jobs][:40],
                     "goroutines": G_, "iters": iters_, "seed": seed, "rerun_up_to": K}, **extra)

    dist = {"runs": {}, "calls": 0, "wrong": 0, "panics": 0, "fatal": 0, "jobs": len(jobs), "ops": {}}
    for op, _, _ in jobs:
        dist["ops"][op] = dist["ops"].get(op, 0) + 1
    dist["blocked"] = 0
    samples = []
    free_bad = lock_bad = serial_bad = 0
    uni_growth = None
    pending_free = []
    stable_jobs = set()
    for mode, seed, rc, out, err in results:
        r = parse_run(out)
        stable_jobs |= set(r["base"])
        calls = int(r["done"]["calls"]) if r["done"] else 0
        dist["calls"] += calls
        fk = None if r["done"] else (fatal_kind(err) or ("timeout" if rc == -9 else "process-died rc=%s" % rc))
        nbad = len(r["wrong"]) + len(r["panic"]) + (1 if fk else 0)
        dist["runs"]["%s/%d" % (mode, seed)] = {"calls": calls, "wrong": len(r["wrong"]), "panics": len(r["panic"]), "fatal": fk, "unstable": len(r["unstable"])}
        dist["wrong"] += len(r["wrong"]); dist["panics"] += len(r["panic"]); dist["fatal"] += 1 if fk else 0
        if "UNIVERSE-CHILDREN-AT-END" in r["uni"] and mode == "free":
            uni_growth = (r["uni"].get("UNIVERSE-CHILDREN-AFTER-BASELINE"), r["uni"]["UNIVERSE-CHILDREN-AT-END"])
        for u in r["unstable"]:
            ctx.notes.append("job %s is not stable sequentially (excluded; C27's concern)" % jname(jobs[u]))
        dist["retained_results_rechecked"] = dist.get("retained_results_rechecked", 0) + sum(int(v.get("checked", 0)) for v in r["retained"].values())
        if r["mutated"]:
            m0 = r["mutated"][0]
            what_kind = m0["detail"].split(" returned by")[0]
            dist["mutated"] = dist.get("mutated", 0) + len(r["mutated"])
            caches = [g for g in (fsum.get("new_or_changed") or []) if "shared-cache" in g.get("kinds", [])]
            ctx.violation("result-mutated-after-return:" + re.sub(r"[^A-Za-z.]+", "-", what_kind),
                          "a slice returned by an API call changed its bytes AFTER the call had returned (run mode %s, %d such results): job %d (%s): %s. "
                          "The caller's result aliases memory the library reuses for later calls%s"
                          % (mode, len(r["mutated"]), m0["job"], jname(jobs[m0["job"]]), m0["detail"][:500],
                             ("; static fact: new package-level cache %s" % caches[0]["global"]) if caches else ""),
                          job_replay({"mode": mode, "mutated": r["mutated"][:5]}, seed, G, iters))
        if r["blocked"]:
            b = r["blocked"][0]
            dist["blocked"] += 1
            leak = fsum.get("lock_leak_possible")
            ctx.violation("blocked-after-failed-call:" + ("compile-lock-not-released-on-panic" if leak else "unattributed"),
                          "a call never returned (watchdog %ds, run mode %s, %s phase): job %d (%s) on goroutine %d; the most recent FAILED call before it: %s. "
                          "A call that panics or fails must not affect later calls%s"
                          % (WATCHDOG_S.get(ctx.tier, 150), mode, b["phase"], b["job"], jname(jobs[b["job"]]), b["goroutine"], b["after"][:300],
                             "; static fact: Compile acquires its lock but does not release it by defer, so the recovered panic leaked it "
                             "(Lean: leaked_lock_blocks_everyone)" if leak else ""),
                          job_replay({"mode": mode, "blocked": b}, seed, G, iters))
        first = None
        if r["wrong"]:
            w = r["wrong"][0]
            first = ("wrong-output", "job %d (%s) on goroutine %d: alone -> %s ; concurrently -> %s"
                     % (w["job"], jname(jobs[w["job"]]), w["goroutine"], w["baseline"][:120], w["got"][:160]))
        elif r["panic"]:
            w = r["panic"][0]
            first = ("panic", "job %d (%s): %s" % (w["job"], jname(jobs[w["job"]]), w["msg"][:300]))
        elif fk:
            first = ("fatal", "%s; stderr tail: %s" % (fk, err.strip()[-300:].replace("\n", " | ")))
        if mode == "free":
            free_bad += nbad
            if first:
                pending_free.append((seed, first, nbad))
        elif mode == "serial":
            serial_bad += nbad
            if first:
                ctx.violation("serialised-control:" + first[0], "even with ALL calls serialised by one mutex a result differs from the baseline (not a concurrency "
                              "effect): " + first[1], job_replay({"mode": mode, "first": first[1]}, seed, G, iters))
        else:
            lock_bad += nbad
            if first:
                ctx.violation("outside-compile:" + first[0],
                              "with compiler_wat.Compile serialised (loader, wat2wasm, wazero, formatter still concurrent) a concurrent call still misbehaves: " + first[1],
                              job_replay({"mode": mode, "first": first[1]}, seed, G, iters))
        if len(samples) < 10:
            samples.append({"mode": mode, "seed": seed, "goroutines": G, "calls": calls, "wrong": len(r["wrong"]), "panics": len(r["panic"]), "fatal": fk,
                            "first": first[1][:300] if first else None})

    # attribute the failures of the free runs
    shared = fsum.get("shared_config_writes") or []
    for seed, first, nbad in pending_free:
        if shared and serial_bad == 0:
            key = "config-shared-write:%s:%s" % (shared[0]["field"], first[0])
            what = ("concurrent calls with Configs cloned from one template misbehave: %s. Static fact: %s writes into %s, which every shallow copy of "
                    "the Config shares (%s)" % (first[1], shared[0]["id"], shared[0]["field"], shared[0]["code"]))
            ctx.violation(key, what, job_replay({"mode": "free", "first": first[1]}, seed, G, iters))
            continue
        if not locked and lock_bad == 0 and serial_bad == 0:
            key = KEY_CUR + ":" + first[0]
            what = ("%d goroutines calling api.BuildFile/RunCode/FormatCode on different programs: %d results differ from the sequential baseline / panic / kill "
                    "the process; first: %s. Localised: the same workload is clean when serialised and when ONLY compiler_wat.Compile is serialised; "
                    "Compile sets the package-level wir.currentModule without a lock (static fact), so overlapping compilations read each other's module "
                    "(Lean: interference_exists)" % (G, nbad, first[1]))
        elif locked:
            key = "despite-compile-lock:" + first[0]
            what = "Compile holds a lock, yet concurrent calls misbehave: " + first[1]
        else:
            key = "unattributed:" + first[0]
            what = "concurrent calls misbehave and the failure does not localise to Compile: " + first[1]
        ctx.violation(key, what, job_replay({"mode": "free", "first": first[1]}, seed, G, iters))

    # ---- the gated (deterministic) overlaps
    gate = {"overlaps": 0, "wrong": 0, "verdicts": {}}
    if gate_out is not None:
        _, gout, gerr = gate_out
        gbase = {}
        for ln in gout.splitlines():
            f = ln.split()
            if not f:
                continue
            if f[0] == "GATEBASE":
                gbase[f[1]] = " ".join(f[2:])[:200]
            elif f[0] == "GATE":
                gate["overlaps"] += 1
                gate["verdicts"][f[4]] = gate["verdicts"].get(f[4], 0) + 1
                if f[4].startswith(("WRONG", "BLOCKED")):
                    gate["wrong"] += 1
                    det = bytes.fromhex(f[5]).decode("utf-8", "replace") if len(f) > 5 and f[5] != "-" else f[4]
                    pausefile = bytes.fromhex(f[2]).decode()
                    if shared:
                        key = "config-shared-write:%s:%s" % (shared[0]["field"], "wrong-output" if f[4].startswith("WRONG") else "blocked")
                        det += "; static fact: %s (`%s`) writes into memory shared by shallow Config copies" % (shared[0]["id"], shared[0]["code"])
                    else:
                        key = "gated-overlap:%s" % f[4].lower()
                    ctx.violation(key, "deterministic overlap of two API calls whose Configs are clones of one template: " + det,
                                  {"mode": "gate", "A": f[1], "paused_at_open_of": pausefile, "B": f[3], "B_jobs": [jname(j) for j in gjobs],
                                   "baselines": gbase, "verdict": f[4]})
        if "GATEDONE" not in gout:
            ctx.notes.append("gate run did not finish: %s" % (gerr or "")[-300:])
    dist["gate"] = gate

    if uni_growth and uni_growth[0] is not None and uni_growth[1] > uni_growth[0]:
        ctx.violation(KEY_UNI, "every compilation appends its package scopes to the children of the process-global Universe scope (types.NewScope: the guard "
                      "`parent != WaUniverse || parent != WzUniverse` is always true): unsynchronised append to shared state from every API call and an "
                      "unbounded leak in a server; len(children) went %d -> %d during the concurrent phase" % uni_growth,
                      {"observed": "UNIVERSE-CHILDREN %d -> %d" % uni_growth, "where": "internal/types/scope.go NewScope"})

    races = []
    if race_out is not None:
        rc, out, err = race_out
        races = parse_races(err)
        dist["race_reports"] = len(races)
        owners = {}
        for rp_ in races:
            owners.setdefault(rp_["owner"] or "?", []).append(rp_)
        dist["race_owners"] = {k: len(v) for k, v in owners.items()}
        for owner, lst in owners.items():
            ex1 = " / ".join(lst[0]["tops"])
            if owner == "wir.currentModule":
                key = KEY_CUR + ":data-race" if not locked else "despite-compile-lock:data-race"
            elif owner == "types.universe-children":
                key = KEY_UNI
            else:
                key = "data-race:" + re.sub(r"\s*\(.*?\)", "", lst[0]["tops"][0] if lst[0]["tops"] else "unknown")[:80]
            ctx.violation(key, "race detector: %d reports attributed to %s, e.g. %s" % (len(lst), owner, ex1),
                          {"race_example": lst[0], "count": len(lst), "jobs": [jname(j) for j in jobs[:6]]})
        r = parse_run(out)
        if not r["done"] and not races:
            ctx.notes.append("race run died without a report: %s" % err[-300:])

    cov = {
        "evaluations": dist["calls"] + len(scheds) + gate["overlaps"],
        "distinct_nontrivial": len(stable_jobs) + interfering,
        "rule": "one evaluation = one API call executed concurrently with %d-1 others and compared with its sequential baseline (runs: free / all-serialised / "
                "only-Compile-serialised), or one random schedule replayed on the real wir package and on the Lean model; distinct_nontrivial = (run x job) "
                "pairs; distinct_nontrivial = distinct (op, program) jobs with a stable sequential baseline that were exercised concurrently, plus the %d replayed "
                "schedules in which some session read another session's module" % (G, interfering),
        "samples": samples,
        "distribution": dist,
        "static_facts": fsum,
        "schedules_replayed": len(scheds),
        "schedules_with_interference": interfering,
        "timings_s": tm,
    }
    return ctx.finish("exploration", cov,
                      assumptions=["the Go scheduler's interleavings of %d goroutines on this machine are the schedules explored; absence of a failure in a run is not a proof" % G,
                                   "attribution of a failing free run to wir.currentModule rests on: static fact (Compile not locked) + the lock-only-Compile run being clean + race reports in wir"],
                      trusted_base=["extract/c28_globals.go -> Gen/C28Facts.lean; extract/c28_globals_expected.json (audit)",
                                    "harness/c28 (baseline comparison, re-assembled BuildFile/RunCode for the lock-only-Compile experiment)", "Go race detector"])
