"""C20 — the wemu emulator executes instructions with the architecture's semantics."""
import re
from lib.vlib import boundary_ints
from lib import c20isa as isa
from lib.c20isa import mask, sx, vc, rel, isign

PROP = "C20"
META = {
    "category": "exploration",
    "text": "Reference = a Lean 4 ISA specification (RV32I/RV64I+M, LoongArch64 base integer instructions) written from the manuals, "
            "with machine-checked sanity theorems (x0 hard-wired, sub = add of negation, branch conditions = order relations on "
            "toInt/toNat incl. BGE/BGEU, mulh family = high half of the exact Int product, div/rem corner cases and the division "
            "identity, W instructions and loads extend correctly, jal/jalr link and target). The property itself is decided by "
            "running the REAL emulator (CPU.StepRun: fetch, decode, execInst on a real device.Bus with DRAM devices) for one step on "
            "every supported instruction x boundary-value state grid and comparing registers as subsequently read, pc and memory "
            "writes with the specification's step; a second stream builds the machine exactly as `wa wemu` does (abi.LinkedProgram -> "
            "wemu.NewWEmu -> Run) for RISCV32/RISCV64/LOONG64 and compares whole program runs (exit status, registers, pc, UART bytes, "
            "DRAM windows) with the specification iterated, which ties CPU selection/XLEN, DRAM base and size, reset pc/sp and the "
            "power-off convention of vm.go; a second, independently written python reference must agree with the Lean "
            "specification on every line. No theorem about the Go code is possible (no regenerable data form), hence exploration.",
    "note": "Trusted: Lean kernel; the specification's reading of the manuals (cross-checked by the theorems and by the independent "
            "python reference lib/c20isa.py on every line); the canonicalisation in harness/c20 (x0/f0 reported as the next "
            "instruction reads them; device-end overruns and unmapped addresses reported as 'fault'). Not compared: instructions the "
            "emulator answers 'unsupported'/'TODO' for (listed in the evidence), RV64-only encodings on riscv32 (reserved there), "
            "LoongArch DIV/MOD (undefined cases in the manual), accesses outside mapped devices beyond the fault/no-fault outcome. "
            "Floating point: the three LoongArch FP instructions the emulator executes are compared with Lean Float/Float32 "
            "evaluation, executed only, nothing proved.",
    "technique": "Lean 4 ISA specification with proved sanity theorems + exhaustive-by-instruction differential run of the real "
                 "emulator against it (three-way with an independent python reference)",
}
REQUIRED = [
    "write_x0_invisible", "bge_step", "bgeu_step", "jalr_link_and_target", "jal_misaligned_traps", "div_rem_identity_unsigned",
    "div_overflow32", "aluW_low32", "addiw_sign_extended", "shiftW_sign_extended", "la_beq_compares_rj_rd", "la_w_sign_extended",
    "la_bl_links_r1", "la_jirl_old_rj",
    "x0_reads_zero_after_step", "sub_eq_add_neg", "bge_taken_iff", "bgeu_taken_iff", "blt_taken_iff", "bltu_taken_iff",
    "beq_taken_iff", "bne_taken_iff", "mulhu_exact", "mulh_exact", "mulhsu_exact", "div_by_zero", "rem_by_zero",
    "div_overflow64", "div_rem_identity", "aluW_sign_extended", "load_signed_toInt", "load_unsigned_toNat",
    "jal_link_and_target", "jalr_target_even", "la_r0_reads_zero_after_step", "la_bge_taken_iff",
]

RV_PC = 0x80000000
LA_PC = 0x120000000


# ------------------------------------------------------------------------------------ value pools
def pool(n, tier, rng):
    if n == 32:
        core = [0, 1, 2, 31, 32, 33, 0x7f, 0x80, 0xff, 0x7fff, 0x8000, 0xffff, 0x7fffffff, 0x80000000, 0x80000001,
                0xffffffff, 0xfffffffe, 0x55555555, 0xaaaaaaaa, 0xfffff800]
    else:
        core = [0, 1, 2, 31, 32, 33, 63, 64, 65, 0x7fffffff, 0x80000000, 0x80000001, 0xffffffff, 0x100000000, 0x100000001,
                0x7fffffffffffffff, 0x8000000000000000, 0x8000000000000001, 0xffffffffffffffff, 0xfffffffffffffffe,
                0xffffffff80000000, 0xffffffff7fffffff, 0xffffffff00000000, 0x5555555555555555, 0xaaaaaaaaaaaaaaaa,
                0x00000001ffffffff, 0x0000000700000000]
    extra = []
    for _ in range(6 if tier == "quick" else 60):
        extra.append(rng.getrandbits(n))
        extra.append(rng.getrandbits(rng.choice([8, 16, 31, 32, 33, n])) & mask(n))
    if tier != "quick":
        extra += [v & mask(n) for v in boundary_ints(n, True)][::3]
    return core, extra


IMM12 = [0, 1, 2, -1, -2, 2047, -2048, 0x555, -0x556, 1024, -1024, 31, 32, 63, 64]
IMM20 = [0, 1, 0x7ffff, 0x80000, 0xfffff, 0x12345, 0xabcde, 0x00800, 0x80001]


class Gen:
    def __init__(self, ctx):
        self.ctx = ctx
        self.rng = ctx.rng
        self.cases = []

    def regs3(self):
        return self.rng.sample(range(1, 32), 3)

    def add(self, arch, mn, word, pc, regs, cls, ref, mems=(), fregs=None, x0=None, ref_notrap=None):
        parts = ["%s %08x pc=%x" % (arch, word, pc)]
        if x0 is not None:
            parts.append("x0=%x" % x0)
        for r in sorted(regs):
            if r != 0 and regs[r] != 0:
                parts.append("x%d=%x" % (r, regs[r]))
        for r in sorted(fregs or {}):
            if fregs[r] != 0:
                parts.append("f%d=%016x" % (r, fregs[r]))
        for a, data in mems:
            parts.append("m=%x:%s" % (a, bytes(data).hex()))
        self.cases.append({"line": " ".join(parts), "arch": arch, "mn": mn, "cls": cls, "ref": ref, "ref_notrap": ref_notrap})


# ------------------------------------------------------------------------------------ operand classes
def one(a, n):
    """sign of a register value (zero counts as +) and, for 64-bit registers, 'w' when the value is
    not a sign-extended 32-bit quantity"""
    c = vc(a, n)
    return ("-" if c in "nN" else "+") + ("w" if c in "PN" else "")


def two(a, b, n):
    ca, cb = vc(a, n), vc(b, n)
    return ("-" if ca in "nN" else "+") + ("-" if cb in "nN" else "+") + ("w" if (ca in "PN" or cb in "PN") else "")


# ------------------------------------------------------------------------------------ RISC-V generator
def rtags(mn, a, b, n):
    t = ""
    wform = mn.endswith("w") and mn in isa.RV64_ONLY
    width = 32 if wform else n
    if mn in ("sll", "srl", "sra", "sllw", "srlw", "sraw"):
        t += ":s0" if b % width == 0 else ":s"
    if mn in ("div", "rem", "divw", "remw", "divu", "remu", "divuw", "remuw"):
        if b == 0:
            t += ":dz"
        if (b & mask(width)) == 0 and b != 0:
            t += ":L"                       # divisor non-zero but its low 32 bits are zero (W forms)
        if mn in ("div", "rem", "divw", "remw") and (a & mask(width)) == 1 << (width - 1) and (b & mask(width)) == mask(width):
            t += ":ov"
    return t


def gen_rv(g, n):
    arch = "rv%d" % n
    rng, tier = g.rng, g.ctx.tier
    core, extra = pool(n, tier, rng)
    X = mask(n)
    mns = [m for m in isa.RV if n == 64 or m not in isa.RV64_ONLY]
    pcs = [RV_PC, 0x1000, 0x7ffffffc, 0xfffffffc] + ([0x7fffffff_fffffff0] if n == 64 else [])

    def ref(mn, rd, rs1, rs2, imm, pc, regs, mems=()):
        out = isa.rv_ref(n, mn, rd, rs1, rs2, imm, pc, regs, isa.Mem(list(mems) + [(pc, [0] * 4)]))
        return isa.canon(out, regs, X)

    def emit(mn, rd, rs1, rs2, imm, regs, cls, pc=RV_PC, mems=(), x0=None):
        word = isa.rv_encode(mn, rd, rs1, rs2, imm, n)
        r = ref(mn, rd, rs1, rs2, imm, pc, regs, mems)
        nt = None
        if r == "misaligned":
            nt = isa.canon(isa.rv_ref(n, mn, rd, rs1, rs2, imm, pc, regs, isa.Mem([(pc, [0] * 4)]), trap=False), regs, X)
        g.add(arch, mn, word, pc, regs, cls, r, mems, x0=x0, ref_notrap=nt)

    for mn in mns:
        f = isa.RV[mn][0]
        if f == "R":
            pairs = [(a, b) for a in core for b in core]
            pairs += [(rng.choice(core + extra), rng.choice(core + extra)) for _ in range(40 if tier == "quick" else 3000)]
            for k, (a, b) in enumerate(pairs):
                rd, r1, r2 = g.regs3()
                emit(mn, rd, r1, r2, 0, {r1: a, r2: b}, two(a, b, n) + rtags(mn, a, b, n))
                if k % 9 == 0:          # aliasing and x0 variants
                    emit(mn, r1, r1, r2, 0, {r1: a, r2: b}, two(a, b, n) + rtags(mn, a, b, n))
                    emit(mn, r2, r1, r2, 0, {r1: a, r2: b}, two(a, b, n) + rtags(mn, a, b, n))
                    emit(mn, 0, r1, r2, 0, {r1: a, r2: b}, two(a, b, n) + rtags(mn, a, b, n))
                    emit(mn, rd, r1, r1, 0, {r1: a}, two(a, a, n) + rtags(mn, a, a, n))
                    emit(mn, rd, 0, r2, 0, {r2: b}, two(0, b, n) + rtags(mn, 0, b, n), x0=a | 1)
                    emit(mn, rd, r1, 0, 0, {r1: a}, two(a, 0, n) + rtags(mn, a, 0, n), x0=b | 1)
        elif mn == "jalr":
            for a in core + extra:
                for imm in IMM12:
                    rd, r1, _ = g.regs3()
                    for rdx in (rd, r1, 0):
                        t = (a + imm) & X
                        cls = ("plain" if not (t & 3 or rdx == r1) else "") + ("odd" if t & 1 else "") + (":mis" if t & 2 else "") + (":rd=rs1" if rdx == r1 else "")
                        cls = cls.lstrip(":")
                        emit(mn, rdx, r1, 0, imm, {r1: a}, cls, pc=rng.choice(pcs))
        elif f == "I" and mn in isa.RV_LOADS:
            gen_mem(g, n, arch, mn, emit, True)
        elif f == "S":
            gen_mem(g, n, arch, mn, emit, False)
        elif mn == "fence":
            for pc in pcs:
                emit(mn, 0, 0, 0, 0x0ff, {5: 7}, "any", pc=pc)
        elif f == "I":
            for a in core + extra:
                for imm in IMM12:
                    rd, r1, _ = g.regs3()
                    emit(mn, rd, r1, 0, imm, {r1: a}, one(a, n) + ":" + isign(imm))
                emit(mn, r1, r1, 0, -1, {r1: a}, one(a, n) + ":i-")
                emit(mn, 0, r1, 0, 5, {r1: a}, one(a, n) + ":i+")
            for imm in IMM12:
                emit(mn, 7, 0, 0, imm, {}, "+:" + isign(imm), x0=0xdead)
        elif f in ("SH", "SHW"):
            width = n if f == "SH" else 32
            shs = sorted({0, 1, 2, 15, 16, 30, 31, width - 2, width - 1, width // 2, width // 2 + 1})
            for a in core + extra:
                for s in shs:
                    rd, r1, _ = g.regs3()
                    emit(mn, rd, r1, 0, s, {r1: a}, one(a, n) + (":s0" if s == 0 else (":s<32" if s < 32 else ":s>=32")))
                emit(mn, r1, r1, 0, 1, {r1: a}, one(a, n) + ":s<32")
        elif f == "U":
            for imm in IMM20:
                for pc in pcs:
                    for rd in (5, 31, 0):
                        emit(mn, rd, 0, 0, imm, {rd: 0x1234}, "i0" if imm == 0 else ("i-" if imm >> 19 else "i+"), pc=pc)
        elif f == "J":
            offs = [4, -4, 8, -8, 0xffffc, -0x100000, 0x7fc, 0x800, 0x1000, 0xff000, 2, -2, 6, 0xffffe]
            offs += [1 << k for k in range(2, 20)] + [-(1 << k) for k in range(2, 20)]
            for off in sorted(set(offs)):
                for pc in pcs:
                    for rd in (1, 5, 0):
                        emit(mn, rd, 0, 0, off, {rd: 0x1234}, ("+off" if off >= 0 else "-off") + (":mis" if off % 4 else ""), pc=pc)
        elif f == "B":
            small = [0, 1, 2, 0x7fffffff, 0x80000000, X >> 1, (X >> 1) + 1, X, X - 1, 0xffffffff & X, 0x5555 & X]
            pairs = [(a, b) for a in small for b in small] + [(rng.choice(core + extra), rng.choice(core + extra)) for _ in range(30)]
            offs_all = sorted(set([8, -8, 4, -4, 4092, -4096, 2, -2, 6, -6, 0x7fe, 0x800, -0x800] +
                                  [1 << k for k in range(2, 12)] + [-(1 << k) for k in range(2, 12)]))
            for k, (a, b) in enumerate(pairs):
                r1, r2, _ = g.regs3()
                for off in ((8, -8, 2044, -4096) if k >= 6 else offs_all):
                    cls = rel(a, b, n) + (":+off" if off >= 0 else ":-off") + (":mis" if off % 4 else "")
                    emit(mn, 0, r1, r2, off, {r1: a, r2: b}, cls, pc=RV_PC if k % 3 else rng.choice(pcs))
                emit(mn, 0, r1, r1, 8, {r1: a}, "eq:+off")
                emit(mn, 0, 0, r2, 8, {r2: b}, rel(0, b, n) + ":+off", x0=0xbeef)
        else:
            raise ValueError(mn)


def gen_mem(g, n, arch, mn, emit, is_load):
    rng = g.rng
    X = mask(n)
    k = isa.RV_LOADS[mn][0] if is_load else isa.RV_STORES[mn]
    base = RV_PC + 0x1000
    pats = [[0x80] * 32, [0x7f] * 32, [0xff] * 32, [0x00] * 32, [0x81 + i for i in range(32)],
            [rng.getrandbits(8) for _ in range(32)], [(0x7f if i % 2 else 0x80) for i in range(32)]]
    core, extra = pool(n, g.ctx.tier, rng)
    for off in (0, 1, 2, 3, 4, 5, 7):
        for imm in (0, 1, -1, 2047, -2048, 0x7f8, -8):
            addr = base + 8 + off
            rs1v = (addr - imm) & X
            al = "a" if addr % k == 0 else "u"
            if is_load:
                for pat in pats:
                    rd, r1, _ = g.regs3()
                    msb = pat[8 + off + k - 1] >> 7
                    cls = "msb%d:%s:%s" % (msb, al, isign(imm))
                    emit(mn, rd, r1, 0, imm, {r1: rs1v, rd: 0x1111}, cls, mems=[(base, pat)])
                emit(mn, r1, r1, 0, imm, {r1: rs1v}, "msb%d:%s:%s" % (pats[0][0] >> 7, al, isign(imm)), mems=[(base, pats[0])])
                emit(mn, 0, r1, 0, imm, {r1: rs1v}, "msb%d:%s:%s" % (pats[0][0] >> 7, al, isign(imm)), mems=[(base, pats[0])])
            else:
                for v in (core if off in (0, 3) else core[::4]) + extra[:4]:
                    r2, r1, _ = g.regs3()
                    cls = "%s:%s:%s" % ("fits" if v < (1 << (8 * k)) else "trunc", al, isign(imm))
                    emit(mn, 0, r1, r2, imm, {r1: rs1v, r2: v}, cls, mems=[(base, pats[4])])
                emit(mn, 0, r1, r1, imm, {r1: rs1v}, "%s:%s:%s" % ("fits" if rs1v < (1 << (8 * k)) else "trunc", al, isign(imm)), mems=[(base, pats[4])])
    # no memory behind the address / access running over the end of the device: both sides must fault
    r2, r1, rd = g.regs3()
    emit(mn, rd if is_load else 0, r1, 0 if is_load else r2, 0, {r1: 0x40, r2: 5}, "unmapped", mems=[(base, pats[0])])
    if k > 1:
        emit(mn, rd if is_load else 0, r1, 0 if is_load else r2, 0, {r1: base + 31, r2: 5}, "device-end", mems=[(base, pats[0])])


# ------------------------------------------------------------------------------------ LoongArch generator
def gen_la(g):
    rng, tier = g.rng, g.ctx.tier
    n = 64
    core, extra = pool(64, tier, rng)
    X = isa.M64
    pcs = [LA_PC, 0x1000, 0x7ffffffc, 0xfffffffc, 0x7fffffff_fffffff0]
    base = LA_PC + 0x1000

    def ref(mn, rd, rj, rk, imm, pc, regs, mems=()):
        out = isa.la_ref(mn, rd, rj, rk, imm, pc, regs, isa.Mem(list(mems) + [(pc, [0] * 4)]))
        return isa.canon(out, regs, X)

    def emit(mn, rd, rj, rk, imm, regs, cls, pc=LA_PC, mems=(), x0=None):
        word = isa.la_encode(mn, rd, rj, rk, imm)
        g.add("la64", mn, word, pc, regs, cls, ref(mn, rd, rj, rk, imm, pc, regs, mems), mems, x0=x0)

    def shtag(mn, b):
        if mn in ("sll.w", "srl.w", "sra.w", "rotr.w"):
            return ":s0" if b % 32 == 0 else ":s"
        if mn in ("sll.d", "srl.d", "sra.d", "rotr.d"):
            return ":s0" if b % 64 == 0 else ":s"
        return ""

    for mn in isa.LA3R:
        pairs = [(a, b) for a in core for b in core]
        pairs += [(rng.choice(core + extra), rng.choice(core + extra)) for _ in range(40 if tier == "quick" else 3000)]
        for k, (a, b) in enumerate(pairs):
            rd, rj, rk = g.regs3()
            emit(mn, rd, rj, rk, 0, {rj: a, rk: b}, two(a, b, n) + shtag(mn, b))
            if k % 9 == 0:
                emit(mn, rj, rj, rk, 0, {rj: a, rk: b}, two(a, b, n) + shtag(mn, b))
                emit(mn, rk, rj, rk, 0, {rj: a, rk: b}, two(a, b, n) + shtag(mn, b))
                emit(mn, 0, rj, rk, 0, {rj: a, rk: b}, two(a, b, n) + shtag(mn, b))
                emit(mn, rd, rj, rj, 0, {rj: a}, two(a, a, n) + shtag(mn, a))
                emit(mn, rd, 0, rk, 0, {rk: b}, two(0, b, n) + shtag(mn, b), x0=a | 1)
                emit(mn, rd, rj, 0, 0, {rj: a}, two(a, 0, n) + shtag(mn, 0), x0=b | 1)
    for mn in list(isa.LASH5) + list(isa.LASH6):
        width = 32 if mn in isa.LASH5 else 64
        shs = sorted({0, 1, 2, 15, 16, 30, 31, width - 2, width - 1, width // 2, width // 2 + 1})
        for a in core + extra:
            for s in shs:
                rd, rj, _ = g.regs3()
                emit(mn, rd, rj, 0, s, {rj: a}, one(a, n) + (":s0" if s == 0 else (":s<32" if s < 32 else ":s>=32")))
            emit(mn, rj, rj, 0, 1, {rj: a}, one(a, n) + ":s<32")
    for mn in isa.LAI12:
        for a in core + extra:
            for imm in IMM12:
                rd, rj, _ = g.regs3()
                emit(mn, rd, rj, 0, imm, {rj: a}, one(a, n) + ":" + isign(imm))
            emit(mn, rj, rj, 0, -1, {rj: a}, one(a, n) + ":i-")
            emit(mn, 0, rj, 0, 5, {rj: a}, one(a, n) + ":i+")
        for imm in IMM12:
            emit(mn, 7, 0, 0, imm, {}, "+:" + isign(imm), x0=0xdead)
    for mn in isa.LAI20:
        for imm in IMM20:
            for pc in pcs:
                for rd in (5, 31, 0):
                    emit(mn, rd, 0, 0, imm, {rd: 0xfedcba9876543210}, "i0" if imm == 0 else ("i-" if imm >> 19 else "i+"), pc=pc)
    for a in core + extra:
        for imm in (0, 1, -1, 0x7fff, -0x8000, 0x1234):
            rd, rj, _ = g.regs3()
            emit("addu16i.d", rd, rj, 0, imm, {rj: a}, one(a, n) + ":" + isign(imm))
    # loads / stores
    pats = [[0x80] * 32, [0x7f] * 32, [0xff] * 32, [0x00] * 32, [0x81 + i for i in range(32)],
            [rng.getrandbits(8) for _ in range(32)], [(0x7f if i % 2 else 0x80) for i in range(32)]]
    for mn in isa.LAMEM:
        is_load = mn in isa.LA_LOADS
        k = isa.LA_LOADS[mn][0] if is_load else isa.LA_STORES[mn]
        for off in (0, 1, 2, 3, 4, 5, 7):
            for imm in (0, 1, -1, 2047, -2048, 0x7f8, -8):
                addr = base + 8 + off
                rjv = (addr - imm) & X
                al = "a" if addr % k == 0 else "u"
                if is_load:
                    for pat in pats:
                        rd, rj, _ = g.regs3()
                        cls = "msb%d:%s:%s" % (pat[8 + off + k - 1] >> 7, al, isign(imm))
                        emit(mn, rd, rj, 0, imm, {rj: rjv, rd: 0x1111}, cls, mems=[(base, pat)])
                    emit(mn, rj, rj, 0, imm, {rj: rjv}, "msb1:%s:%s" % (al, isign(imm)), mems=[(base, pats[0])])
                    emit(mn, 0, rj, 0, imm, {rj: rjv}, "msb1:%s:%s" % (al, isign(imm)), mems=[(base, pats[0])])
                else:
                    for v in (core if off in (0, 3) else core[::4]) + extra[:4]:
                        rd, rj, _ = g.regs3()
                        emit(mn, rd, rj, 0, imm, {rj: rjv, rd: v}, "%s:%s:%s" % ("fits" if v < (1 << (8 * k)) else "trunc", al, isign(imm)), mems=[(base, pats[4])])
                    emit(mn, rj, rj, 0, imm, {rj: rjv}, "%s:%s:%s" % ("fits" if rjv < (1 << (8 * k)) else "trunc", al, isign(imm)), mems=[(base, pats[4])])
        rd, rj, _ = g.regs3()
        emit(mn, rd, rj, 0, 0, {rj: 0x40, rd: 5}, "unmapped", mems=[(base, pats[0])])
        if k > 1:
            emit(mn, rd, rj, 0, 0, {rj: base + 31, rd: 5}, "device-end", mems=[(base, pats[0])])
    # branches
    small = [0, 1, 2, 0x7fffffff, 0x80000000, X >> 1, (X >> 1) + 1, X, X - 1, 0xffffffff, 0x5555]
    pairs = [(a, b) for a in small for b in small] + [(rng.choice(core + extra), rng.choice(core + extra)) for _ in range(30)]
    offs_all = sorted(set([8, -8, 4, -4, 0x1fffc, -0x20000] + [1 << k for k in range(2, 17)] + [-(1 << k) for k in range(2, 17)]))
    for mn in isa.LABR:
        for k, (a, b) in enumerate(pairs):
            rj, rd, _ = g.regs3()
            for off in ((8, -8, 0x1fffc, -0x20000) if k >= 6 else offs_all):
                emit(mn, rd, rj, 0, off, {rj: a, rd: b}, rel(a, b, n) + (":+off" if off >= 0 else ":-off"),
                     pc=LA_PC if k % 3 else rng.choice(pcs))
            emit(mn, rj, rj, 0, 8, {rj: a}, "eq:+off")
            emit(mn, rd, 0, 0, 8, {rd: b}, rel(0, b, n) + ":+off", x0=0xbeef)
            emit(mn, 0, rj, 0, 8, {rj: a}, rel(a, 0, n) + ":+off", x0=0xbeef)
    offs21 = sorted(set([8, -8, 0x3ffffc, -0x400000] + [1 << k for k in range(2, 22)] + [-(1 << k) for k in range(2, 22)]))
    for mn in ("beqz", "bnez"):
        for a in small + extra[:6]:
            for off in offs21:
                rj = rng.randrange(1, 32)
                emit(mn, 0, rj, 0, off, {rj: a}, ("zero" if a == 0 else "nonzero") + (":+off" if off >= 0 else ":-off"))
        emit(mn, 0, 0, 0, 8, {}, "zero:+off", x0=0xbeef)
    offs26 = sorted(set([8, -8, 0x7fffffc, -0x8000000] + [1 << k for k in range(2, 27)] + [-(1 << k) for k in range(2, 27)]))
    for mn in ("b", "bl"):
        for off in offs26:
            for pc in pcs:
                emit(mn, 0, 0, 0, off, {1: 0x7777}, "+off" if off >= 0 else "-off", pc=pc)
    for a in core + extra:
        for off in (0, 4, -4, 0x1fffc, -0x20000, 0x100):
            rd, rj, _ = g.regs3()
            for rdx in (rd, rj, 0, 1):
                t = (a + off) & X
                emit("jirl", rdx, rj, 0, off, {rj: a}, ("+off" if off >= 0 else "-off") + (":mis" if t % 4 else "") +
                     (":rd=rj" if rdx == rj else ""), pc=rng.choice(pcs))
    # floating point (executed only): the emulator keeps float64 values; singles are given as exactly representable doubles
    import struct
    d = lambda x: struct.unpack("<Q", struct.pack("<d", x))[0]
    s = lambda x: d(struct.unpack("<f", struct.pack("<f", x))[0])
    fvals_d = [d(x) for x in (0.0, 1.0, 2.0, -1.5, 0.1, 1e300, 1e-300, 3.141592653589793, float("inf"), -0.0)]
    fvals_s = [s(x) for x in (0.0, 1.0, 2.0, -1.5, 0.1, 1e30, 1e-30, 3.1415927, float("inf"), 16777216.0, 16777217.0)]
    for mn in isa.LAF3:
        vals = fvals_s if mn.endswith(".s") else fvals_d
        for a in vals:
            for b in vals:
                fd, fj, fk = g.rng.sample(range(1, 32), 3)
                word = isa.la_encode(mn, fd, fj, fk)
                g.add("la64", mn, word, LA_PC, {}, "f:any", None, fregs={fj: a, fk: b, fd: d(7.25)})
        # f0 is an ordinary register (fa0): as a source and as a bystander
        word = isa.la_encode(mn, 3, 0, 4)
        g.add("la64", mn, word, LA_PC, {}, "f:f0-source", None, fregs={0: vals[1], 4: vals[2]})
        word = isa.la_encode(mn, 3, 5, 4)
        g.add("la64", mn, word, LA_PC, {}, "f:f0-bystander", None, fregs={0: vals[1], 4: vals[2], 5: vals[3]})


# ------------------------------------------------------------------------------------ whole-machine stream
# The emulator exactly as `wa wemu` builds it: abi.LinkedProgram -> wemu.NewWEmu -> Run().  What vm.go
# decides and this stream observes: which CPU (XLEN, ISA) serves which abi CPU type, DRAM base and
# size, reset pc and stack pointer, the run loop, the power-off (exit ok / exit fail) convention and
# the UART transmit register.  Programs use only instructions the single-step stream found correct on
# the pinned tree (each is still compared in full: registers, pc, UART bytes, memory windows).
def vm_halt(arch, status=0x5555):
    hi, lo = status >> 12, status & 0xfff
    if arch == "la64":
        return [("lu12i.w", 12, 0, 0, 0x100), ("lu12i.w", 13, 0, 0, hi), ("ori", 13, 13, 0, lo), ("st.w", 13, 12, 0, 0)]
    return [("lui", 5, 0, 0, 0x100), ("lui", 6, 0, 0, hi), ("addi", 6, 6, 0, lo), ("sw", 0, 5, 6, 0)]


def vm_print(arch, text):
    out = []
    if arch == "la64":
        out.append(("lu12i.w", 14, 0, 0, 0x10000))
        for ch in text.encode():
            out += [("ori", 15, 0, 0, ch), ("st.b", 15, 14, 0, 0)]
    else:
        out.append(("lui", 7, 0, 0, 0x10000))
        for ch in text.encode():
            out += [("addi", 28, 0, 0, ch), ("sb", 0, 7, 28, 0)]
    return out


def gen_vm(g):
    rng, tier = g.rng, g.ctx.tier
    progs = []          # (arch, name, prog, text_addr, data, wins)
    for arch in ("rv32", "rv64"):
        n = 32 if arch == "rv32" else 64
        B = isa.DRAM_BASE[arch]
        top = B + isa.DRAM_SIZE
        # results depend on XLEN: lui sign extension, logical shift of the top bits, wrap-around of add/mul
        xlen = [("lui", 10, 0, 0, 0x80000), ("srli", 11, 10, 0, 4), ("addi", 28, 0, 0, -1), ("srli", 29, 28, 0, 1),
                ("slli", 30, 28, 0, 31), ("add", 31, 30, 30, 0), ("mul", 19, 10, 10, 0), ("sltu", 18, 29, 10, 0),
                ("sub", 20, 0, 29, 0), ("srli", 21, 20, 0, 28), ("xori", 22, 11, 0, -1), ("sltiu", 23, 10, 0, -1),
                ("sw", 0, 2, 11, -4), ("sw", 0, 2, 31, -8), ("sw", 0, 2, 21, -12)]
        progs.append((arch, "xlen", xlen + vm_print(arch, "x%d" % n) + vm_halt(arch), B, None, [(top - 16, 16)]))
        # loop: sum 10..1 with a forward branch and a backward jal, result to the data segment and the UART
        D = top - 0x2000      # reached sp-relative: lui sign-extends on RV64 and AUIPC is one of the recorded defects
        loop = [("addi", 10, 0, 0, 0), ("addi", 11, 0, 0, 10),
                ("beq", 0, 11, 0, 16), ("add", 10, 10, 11, 0), ("addi", 11, 11, 0, -1), ("jal", 0, 0, 0, -12),
                ("lui", 12, 0, 0, 0xffffe), ("add", 12, 2, 12, 0), ("sw", 0, 12, 10, 8), ("addi", 13, 10, 0, 10), ("sb", 0, 12, 13, 12)]
        progs.append((arch, "loop", loop + vm_print(arch, "OK\n") + vm_halt(arch), B, (D, list(range(1, 9))), [(D, 16)]))
        # data segment: every load width with sign bits, stores of every width
        dat = [0x80, 0x7f, 0xff, 0x01, 0xfe, 0xdc, 0xba, 0x98, 0x76, 0x54, 0x32, 0x10, 0xef, 0xcd, 0xab, 0x89]
        memp = [("lui", 12, 0, 0, 0xffffe), ("add", 12, 2, 12, 0), ("lb", 13, 12, 0, 0), ("lbu", 14, 12, 0, 0), ("lh", 15, 12, 0, 2),
                ("lhu", 16, 12, 0, 2), ("lw", 17, 12, 0, 4), ("lw", 18, 12, 0, 8), ("lb", 19, 12, 0, 1),
                ("sb", 0, 12, 17, 16), ("sh", 0, 12, 17, 18), ("sw", 0, 12, 18, 20), ("sw", 0, 12, 13, 24)]
        if n == 64:
            memp += [("lwu", 20, 12, 0, 4), ("ld", 21, 12, 0, 8), ("addiw", 22, 17, 0, 1), ("addw", 23, 17, 17, 0),
                     ("slliw", 24, 14, 0, 24), ("srliw", 25, 17, 0, 4), ("mulw", 26, 17, 17, 0), ("subw", 27, 0, 14, 0)]
        progs.append((arch, "mem", memp + vm_halt(arch), B, (D, dat), [(D, 32)]))
        # exit-fail status, text not at the start of DRAM, link register depends on the reset pc
        T = B + 0x1000
        progs.append((arch, "exitfail", [("jal", 1, 0, 0, 8), ("addi", 9, 0, 0, 1), ("addi", 8, 1, 0, 0)] + vm_halt(arch, 0x3333), T, None, []))
        # first and last word of the 16 MiB DRAM, stack pointer = end of DRAM
        edge = [("lui", 12, 0, 0, 0xff008), ("add", 12, 2, 12, 0), ("addi", 13, 0, 0, 0x5a5), ("sw", 0, 12, 13, 0), ("sw", 0, 2, 13, -4),
                ("lw", 14, 2, 0, -4), ("lw", 15, 12, 0, 0), ("addi", 16, 2, 0, -16), ("sw", 0, 16, 2, 0), ("lw", 17, 16, 0, 0)]
        progs.append((arch, "dram-edges", edge + vm_halt(arch), B, None, [(B + 0x8000, 4), (top - 16, 16)]))
        # signed operations, arithmetic shifts, pc-relative addressing, a backward conditional branch
        sg = [("addi", 10, 0, 0, -8), ("srai", 11, 10, 0, 1), ("addi", 12, 0, 0, 2), ("div", 13, 10, 12, 0), ("rem", 14, 10, 12, 0),
              ("slt", 15, 10, 12, 0), ("slti", 16, 10, 0, -7), ("blt", 0, 10, 12, 8), ("addi", 17, 0, 0, 1), ("sra", 18, 10, 12, 0),
              ("sll", 19, 12, 12, 0), ("srl", 20, 10, 12, 0), ("auipc", 21, 0, 0, 0), ("bge", 0, 12, 12, 8), ("addi", 22, 0, 0, 1),
              ("addi", 23, 0, 0, 3), ("addi", 24, 24, 0, 5), ("addi", 23, 23, 0, -1), ("bne", 0, 23, 0, -8),
              ("jalr", 25, 21, 0, 0x54 - 0x30), ("addi", 26, 0, 0, 1), ("auipc", 28, 0, 0, 0x82345), ("sw", 0, 2, 13, -4), ("sw", 0, 2, 20, -8)]
        if n == 64:
            sg += [("sd", 0, 2, 10, -16), ("sraiw", 27, 10, 0, 1), ("divw", 9, 10, 12, 0), ("sraw", 8, 10, 12, 0)]
        progs.append((arch, "signed", sg + vm_halt(arch), B, None, [(top - 16, 16)]))
        # generated straight-line programs
        ri = ["addi", "xori", "ori", "andi", "sltiu"] + (["slti", "addiw"] if n == 64 else [])
        rr = ["add", "sub", "xor", "or", "and", "sltu", "mul"] + (["slt", "addw", "subw", "mulw"] if n == 64 else [])
        rs = ["slli", "srli"]
        for k in range(12 if tier == "quick" else 200):
            pr = [("lui", r, 0, 0, rng.choice(IMM20)) for r in (10, 11)] + [("addi", 12, 0, 0, rng.choice(IMM12)), ("addi", 13, 11, 0, rng.choice(IMM12))]
            for _ in range(rng.randrange(8, 24)):
                kind = rng.randrange(4)
                rd, r1, r2 = rng.randrange(10, 18), rng.randrange(10, 18), rng.randrange(10, 18)
                if kind == 0:
                    pr.append((rng.choice(ri), rd, r1, 0, rng.choice(IMM12)))
                elif kind == 1:
                    pr.append((rng.choice(rr), rd, r1, r2, 0))
                elif kind == 2:
                    mnn = rng.choice(rs + (["slliw", "srliw"] if n == 64 else []))
                    pr.append((mnn, rd, r1, 0, rng.randrange(32 if mnn.endswith("w") else n)))
                else:
                    pr.append(("lui", rd, 0, 0, rng.choice(IMM20)))
            pr += [("sw", 0, 2, rng.randrange(10, 18), -4 * (j + 1)) for j in range(4)]
            progs.append((arch, "gen%d" % k, pr + vm_halt(arch), B, None, [(top - 16, 16)]))
    # LoongArch
    arch = "la64"
    B = isa.DRAM_BASE[arch]
    top = B + isa.DRAM_SIZE
    la_x = [("lu12i.w", 4, 0, 0, 0x80000), ("add.w", 5, 4, 4, 0), ("add.d", 6, 4, 4, 0), ("sub.d", 7, 0, 4, 0), ("sub.w", 8, 0, 4, 0),
            ("slli.w", 9, 4, 0, 1), ("srai.w", 10, 4, 0, 4), ("srli.w", 11, 4, 0, 4), ("slt", 16, 4, 0, 0), ("ori", 17, 4, 0, 0xfff),
            ("and", 18, 17, 7, 0), ("or", 19, 6, 10, 0), ("st.d", 6, 3, 0, -8), ("st.w", 11, 3, 0, -12), ("st.b", 17, 3, 0, -16),
            ("ld.d", 20, 3, 0, -8), ("ld.bu", 21, 3, 0, -5)]
    progs.append((arch, "xlen", la_x + vm_print(arch, "la64") + vm_halt(arch), B, None, [(top - 16, 16)]))
    la_loop = [("ori", 4, 0, 0, 0), ("ori", 5, 0, 0, 10),
               ("beq", 0, 5, 0, 16), ("add.d", 4, 4, 5, 0), ("addi.w", 5, 5, 0, -1), ("b", 0, 0, 0, -12),
               ("st.d", 4, 3, 0, -8), ("bl", 0, 0, 0, 8), ("ori", 6, 0, 0, 1), ("or", 7, 1, 0, 0)]
    progs.append((arch, "loop", la_loop + vm_print(arch, "OK\n") + vm_halt(arch), B, None, [(top - 8, 8)]))
    progs.append((arch, "exitfail", [("ori", 4, 0, 0, 7)] + vm_halt(arch, 0x3333), B + 0x1000, None, []))
    la_br = [("ori", 4, 0, 0, 7), ("ori", 5, 0, 0, 7), ("sub.d", 6, 0, 4, 0), ("beq", 5, 4, 0, 8), ("ori", 7, 0, 0, 1),
             ("blt", 4, 6, 0, 8), ("ori", 8, 0, 0, 1), ("bne", 5, 4, 0, 8), ("ori", 9, 0, 0, 1), ("pcaddu12i", 10, 0, 0, 1),
             ("addi.w", 11, 6, 0, -1), ("lu12i.w", 16, 0, 0, 0x7ffff), ("ori", 16, 16, 0, 0xfff), ("addi.w", 17, 16, 0, 1),
             ("srli.w", 18, 6, 0, 0), ("st.d", 17, 3, 0, -8)]
    progs.append((arch, "branches", la_br + vm_halt(arch), B, None, [(top - 8, 8)]))
    la_edge = [("ori", 13, 0, 0, 0x5a5), ("st.w", 13, 3, 0, -4), ("ld.d", 14, 3, 0, -8), ("lu12i.w", 15, 0, 0, 0xff8),
               ("sub.d", 16, 3, 15, 0), ("st.d", 3, 16, 0, 0), ("ld.d", 17, 16, 0, 0), ("ld.bu", 18, 16, 0, 3)]
    progs.append((arch, "dram-edges", la_edge + vm_halt(arch), B, None, [(B + 0x8000, 8), (top - 8, 8)]))
    r3 = ["add.w", "add.d", "sub.w", "sub.d", "and", "or", "slt"]
    for k in range(12 if tier == "quick" else 200):
        pr = [("lu12i.w", r, 0, 0, rng.choice(IMM20)) for r in (4, 5)] + [("ori", 6, 0, 0, rng.randrange(4096)), ("ori", 7, 5, 0, rng.randrange(4096))]
        for _ in range(rng.randrange(8, 24)):
            kind = rng.randrange(4)
            rd, rj, rk = rng.randrange(4, 12), rng.randrange(4, 12), rng.randrange(4, 12)
            if kind == 0:
                pr.append(("ori", rd, rj, 0, rng.randrange(4096)))
            elif kind == 1:
                pr.append((rng.choice(r3), rd, rj, rk, 0))
            elif kind == 2:
                pr.append((rng.choice(["slli.w", "srai.w", "srli.w"]), rd, rj, 0, rng.randrange(1, 32)))
            else:
                pr.append(("lu12i.w", rd, 0, 0, rng.choice(IMM20)))
        pr += [("st.d", rng.randrange(4, 12), 3, 0, -8 * (j + 1)) for j in range(2)]
        progs.append((arch, "gen%d" % k, pr + vm_halt(arch), B, None, [(top - 16, 16)]))
    out = []
    for arch, name, prog, taddr, data, wins in progs:
        out.append({"line": isa.vm_line(arch, prog, taddr, data, wins), "arch": arch, "name": name,
                    "ref": isa.vm_ref(arch, prog, taddr, data, wins), "instructions": len(prog)})
    return out


VM_FIELDS = ("pc", "x", "uart", "mem")


def vm_aspect(a, b):
    """which architecturally visible part of the final machine state differs"""
    fa, fb = a.split(), b.split()
    if fa[:2] != fb[:2] or len(fa) != 6 or len(fb) != 6:
        return "outcome"
    for i, name in enumerate(VM_FIELDS):
        if fa[2 + i] != fb[2 + i]:
            return {"x": "registers", "mem": "memory"}.get(name, name)
    return "outcome"


def run_vm(ctx, h, m, cov):
    cases = gen_vm(Gen(ctx)) if not ctx.replay else []
    if ctx.replay:
        import json
        rp = json.load(open(ctx.replay)).get("replay", {})
        if rp.get("line", "").startswith("vm "):
            cases = [{"line": rp["line"], "arch": rp["line"].split()[1], "name": rp.get("program", "replay"), "ref": None}]
    text = "\n".join(c["line"] for c in cases) + "\n"
    if not cases:
        return
    _, out, _ = ctx.run_bin(h, input_text=text, timeout=900)
    _, mo, _ = ctx.run_bin(m, input_text=text)
    impl, spec = out.splitlines(), mo.splitlines()
    if len(impl) != len(cases) or len(spec) != len(cases):
        ctx.proof["broken"].append({"theorem": "C20 vm streams", "why": "cases=%d impl=%d spec=%d" % (len(cases), len(impl), len(spec))})
        return
    impl_r, spec_r, nd = [], [], 0
    for c, a, b in zip(cases, impl, spec):
        ir, sr = a.partition(" | ")[0], b.partition(" | ")[0]
        steps = b.partition("steps=")[2]
        impl_r.append(ir)
        spec_r.append(sr)
        if c["ref"] is not None and sr != c["ref"]:
            ctx.proof["broken"].append({"theorem": "C20 specification vs independent python reference (vm stream)",
                                        "why": "%s %s: Lean %r python %r" % (c["arch"], c["name"], sr, c["ref"])})
            impl_r[-1] = spec_r[-1] = "skipped"
            continue
        c["steps"] = steps
        if ir != sr:
            nd += 1
            asp = vm_aspect(ir, sr)
            ctx.violation("vm:%s:%s" % (c["arch"], asp),
                          "wemu.NewWEmu(%s program %r).Run(): final %s differ from the ISA reference run (%s steps): emulator [%s], reference [%s]"
                          % (c["arch"], c["name"], asp, steps, ir, sr),
                          {"line": c["line"], "program": c["name"], "emulator": ir, "reference": sr,
                           "replay": "echo '<line>' | .build/bin/c20   (and lean/.lake/build/bin/wamodel_c20)"})
    ctx.diff_lines([c["line"] for c in cases], impl_r, spec_r)
    cov["vm_stream"] = {
        "programs": len(cases), "differing": nd,
        "instructions_executed_by_reference": sum(int(c.get("steps") or 0) for c in cases),
        "per_arch": {a: sum(1 for c in cases if c["arch"] == a) for a in ("rv32", "rv64", "la64")},
        "what": "abi.LinkedProgram{CPU: RISCV32|RISCV64|LOONG64} -> wemu.NewWEmu(prog, nil) -> Run(), as internal/app/appwemu does; "
                "compared: exit status (power device 0x5555/0x3333), final pc, every integer register, UART bytes, DRAM windows "
                "(incl. first word, last word below the reset stack pointer); programs: XLEN-dependent arithmetic, loop with backward "
                "jump, all load/store widths from a data segment, exit-fail, text away from the DRAM base, generated straight-line code",
        "samples": [{"arch": c["arch"], "program": c["name"], "emulator": impl_r[i]} for i, c in enumerate(cases) if c["name"] in ("xlen", "loop")],
    }


# ------------------------------------------------------------------------------------ run
def canon_nan(r):
    """floating point is executed only: every NaN bit pattern counts as the same value (the host's
    default NaN has the sign bit set, Lean's toBits canonicalises it)"""
    if " f=- " in r or " f=" not in r:
        return r

    def fix(m):
        v = int(m.group(2), 16)
        return m.group(1) + ("nan" if (v >> 52) & 0x7ff == 0x7ff and v & ((1 << 52) - 1) else m.group(2))
    return re.sub(r"(\d+:)([0-9a-f]{16})\b", fix, r)


def describe(c, impl, spec, info):
    return "%s %s (class %s): emulator gives [%s]%s, ISA reference gives [%s]; input: %s" % (
        c["arch"], c["mn"], c["cls"], impl, (" (decoded as %s)" % info) if info else "", spec, c["line"])


def run(ctx):
    h = ctx.build_harness("c20")
    ctx.prove(required=REQUIRED)
    m = ctx.build_model("c20")
    g = Gen(ctx)
    # corpus first
    import os, json
    cdir = os.path.join(os.path.dirname(os.path.dirname(os.path.abspath(__file__))), "corpus", "C20")
    if os.path.isdir(cdir):
        for fn in sorted(os.listdir(cdir)):
            for ln in open(os.path.join(cdir, fn)):
                ln = ln.strip()
                if ln and not ln.startswith("#"):
                    f = [x.strip() for x in ln.split("|")]
                    g.cases.append({"line": f[0], "arch": f[0].split()[0], "mn": f[1], "cls": f[2], "ref": f[3] if len(f) > 3 and f[3] else None})
    if ctx.replay:
        # ./check C20 --replay replays/C20/<file>.json : only the recorded case
        rp = json.load(open(ctx.replay)).get("replay", {})
        if not rp["line"].startswith("vm "):
            g.cases = [{"line": rp["line"], "arch": rp["line"].split()[0], "mn": rp["mnemonic"], "cls": rp["class"], "ref": None}]
    else:
        gen_rv(g, 64)
        gen_rv(g, 32)
        gen_la(g)
    cases = g.cases
    ops = [c["line"] for c in cases]
    text = "\n".join(ops) + "\n"
    _, out, err = ctx.run_bin(h, input_text=text)
    impl = out.splitlines()
    if m is None:
        return ctx.finish("exploration", {"evaluations": 0, "distinct_nontrivial": 0, "rule": "model driver did not build",
                                          "samples": [], "distribution": {}})
    _, mo, _ = ctx.run_bin(m, input_text=text)
    spec = mo.splitlines()
    if len(impl) != len(ops) or len(spec) != len(ops):
        ctx.proof["broken"].append({"theorem": "C20 streams", "why": "ops=%d impl=%d spec=%d lines" % (len(ops), len(impl), len(spec))})
    impl_r, spec_r = [], []
    unsupported, dist, refdiff, nontrivial, decoded_as = {}, {}, 0, set(), {}
    compared = 0
    for i, c in enumerate(cases[:min(len(impl), len(spec))]):
        ir, _, iinfo = impl[i].partition(" | ")
        sr, _, smn = spec[i].partition(" | ")
        iinfo = iinfo.strip()
        ir, sr = canon_nan(ir), canon_nan(sr)
        impl_r.append(ir)
        spec_r.append(sr)
        key = "%s:%s:%s" % (c["arch"], c["mn"], c["cls"])
        # --- the reference must be self-consistent: Lean decoder vs generator's encoder, Lean step vs python reference
        if sr in ("nospec", "bad-op") or smn.strip() != c["mn"]:
            ctx.proof["broken"].append({"theorem": "C20 specification decoder", "why": "line %r: Lean decodes %r / %r, generator encoded %s" % (c["line"], sr, smn, c["mn"])})
            impl_r[-1] = spec_r[-1] = "skipped"
            continue
        if c["ref"] is not None and c["ref"] != sr:
            refdiff += 1
            if refdiff <= 10:
                ctx.proof["broken"].append({"theorem": "C20 specification vs independent python reference",
                                            "why": "line %r: Lean %r python %r" % (c["line"], sr, c["ref"])})
            impl_r[-1] = spec_r[-1] = "skipped"
            continue
        if ir.startswith("bad-op") or ir.startswith("PANIC"):
            ctx.proof["broken"].append({"theorem": "C20 harness", "why": "line %r -> %r" % (c["line"], impl[i])})
            impl_r[-1] = spec_r[-1] = "skipped"
            continue
        if ir == "unsupported":
            unsupported.setdefault(c["arch"], set()).add(c["mn"])
            impl_r[-1] = spec_r[-1] = "unsupported"
            continue
        compared += 1
        nontrivial.add(key)
        m2 = iinfo.split()[0].lower().replace("_", ".") if iinfo else ""
        if m2 and m2 != c["mn"]:
            decoded_as.setdefault("%s:%s" % (c["arch"], c["mn"]), set()).add(m2)
        if ir != sr:
            if sr == "misaligned" and c.get("ref_notrap") is not None and ir != c["ref_notrap"]:
                # the recorded finding is "no instruction-address-misaligned exception": the emulator then has to
                # behave exactly like the reference without that exception; anything else is a different defect
                key += ":state-differs-beyond-missing-exception"
            dist[key] = dist.get(key, 0) + 1
            ctx.violation(key, describe(c, ir, sr, iinfo if m2 != c["mn"] else ""),
                          {"line": c["line"], "mnemonic": c["mn"], "class": c["cls"], "emulator": ir, "reference": sr,
                           "replay": "echo '%s' | .build/bin/c20   (and lean/.lake/build/bin/wamodel_c20)" % c["line"]})
    ctx.diff_lines(ops[:len(impl_r)], impl_r, spec_r)
    per_arch = {}
    for c in cases:
        per_arch[c["arch"]] = per_arch.get(c["arch"], 0) + 1
    step = max(1, len(cases) // 12)
    samples = [{"op": cases[i]["line"], "mnemonic": cases[i]["mn"], "class": cases[i]["cls"], "emulator": impl_r[i], "reference": spec_r[i]}
               for i in range(0, min(len(cases), len(impl_r)), step)][:12]
    cov = {
        "evaluations": len(cases),
        "compared_steps": compared,
        "distinct_nontrivial": len(nontrivial),
        "rule": "one case = one (arch, instruction word, register/pc/memory state) executed by CPU.StepRun and by the Lean specification; "
                "grid per mnemonic: boundary values (0, +-1, 2^31 and 2^63 neighbourhoods, all-ones, alternating bits, shift amounts "
                "around 32/64) in rs1 x rs2, rd = x0 / rd = rs1 / rd = rs2 / rs1 = rs2 / x0 as source with a dirty x0, immediates at "
                "field boundaries and one-bit walks through the B/J/offs16/21/26 fields, shift amounts 0..xlen-1, loads/stores at "
                "every width, misalignment and sign bit, unmapped and device-end addresses; distinct_nontrivial counts distinct "
                "(arch, mnemonic, operand class) keys actually compared (the emulator answered and both references agree)",
        "samples": samples,
        "distribution": {"cases_per_arch": per_arch, "differences_per_key": dict(sorted(dist.items())),
                         "differing_cases": sum(dist.values())},
        "unsupported_by_emulator": {a: sorted(v) for a, v in sorted(unsupported.items())},
        "decoded_differently_by_emulator": {k: sorted(v) for k, v in sorted(decoded_as.items())},
        "reference_disagreements": refdiff,
    }
    attribution, unattributed = {}, 0
    for k2, cnt in dist.items():
        hit = [kf["key"] for kf in ctx.known if kf["key"] == k2 or (kf.get("key_regex") and re.fullmatch(kf["key_regex"], k2))]
        if hit:
            attribution[hit[0]] = attribution.get(hit[0], 0) + cnt
        else:
            unattributed += cnt
    cov["differences_attribution"] = {
        "differing_cases": sum(dist.values()), "per_recorded_finding": attribution, "unattributed": unattributed,
        "note": "every emulator/reference difference is passed to ctx.violation under its (arch, mnemonic, operand class) key; a key not "
                "matched by a recorded finding fails the check, so with violations=0 all differing cases are attributed. For the "
                "missing instruction-address-misaligned exception each attributed case is additionally required to equal the "
                "reference outcome WITHOUT that exception (pc = misaligned target, link register written), else it gets its own key."}
    run_vm(ctx, h, m, cov)
    cov["evaluations"] += cov.get("vm_stream", {}).get("programs", 0)
    return ctx.finish("exploration", cov,
                      assumptions=["misaligned data accesses are performed (permitted by both manuals; the emulator performs them)",
                                   "RISC-V: a taken branch/jump to a target that is not 4-byte aligned raises instruction-address-misaligned (no C extension)",
                                   "x0/r0 (and f0 for the comparison of what the next instruction reads) are reported as the next execInst reads them",
                                   "instructions the emulator reports as unsupported/TODO are outside 'supported instruction'"],
                      trusted_base=["Lean specification WaVerif/Model/C20RV.lean, C20LA.lean (sanity theorems in Props/C20.lean)",
                                    "independent python reference lib/c20isa.py (must agree with the Lean specification on every line)",
                                    "harness/c20 canonicalisation of the emulator state"])
