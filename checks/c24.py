"""C24 — Build-tag expressions evaluate with Boolean semantics."""
import codecs, glob, json, os, unicodedata
from lib import vlib

PROP = "C24"
META = {
    "category": "proof",
    "text": "Lean theorems over a model of internal/loader/buildtag (Expr/Eval/String, lexer, recursive-descent parser with its two loops, "
            "#wa:build line splitting) and of the loader's isSkipedAstFile: Eval is the Boolean homomorphism; the parser accepts exactly the "
            "reference grammar (! > && > ||, left-associative) and returns that grammar's tree (soundness and completeness, so the fuel never runs out); "
            "every accepted token stream is non-empty, balanced, free of bad characters and of '!!'; printing an expression and parsing it again "
            "gives an expression with the same value under every tag assignment (for the printer variant found in the code: under the guard "
            "'no negated negation' while NotExpr.String does not parenthesise it, unconditionally once it does; the failing case is proved as a witness); "
            "a file is included iff it has no constraint or its first constraint evaluates to true on {target os, target arch} + tags. "
            "The model is hand-written and tied to the Go code by a correspondence run; the property's own oracle (independent Python parser/evaluator, "
            "and Go's go/build/constraint as a second reference) is run on the real code.",
    "note": "Trusted: Lean kernel; hand-written model tied differentially (ASCII lines only: Go's unicode.IsLetter/IsDigit tables are not modelled, "
            "non-ASCII lines go through the oracle on the real code only); the Wa parser's comment extraction (f.Doc / f.Comments) is taken from the "
            "real parser, not modelled; one model bit (does the printer parenthesise '!(!x)') is regenerated from the code's behaviour on every run. "
            "Observation (recorded, not a violation): the loader's arch tag is the constant 'wasm' whatever Config.TargetArch says.",
    "technique": "Lean 4 proof over hand-written model (reference grammar, soundness+completeness of the parser) + differential correspondence + independent oracle",
}
REQUIRED = ["eval_bool_semantics", "parse_sound", "parse_complete", "parse_rejects_empty", "parseLine_rejects_empty", "parse_rejects_bad_char",
            "lex_single_amp", "parse_rejects_double_neg", "parse_accepts_balanced", "parse_toString", "parse_toString_any", "parse_toString_line",
            "parse_toString_double_not_witness", "parseToString_statement_false", "parseToString_statement_repaired",
            "parseToString_statement_iff", "skip_iff", "firstConstraint_spec", "tagSet_iff"]

ALPHA = ["a", "b", "c", "d"]
KEY_NOTNOT = "string:not-of-not-printed-unparenthesised"


def hx(s):
    b = s.encode("utf-8", "surrogatepass") if isinstance(s, str) else s
    return b.hex() or "-"


# ------------------------------------------------------------------ reference (python) ----
def is_tag_char(c):
    return c in "_." or unicodedata.category(c) in ("Lu", "Ll", "Lt", "Lm", "Lo", "Nd")


def ref_split(line):
    """splitWaBuild, written from its documentation: one line (a single trailing newline allowed),
    '#wa:build' followed by white space or nothing; returns the trimmed expression text or None."""
    if line.endswith("\n"):
        line = line[:-1]
    if "\n" in line or not line.startswith("#wa:build"):
        return None
    rest = line[len("#wa:build"):]
    if rest != "" and not rest[0].isspace():
        return None
    return rest.strip(" \t\n\x0b\x0c\r\x85\xa0\u1680\u2000\u2001\u2002\u2003\u2004\u2005\u2006\u2007\u2008\u2009\u200a\u2028\u2029\u202f\u205f\u3000")


class Reject(Exception):
    pass


def ref_tokens(text):
    toks, i = [], 0
    while i < len(text):
        c = text[i]
        if c in " \t":
            i += 1
        elif c in "()!":
            toks.append(c); i += 1
        elif c in "&|":
            if text[i:i + 2] != c + c:
                raise Reject("single " + c)
            toks.append(c + c); i += 2
        elif is_tag_char(c):
            j = i
            while j < len(text) and is_tag_char(text[j]):
                j += 1
            toks.append(("t", text[i:j])); i = j
        else:
            raise Reject("bad char")
    return toks


def ref_parse(text):
    """reference grammar:  or := and ('||' and)* ; and := not ('&&' not)* ; not := '!' atom | atom ;
    atom := tag | '(' or ')'   — binary operators associate to the left."""
    toks = ref_tokens(text)
    pos = [0]

    def peek():
        return toks[pos[0]] if pos[0] < len(toks) else None

    def atom():
        t = peek()
        if t == "(":
            pos[0] += 1
            x = por()
            if peek() != ")":
                raise Reject("paren")
            pos[0] += 1
            return x
        if isinstance(t, tuple):
            pos[0] += 1
            return t
        raise Reject("atom")

    def pnot():
        if peek() == "!":
            pos[0] += 1
            return ("!", atom())
        return atom()

    def pand():
        x = pnot()
        while peek() == "&&":
            pos[0] += 1
            x = ("&", x, pnot())
        return x

    def por():
        x = pand()
        while peek() == "||":
            pos[0] += 1
            x = ("|", x, pand())
        return x
    x = por()
    if pos[0] != len(toks):
        raise Reject("trailing")
    return x


def ev(x, ok):
    if x[0] == "t":
        return ok(x[1])
    if x[0] == "!":
        return not ev(x[1], ok)
    if x[0] == "&":
        return ev(x[1], ok) and ev(x[2], ok)
    return ev(x[1], ok) or ev(x[2], ok)


def tt(x):
    return "".join("1" if ev(x, lambda t, m=m: t in ALPHA and (m >> ALPHA.index(t)) & 1 == 1) else "0" for m in range(16))


def sx(x):
    if x[0] == "t":
        return "(t %s)" % x[1]
    if x[0] == "!":
        return "(not %s)" % sx(x[1])
    return "(%s %s %s)" % ("and" if x[0] == "&" else "or", sx(x[1]), sx(x[2]))


def has_notnot(x):
    if x[0] == "t":
        return False
    if x[0] == "!":
        return x[1][0] == "!" or has_notnot(x[1])
    return has_notnot(x[1]) or has_notnot(x[2])


def size(x):
    return 1 if x[0] == "t" else 1 + sum(size(y) for y in x[1:])


# ------------------------------------------------------------------ generators ----
def gen_tree(rng, depth, tags, notnot):
    if depth == 0 or rng.random() < 0.25:
        return ("t", rng.choice(tags))
    k = rng.random()
    if k < 0.25:
        x = gen_tree(rng, depth - 1, tags, notnot)
        if x[0] == "!" and not notnot:
            return x
        return ("!", x)
    return (rng.choice("&|"), gen_tree(rng, depth - 1, tags, notnot), gen_tree(rng, depth - 1, tags, notnot))


def render(rng, x, ctx=0, messy=True):
    """text of the tree under the usual precedence (! 3, && 2, || 1), with the parentheses that precedence
    and left-associativity require, plus random redundant ones and random spacing."""
    sp = (lambda: rng.choice(["", " ", " ", "  ", "\t"])) if messy else (lambda: " ")
    if x[0] == "t":
        s, lvl = x[1], 4
    elif x[0] == "!":
        s, lvl = "!" + (sp() if messy and rng.random() < 0.2 else "") + render(rng, x[1], 4, messy), 3
    else:
        lvl = 2 if x[0] == "&" else 1
        # left operand may be the same operator unparenthesised (left assoc); the right one needs parentheses
        s = render(rng, x[1], lvl, messy) + sp() + x[0] * 2 + sp() + render(rng, x[2], lvl + 1, messy)
    if lvl < ctx or (lvl == 3 and ctx == 4) or (messy and rng.random() < 0.15):
        s = "(" + (sp() if messy else "") + s + (sp() if messy else "") + ")"
    return s


MUT = "()!&| \tab~#"


def mutate(rng, s):
    k = rng.randrange(6)
    i = rng.randrange(len(s) + 1)
    if k == 0 and s:
        i = min(i, len(s) - 1); return s[:i] + s[i + 1:]
    if k == 1:
        return s[:i] + rng.choice(MUT) + s[i:]
    if k == 2 and s:
        i = min(i, len(s) - 1); return s[:i] + rng.choice(MUT) + s[i + 1:]
    if k == 3:
        return s[:i]
    if k == 4:
        return s[:i] + rng.choice(["!!", "&", "|", "(", ")", "()", "&&&", "|| ||", "! !", "a b"]) + s[i:]
    return s + rng.choice([" &&", " ||", " !", "(", ")", " &", " a"])


def gen_lines(ctx):
    rng = ctx.rng
    quick = ctx.tier == "quick"
    lines = []      # (line, kind, tree or None)
    tagsets = [ALPHA] * 6 + [ALPHA + ["linux", "go1.2", "x_y", "386", "A9", "_", "."]]
    n = 1500 if quick else 40000
    for i in range(n):
        t = gen_tree(rng, rng.choice([1, 2, 3, 3, 4, 5]), rng.choice(tagsets), notnot=(rng.random() < 0.12))
        text = render(rng, t, 0, messy=rng.random() < 0.8)
        pre = rng.choice(["#wa:build "] * 8 + ["#wa:build\t", "#wa:build  \t "])
        post = rng.choice([""] * 8 + ["\n", " ", "\t", " \n", "\r"])
        lines.append((pre + text + post, "valid", t))
        if i % 3 == 0:
            lines.append(("#wa:build " + mutate(rng, text), "mutant", None))
        if i % 11 == 0:
            lines.append(("#wa:build " + mutate(rng, mutate(rng, text)), "mutant", None))
    # prefix / line-shape stream
    for body in ["a", "a && b", "", "!a", "(a)"]:
        for pre in ["#wa:build", "#wa:build ", "#wa:build\t", "#wa:buildx", "#wa:build:", " #wa:build ", "//wa:build ", "#wa:build\n", "#wa:build\x0b",
                    "#wa:build\x0c", "#wa:build\r", "#wa:Build ", "# wa:build ", "#wa:build  ", "#wa:buil", "", "#"]:
            for post in ["", "\n", "\n\n", " \n", "\nx", "\r\n", "\t"]:
                lines.append((pre + body + post, "shape", None))
    # every string over a small alphabet up to length 4 (thorough: 5): the lexer/parser on all short inputs
    alpha = ["a", "!", "(", ")", "&&", "||", "&", " "]
    import itertools
    for L in range(0, 5 if quick else 6):
        for combo in itertools.product(alpha, repeat=L):
            lines.append(("#wa:build " + "".join(combo), "short", None))
    return lines


UNICODE_LINES = ["#wa:build \u03b1x", "#wa:build \u03b1x\u00b2", "#wa:build \u00e9 && \u4e2d", "#wa:build a\u00a0", "#wa:build\u00a0a", "#wa:build a \u20ac",
                 "#wa:build \u0663", "#wa:build a\u2003&& b", "#wa:build !(!\u00e9)", "#wa:build a\u3000", "#wa:build\u3000a || \u00e9", "#wa:build a\u0085"]


def extract_vocab():
    """words the code around build constraints treats specially, re-extracted from /repo's sources on every run"""
    import subprocess, sys
    p = subprocess.run([sys.executable, os.path.join(vlib.VERIF, "extract", "c24_vocab.py"), vlib.REPO],
                       stdout=subprocess.PIPE, stderr=subprocess.PIPE, text=True, timeout=120)
    try:
        words = json.loads(p.stdout)
    except ValueError:
        words = []
    if p.returncode != 0 or len(words) < 10:
        raise vlib.InfraError("extract/c24_vocab.py failed: %s" % p.stderr[-500:])
    return [w for w in words if all(is_tag_char(c) for c in w)]


TARGETS = ["js", "wasm4", "arduino", "linux", "windows", "unknown", "wasm", "loong64", "riscv32", "x64", "clang", "wasi"]


def pick_words(ctx, vocab):
    """quick: the most specific sources first (directive constants, astutil, os/arch tables) + a random sample of the rest"""
    if ctx.tier != "quick":
        return list(vocab)
    head, rest = vocab[:110], vocab[110:]
    return head + ctx.rng.sample(rest, min(30, len(rest)))


def word_lines(w, os_):
    """constraints that use the word w as an ORDINARY tag, true / false / malformed"""
    return [w, "%s || %s" % (w, os_), "%s || !%s" % (w, os_), "%s && %s" % (w, os_), "%s || %s" % (os_, w), "!%s" % w,
            "!%s && %s" % (w, os_), "(%s)" % w, "%s && (" % w, "%s ||" % w, "%s %s" % (w, os_)]


def gen_skip(ctx, vocab):
    rng = ctx.rng
    out = []
    n = 250 if ctx.tier == "quick" else 5000
    oses = ["-", "js", "wasi", "linux", "a", "wasm4"]
    arches = ["-", "wasm", "loong64", "riscv64", "b"]
    mos = ["-", "-", "wasi", "c", "js"]
    avocab = [w for w in vocab if w.isascii()]
    for i in range(n):
        special = rng.sample(avocab, 3) + ["ignore"] if i % 2 else []
        pool = ALPHA + ["js", "wasi", "wasm", "loong64", "fmt_tag", "linux"] + special
        tags = [t for t in ALPHA + ["fmt_tag", "wasm", "js"] + special if rng.random() < 0.3]
        t1 = gen_tree(rng, rng.choice([0, 1, 2, 3]), pool, notnot=rng.random() < 0.05)
        e1 = render(rng, t1, 0, messy=rng.random() < 0.5)
        t2 = gen_tree(rng, 1, ALPHA, False)
        e2 = render(rng, t2, 0, False)
        k = i % 8
        if k == 0:
            src, first = "// Copyright\n\n#wa:build %s\n\nfunc F() {}\n" % e1, e1
        elif k == 1:
            src, first = "#wa:build %s\nfunc f() {}\n" % e1, e1
        elif k == 2:
            src, first = "// only a comment\nfunc f() {}\n", None
        elif k == 3:
            src, first = "#wa:build %s\n\n#wa:build %s\nfunc f() {}\n" % (e1, e2), e1
        elif k == 4:
            src, first = "func f() {}\n\n#wa:build %s\n" % e1, e1
        elif k == 5:
            bad = mutate(rng, e1)
            src, first = "// c\n#wa:build %s\nfunc f() {}\n" % bad, bad
        elif k == 6:
            src, first = "// #wa:build %s\n// doc\nfunc f() {}\n" % e1, None
        else:
            src, first = "// doc comment\n#wa:build %s\nfunc f() {}\n// trailing\n#wa:build %s\n" % (e1, e2), e1
        out.append(("skip %s %s %s %s %s" % (rng.choice(oses), rng.choice(arches), rng.choice(mos), ",".join(tags) or "-", hx(src)), first, tags))
    # every special word as an ordinary tag through the loader's file filter: alone, with the target os, negated,
    # malformed; with and without the word among the configured tags; as doc comment and as a detached comment
    for w in pick_words(ctx, vocab):
        for e in word_lines(w, "js"):
            for tags in ([], [w]):
                for src in ("// generated\n\n#wa:build %s\n\nfunc F() {}\n" % e, "#wa:build %s\nfunc F() {}\n" % e):
                    out.append(("skip js - - %s %s" % (",".join(tags) or "-", hx(src)), e, tags))
    return out


def gen_loads(ctx, vocab):
    """whole file-selection path (loader.LoadProgram on a generated module): (op, lines, target, tags)"""
    rng = ctx.rng
    avocab = [w for w in vocab if w.isascii()]
    words = pick_words(ctx, avocab)
    loads = []
    targets = ["js", "wasm4", "-"]
    # the special words, a dozen per module, under several (target, tags) configurations
    chunks = [words[i:i + 6] for i in range(0, len(words), 6)]
    if ctx.tier == "quick":
        chunks = chunks[:4] + rng.sample(chunks[4:], min(4, max(0, len(chunks) - 4)))
    for ch in chunks:
        for tgt in targets[:2] if ctx.tier == "quick" else targets:
            os_ = "js" if tgt == "-" else tgt
            lines = []
            for w in ch:
                lines += ["#wa:build " + e for e in word_lines(w, os_)[:7]]
            lines.append("// no constraint")
            for tags in ([], [ch[0]], ch[:3] + ["extra"]):
                loads.append((lines, tgt, tags))
    # random formulas
    for _ in range(6 if ctx.tier == "quick" else 150):
        pool = ALPHA + ["js", "wasm4", "wasm", "ignore"] + rng.sample(avocab, 3)
        lines = ["#wa:build " + render(rng, gen_tree(rng, rng.choice([1, 2, 3]), pool, False), 0, messy=rng.random() < 0.5) for _ in range(10)]
        loads.append((lines, rng.choice(targets), [t for t in pool if rng.random() < 0.3]))
    # malformed: exactly one bad file per module, whatever its first word is
    bads = []
    for w in ["ignore", "js"] + rng.sample(avocab, 4 if ctx.tier == "quick" else 40):
        bads += ["%s && (" % w, "%s ||" % w, "%s )" % w, "%s & js" % w, "!!%s" % w, "%s js" % w]
    if ctx.tier == "quick":
        bads = bads[:12] + rng.sample(bads[12:], 6)
    for b in bads:
        loads.append((["#wa:build js || a", "#wa:build " + b, "#wa:build !js"], rng.choice(targets[:2]), rng.choice([[], ["ignore"], ["a"]])))
    return [("load %s %s %s" % (t, ",".join(tags) or "-", hx("\x1e".join(lines))), lines, t, tags) for lines, t, tags in loads]


# ------------------------------------------------------------------ the check ----
def run(ctx):
    harness = ctx.build_harness("c24")
    # --- regenerate the one model bit from the code's behaviour
    _, o, _ = ctx.run_bin(harness, input_text="p %s\n" % hx("#wa:build !(!a)"))
    f = [x.strip() for x in o.strip().split("|")]
    printed = bytes.fromhex(f[1]).decode() if len(f) > 1 and f[0].startswith("ok") else None
    if printed not in ("!!a", "!(!a)"):
        raise vlib.InfraError("cannot classify the printer variant: Parse('#wa:build !(!a)') -> %r" % o)
    wrap = printed == "!(!a)"
    gen = os.path.join(vlib.LEAN, "WaVerif", "Gen", "C24Variant.lean")
    content = ("/-! REGENERATED by checks/c24.py on every run from the behaviour of the real code\n"
               "(`String()` of `not(not(tag \"a\"))`): does `NotExpr.String` parenthesise a negated negation? -/\n"
               "namespace WaVerif.C24.Gen\ndef wrapNot : Bool := %s\nend WaVerif.C24.Gen\n" % ("true" if wrap else "false"))
    with vlib.Lock("gen.c24"):
        if not os.path.exists(gen) or open(gen).read() != content:
            if os.path.exists(gen):
                os.remove(gen)
            with open(gen, "w") as fh:
                fh.write(content)
    ctx.prove(required=REQUIRED)
    model = ctx.build_model("c24")

    # --- inputs
    lines = []
    for fn in sorted(glob.glob(os.path.join(vlib.VERIF, "corpus", "C24", "*.lines"))):
        for l in open(fn, encoding="utf-8"):
            l = l.rstrip("\n")
            if l and not l.startswith("##"):
                lines.append((codecs.decode(l, "unicode_escape"), "corpus", None))
    if ctx.replay:
        rp = json.load(open(ctx.replay))["replay"]
        lines = [(rp["line"], "replay", None)] if "line" in rp else []
        skips = [(rp["op"], rp.get("first"), rp.get("tags", []))] if rp.get("op", "").startswith("skip") else []
        loads = [(rp["op"], rp["lines"], rp["target"], rp["tags"])] if rp.get("op", "").startswith("load") else []
    else:
        lines += gen_lines(ctx)
        vocab = extract_vocab()
        skips = gen_skip(ctx, vocab)
        loads = gen_loads(ctx, vocab)
    seen = set()
    lines = [x for x in lines if not (x[0] in seen or seen.add(x[0]))]
    ascii_lines = [x for x in lines if all(ord(c) < 128 for c in x[0])]
    uni_lines = [] if ctx.replay else [(l, "unicode", None) for l in UNICODE_LINES]

    ops = []
    for l, kind, t in ascii_lines + uni_lines:
        ops.append("p " + hx(l)); ops.append("gc " + hx(l)); ops.append("iswa " + hx(l))
    evops = []
    for l, kind, t in ascii_lines[:: (7 if ctx.tier == "quick" else 3)]:
        tags = [x for x in ALPHA + ["linux", "zz"] if ctx.rng.random() < 0.4]
        evops.append(("ev %s %s" % (hx(l), ",".join(tags) or "-"), l, tags))
    allops = ops + [e[0] for e in evops] + [s[0] for s in skips]
    if allops:
        _, out, err = ctx.run_bin(harness, input_text="\n".join(allops) + "\n")
    else:
        out, err = "", ""
    impl = out.splitlines()
    if len(impl) != len(allops):
        raise vlib.InfraError("harness produced %d lines for %d ops: %s" % (len(impl), len(allops), err[-500:]))

    dist, nontrivial, samples = {}, set(), []

    def bump(k):
        dist[k] = dist.get(k, 0) + 1

    # ---------------- oracle on the real code ----------------
    allines = ascii_lines + uni_lines
    for i, (l, kind, tree) in enumerate(allines):
        rp, rg, ri = impl[3 * i], impl[3 * i + 1], impl[3 * i + 2]
        rep = {"line": l, "impl": rp}
        if rp.startswith("PANIC") or rg.startswith("PANIC") or ri.startswith("PANIC"):
            ctx.violation("panic:" + kind, "Parse(%r) panics: %s" % (l, rp), rep); continue
        text = ref_split(l)
        if (text is not None) != (ri == "true"):
            ctx.violation("iswabuild:wrong", "IsWaBuild(%r) = %s, a #wa:build line is %s" % (l, ri, text is not None), rep)
        try:
            want = ref_parse(text) if text is not None else None
        except Reject as e:
            want = e
        if text is None:
            bump("notconstraint")
            if rp != "notconstraint":
                ctx.violation("parse:accepts-non-constraint-line", "Parse(%r) -> %s, want 'not a build constraint'" % (l, rp), rep)
            continue
        if isinstance(want, Reject):
            bump("malformed:" + str(want))
            nontrivial.add(("rej", str(want), rp, len(ref_tokens_safe(text))))
            if rp.startswith("ok"):
                ctx.violation("parse:accepts-malformed:" + str(want), "Parse(%r) accepts a malformed constraint (%s): %s" % (l, want, rp), rep)
            if rg.startswith("ok"):
                ctx.notes.append("go/build/constraint accepts %r which the reference grammar rejects" % l)
            continue
        # well-formed line
        g = [x.strip() for x in rp.split("|")]
        if not rp.startswith("ok"):
            ctx.violation("parse:rejects-wellformed", "Parse(%r) -> %s, but the line is the formula %s" % (l, rp, sx(want)), rep); continue
        bump("wellformed")
        if size(want) > 1:
            nontrivial.add(sx(want))
        if g[0] != "ok " + sx(want):
            ctx.violation("parse:wrong-tree", "Parse(%r) -> %s, the formula written is %s" % (l, g[0], sx(want)), rep)
        if g[2] != tt(want) or (tree is not None and g[2] != tt(tree)):
            ctx.violation("eval:wrong-truth-table", "Parse(%r) evaluates to %s over a,b,c,d; the formula written has %s" % (l, g[2], tt(want)), rep)
        if rg != "ok %s | %s" % (sx(want), tt(want)):
            if all(ord(c) < 128 for c in l):
                ctx.violation("second-reference:go/build/constraint-differs", "go/build/constraint on %r -> %s, wa -> %s" % (l, rg, g[0]), rep)
        # round trip of the printed form
        if g[3].startswith("re err"):
            if has_notnot(want) and not wrap:
                ctx.violation(KEY_NOTNOT, "Parse(%r).String() = %r, which Parse rejects (%s)" % (l, bytes.fromhex(g[1]).decode(), g[3][3:]), rep)
            else:
                ctx.violation("roundtrip:reparse-fails", "Parse(%r).String() = %r, which Parse rejects (%s)" % (l, bytes.fromhex(g[1]).decode(), g[3][3:]), rep)
        elif g[4] != g[2]:
            ctx.violation("roundtrip:not-equivalent", "Parse(%r).String() = %r re-parses to %s with truth table %s, original %s" % (
                l, bytes.fromhex(g[1]).decode(), g[3], g[4], g[2]), rep)
        else:
            bump("roundtrip-ok")
        if len(samples) < 10 and ctx.rng.random() < 0.01:
            samples.append({"line": l, "impl": rp})
    base = 3 * len(allines)
    for j, (op, l, tags) in enumerate(evops):
        r = impl[base + j]
        text = ref_split(l)
        try:
            want = ref_parse(text) if text is not None else None
        except Reject:
            want = None
        if want is not None:
            bump("eval")
            w = "true" if ev(want, lambda t: t in tags) else "false"
            if r != w:
                ctx.violation("eval:wrong-value", "Eval of %r with tags %s -> %s, the formula gives %s" % (l, tags, r, w), {"line": l, "tags": tags, "impl": r})
    base += len(evops)
    skipm_ops, skip_impl = [], []
    arch_ignored = 0
    for j, (op, first, tags) in enumerate(skips):
        r = impl[base + j]
        g = [x.strip() for x in r.split("|")]
        rep = {"op": op, "first": first, "tags": tags, "impl": r}
        if r.startswith("PANIC") or len(g) != 4 or g[0] == "parse-failed":
            ctx.violation("skip:harness-" + g[0].split()[0], "%s -> %s" % (op, r), rep); continue
        os_, arch = g[1].split()[0][3:], g[1].split()[1][5:]
        cfg_arch = op.split()[2]
        if cfg_arch not in ("-", arch):
            arch_ignored += 1
        doc = [] if g[2] == "doc=-" else g[2][4:].split(",")
        com = [] if g[3] == "comments=-" else g[3][9:].split(",")
        texts = [bytes.fromhex(h).decode() for h in doc + com]
        if first is not None and ("#wa:build " + first) not in texts:
            ctx.notes.append("generator: constraint %r not among the comments the Wa parser returned" % first)
        # the deciding comment: a constraint in the doc group wins, else the first one in the file
        decisive = next((t for t in texts if ref_split(t) is not None), None)
        want = None
        if decisive is None:
            want = "included"
        else:
            try:
                tr = ref_parse(ref_split(decisive))
                tagset = set(tags) | {os_, arch}
                want = "included" if ev(tr, lambda t: t in tagset) else "skiped"
            except Reject:
                want = "err"
        rep["decisive"] = decisive
        bump("skip:" + want)
        nontrivial.add(("skip", want, decisive is not None and len(decisive) > 13, bool(doc) and decisive in [bytes.fromhex(h).decode() for h in doc]))
        if g[0].split()[0] != want:
            ctx.violation("skip:wrong-decision", "%s: loader says %s; constraint %r under tags %s + {%s,%s} means %s" % (
                op[:40], g[0], decisive, tags, os_, arch, want), rep)
        if all(t.isascii() for t in texts + list(tags)):
            skipm_ops.append("skipm %s %s %s %s %s" % (os_ or "-", arch or "-", ",".join(tags) or "-", ",".join(doc) or "-", ",".join(com) or "-"))
            skip_impl.append(g[0])

    # ---------------- the whole file-selection path: loader.LoadProgram on generated modules ----------------
    if loads:
        import concurrent.futures as cf
        nproc = 6
        chunks = [loads[k::nproc] for k in range(nproc)]
        with cf.ThreadPoolExecutor(nproc) as ex:
            outs = list(ex.map(lambda ch: ctx.run_bin(harness, (), "\n".join(x[0] for x in ch) + "\n", 1800)[1].splitlines() if ch else [], chunks))
        for ch, ol in zip(chunks, outs):
            if len(ol) != len(ch):
                raise vlib.InfraError("harness produced %d lines for %d load ops" % (len(ol), len(ch)))
            for (op, llines, tgt, tags), r in zip(ch, ol):
                os_ = "js" if tgt in ("-", "") else tgt
                tagset = set(tags) | {os_, "wasm"}
                rep = {"op": op, "lines": llines, "target": tgt, "tags": tags, "impl": r}
                want_files, bad = ["base"], None
                for k, l in enumerate(llines):
                    text = ref_split(l)
                    if text is None:
                        want_files.append("f%d" % k); continue
                    try:
                        if ev(ref_parse(text), lambda t: t in tagset):
                            want_files.append("f%d" % k)
                    except Reject:
                        bad = bad or l
                want = "err" if bad else "ok " + ",".join(sorted(want_files))
                bump("load:" + ("err" if bad else "ok"))
                nontrivial.add(("load", tgt, bool(tags), bad is not None, len(want_files)))
                allops.append(op)
                if bad:
                    if not r.startswith("err "):
                        ctx.violation("load:accepts-malformed-constraint", "LoadProgram(target=%s tags=%s) with a file carrying %r -> %s; want a '#wa:build' parse error" % (
                            tgt, tags, bad, r), rep)
                elif r != want:
                    got = set(r[3:].split(",")) if r.startswith("ok ") else set()
                    diff = sorted(set(want_files) ^ got, key=lambda n: (len(n), n))
                    which = ["%s %r" % (n, llines[int(n[1:])] if n != "base" else "") for n in diff[:4]]
                    ctx.violation("load:wrong-file-set", "LoadProgram(target=%s tags=%s): package files %s, the constraints mean %s; differing: %s" % (
                        tgt, tags, r, want, "; ".join(which)), rep)
                # the same decisions from the Lean model (one skipm per file)
                if r.startswith(("ok ", "err ")) and all(l.isascii() for l in llines) and all(t.isascii() for t in tags):
                    got = set(r[3:].split(",")) if r.startswith("ok ") else None
                    for k, l in enumerate(llines):
                        if got is None and l != bad:
                            continue
                        skipm_ops.append("skipm %s wasm %s - %s" % (os_, ",".join(tags) or "-", hx(l)))
                        skip_impl.append(r if got is None else ("included" if "f%d" % k in got else "skiped"))

    # ---------------- correspondence with the Lean model (ASCII lines) ----------------
    if model:
        mops = []
        mimpl = []
        for i, (l, kind, tree) in enumerate(ascii_lines):
            mops.append("p " + hx(l)); mimpl.append(impl[3 * i])
            mops.append("iswa " + hx(l)); mimpl.append(impl[3 * i + 2])
        b0 = 3 * len(allines)
        for j, (op, l, tags) in enumerate(evops):
            mops.append(op); mimpl.append(impl[b0 + j])
        mops += skipm_ops; mimpl += skip_impl
        _, mout, _ = ctx.run_bin(model, input_text="\n".join(mops) + "\n")
        for i, op, a, b in ctx.diff_lines(mops, mimpl, mout.splitlines())[:20]:
            arg = op.split()[1]
            try:
                shown = bytes.fromhex(arg).decode() if op[0] in "pie" else op
            except ValueError:
                shown = op
            ctx.proof["broken"].append({"theorem": "correspondence C24 model vs buildtag/expr.go + loader.isSkipedAstFile",
                                        "why": "op %s %r: impl=%r model=%r" % (op.split()[0], shown, a, b)})
    if arch_ignored:
        ctx.notes.append("observation: in %d configurations Config.TargetArch differed from the arch tag the loader used (constant %r)" % (arch_ignored, "wasm"))
    cov = {
        "evaluations": len(allops),
        "distinct_nontrivial": len(nontrivial),
        "rule": "lines: random formula trees (depth<=5) over tags a,b,c,d (+ a few others) rendered with required + random redundant parentheses and spacing; "
                "mutants of those (delete/insert/replace/truncate/append of ()!&| etc.); every string over {a ! ( ) && || & space} up to length 4 (thorough 5); "
                "line-shape stream (prefix/newline/whitespace variants); unicode lines (oracle only). Each line: Parse + String + re-Parse + truth tables over all 16 "
                "assignments, go/build/constraint, IsWaBuild; Eval under random tag sets; generated Wa files x (os, arch, manifest os, tags) through the loader. "
                "distinct_nontrivial = distinct accepted formulas with at least one operator + distinct (reject reason, error class, token count) + skip outcome classes.",
        "samples": samples,
        "distribution": dist,
        "printer_parenthesises_not_not": wrap,
        "special_words_extracted": 0 if ctx.replay else len(vocab),
        "loadprogram_modules": len(loads),
    }
    return ctx.finish("proof", cov,
                      assumptions=["ASCII tag alphabet in the model (Go's unicode.IsLetter/IsDigit not modelled)",
                                   "the texts of f.Doc / f.Comments come from the real Wa parser",
                                   "the target arch tag is what the loader's GetTargetArch returns (constant 'wasm')"],
                      trusted_base=["hand-written Lean model WaVerif/Model/C24.lean tied by the correspondence run (harness/c24, hook internal/loader)",
                                    "python reference tokenizer/parser/evaluator in checks/c24.py (oracle)", "Go's go/build/constraint (second reference)"])


def ref_tokens_safe(text):
    try:
        return ref_tokens(text)
    except Reject:
        return []
