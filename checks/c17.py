"""C17 — native instruction encoders agree with independent disassemblers."""
import os, re, subprocess, sys
from lib.vlib import boundary_ints, LEAN, VERIF

sys.path.insert(0, VERIF)
from extract import c17_tables

PROP = "C17"
META = {
    "category": "proof",
    "text": "RISC-V and LoongArch64: Lean theorems over (a) pack/unpack of every instruction format (every register number, every "
            "immediate incl. sign and alignment bits), (b) a hand-written reference table of the ISA encodings, (c) the repo's opcode "
            "tables REGENERATED on every run and proved row by row (`decide`) to carry the manual's encoding, (d) decode-of-encode for "
            "every reference entry and every operand the encoder model accepts, (e) pairwise distinguishability of the reference "
            "entries (the specification decoder is deterministic). The encoder model is tied to the real Encode by a sweep "
            "(mnemonic x registers x boundary immediates, RV32 and RV64); the property's own oracle runs on the real code: the "
            "specification decoder must recover mnemonic and operands from the produced word, and the repo's Decode must return the "
            "original instruction. ARM64: the encoder accepts nothing (panic TODO) - vacuous, shown by a harness line. "
            "x86-64: exploration level - real x64.Encode bytes (reg/reg, reg/imm, reg/mem and mem/reg with disp8/disp32, REX, SIB, "
            "rip and absolute bases, unary forms) disassembled by objdump and by the repo's vendored x86asm and compared after "
            "canonicalisation; plus a Lean model of REX/ModRM/SIB/disp for `op reg,[base+disp]` with a decode-of-encode theorem, "
            "tied to the real bytes of every swept `mov r,[base+disp]` / `mov [base+disp],r`.",
    "note": "Trusted: Lean kernel; the reference tables are hand-written from the ISA manuals (RISC-V unprivileged spec; LoongArch "
            "reference manual vol.1 appendix B) - they are the specification; objdump (binutils) for x86-64. The tie between the "
            "Lean encoder model and Encode is the correspondence sweep (differential, not a proof). Differences between the two are "
            "attributed by the oracle to a root-cause key; recorded findings suppress only their key. Not modelled: RISC-V A/C "
            "extensions (absent from the repo's table), RISC-V pseudo-instructions (every one is rejected by a panic on this tree; "
            "their expansions from the ISA handbook are only in the python oracle), LoongArch LSX/LASX, x86-64 beyond the listed "
            "operand form. FP rounding mode: rm = RNE or DYN both count as 'no rm given'.",
    "technique": "Lean 4 proof over regenerated opcode tables + hand-written ISA reference + differential sweep of the real encoders "
                 "+ spec-decoder / repo-decoder / objdump oracles",
}
REQUIRED = ["rv_unpack_pack", "rv_isa_wf", "rv_table_prefix_free", "rv_table_matches_isa_partial", "rv_decode_encode",
            "rv_ranges_match_isa_partial", "rv_table_rows_roundtrip",
            "la_unpack_pack", "la_isa_wf", "la_layouts_ok", "la_table_prefix_free", "la_table_matches_isa_partial",
            "la_decode_encode", "la_table_rows_roundtrip", "x64_rm_decode_encode"]

GEN_RV = os.path.join(LEAN, "WaVerif", "Gen", "C17Riscv.lean")
GEN_LA = os.path.join(LEAN, "WaVerif", "Gen", "C17Loong64.lean")

# ------------------------------------------------------------------ RISC-V reference data (python side: operand
# classes only, used to GENERATE operands; the encodings live in the Lean reference table)

RV_FMT = {1: "R", 2: "R4", 3: "I", 4: "S", 5: "B", 6: "U", 7: "J"}


def rv_classes(name, fmt):
    """ISA operand classes (rd, rs1, rs2, rs3) for a base mnemonic: 'x', 'f' or '-'."""
    n = name
    fp = n.startswith("F") and n != "FENCE"
    if fmt == "R4":
        return ("f", "f", "f", "f")
    if fmt == "U" or fmt == "J":
        return ("x", "-", "-", "-")
    if fmt == "B":
        return ("-", "x", "x", "-")
    if fmt == "S":
        return ("-", "x", "f" if fp else "x", "-")
    if fmt == "I":
        if n in ("ECALL", "EBREAK"):
            return ("-", "-", "-", "-")
        return ("f" if fp else "x", "x", "-", "-")
    # R
    if not fp:
        return ("x", "x", "x", "-")
    unary_ff = ("FSQRT_", "FCVT_S_D", "FCVT_D_S")
    if n.startswith(unary_ff):
        return ("f", "f", "-", "-")
    if n.startswith(("FCVT_W", "FCVT_L", "FMV_X_", "FCLASS_")):
        return ("x", "f", "-", "-")
    if n.startswith(("FCVT_S_", "FCVT_D_", "FMV_W_X", "FMV_D_X")):
        return ("f", "x", "-", "-")
    if n.startswith(("FEQ_", "FLT_", "FLE_")):
        return ("x", "f", "f", "-")
    return ("f", "f", "f", "-")


RV_PSEUDO = {
    # name: (base, rd, rs1, rs2, imm) with 'rd'/'rs1'/'rs2' naming the pseudo's own operand slots, 'x0','x1', ints, 'imm'
    "P_NOP": ("ADDI", "x0", "x0", "-", 0), "P_MV": ("ADDI", "rd", "rs1", "-", 0), "P_NOT": ("XORI", "rd", "rs1", "-", -1),
    "P_NEG": ("SUB", "rd", "x0", "rs1", 0), "P_NEGW": ("SUBW", "rd", "x0", "rs1", 0), "P_SEXT_W": ("ADDIW", "rd", "rs1", "-", 0),
    "P_SEQZ": ("SLTIU", "rd", "rs1", "-", 1), "P_SNEZ": ("SLTU", "rd", "x0", "rs1", 0), "P_SLTZ": ("SLT", "rd", "rs1", "x0", 0),
    "P_SGTZ": ("SLT", "rd", "x0", "rs1", 0),
    "P_FMV_S": ("FSGNJ_S", "rd", "rs1", "rs1", 0), "P_FABS_S": ("FSGNJX_S", "rd", "rs1", "rs1", 0), "P_FNEG_S": ("FSGNJN_S", "rd", "rs1", "rs1", 0),
    "P_FMV_D": ("FSGNJ_D", "rd", "rs1", "rs1", 0), "P_FABS_D": ("FSGNJX_D", "rd", "rs1", "rs1", 0), "P_FNEG_D": ("FSGNJN_D", "rd", "rs1", "rs1", 0),
    "P_BEQZ": ("BEQ", "-", "rs1", "x0", "imm"), "P_BNEZ": ("BNE", "-", "rs1", "x0", "imm"), "P_BLEZ": ("BGE", "-", "x0", "rs1", "imm"),
    "P_BGEZ": ("BGE", "-", "rs1", "x0", "imm"), "P_BLTZ": ("BLT", "-", "rs1", "x0", "imm"), "P_BGTZ": ("BLT", "-", "x0", "rs1", "imm"),
    "P_BGT": ("BLT", "-", "rs2", "rs1", "imm"), "P_BLE": ("BGE", "-", "rs2", "rs1", "imm"), "P_BGTU": ("BLTU", "-", "rs2", "rs1", "imm"),
    "P_BLEU": ("BGEU", "-", "rs2", "rs1", "imm"),
    "P_J": ("JAL", "x0", "-", "-", "imm"), "P_JR": ("JALR", "x0", "rs1", "-", 0), "P_RET": ("JALR", "x0", "x1", "-", 0),
    "P_RDINSTRET": ("CSRRS", "rd", "x0", "-", -1022), "P_RDCYCLE": ("CSRRS", "rd", "x0", "-", -1024), "P_RDTIME": ("CSRRS", "rd", "x0", "-", -1023),
    "P_CSRR": ("CSRRS", "rd", "x0", "-", "imm"), "P_CSRW": ("CSRRW", "x0", "rs1", "-", "imm"), "P_CSRS": ("CSRRS", "x0", "rs1", "-", "imm"),
    "P_CSRC": ("CSRRC", "x0", "rs1", "-", "imm"), "P_CSRWI": ("CSRRWI", "x0", "rs1", "-", "imm"), "P_CSRSI": ("CSRRSI", "x0", "rs1", "-", "imm"),
    "P_CSRCI": ("CSRRCI", "x0", "rs1", "-", "imm"),
    "P_FRCSR": ("CSRRS", "rd", "x0", "-", 3), "P_FSCSR": ("CSRRW", "rd|x0", "rs1", "-", 3), "P_FRRM": ("CSRRS", "rd", "x0", "-", 2),
    "P_FSRM": ("CSRRW", "rd|x0", "rs1", "-", 2), "P_FRFLAGS": ("CSRRS", "rd", "x0", "-", 1), "P_FSFLAGS": ("CSRRW", "rd|x0", "rs1", "-", 1),
}


def rv_expected(name, regs, imm):
    """what an independent disassembler must show for the accepted input: (mnemonic, rd, rs1, rs2, rs3, imm)."""
    if name in RV_PSEUDO:
        base, erd, ers1, ers2, eimm = RV_PSEUDO[name]
        slot = {"rd": regs[0], "rs1": regs[1], "rs2": regs[2], "-": "-", "x0": "x0", "x1": "x1"}
        def pick(s):
            if s == "rd|x0":
                return regs[0] if regs[0] != "-" else "x0"
            return slot[s]
        return (base, pick(erd), pick(ers1), pick(ers2), "-", imm if eimm == "imm" else eimm)
    if name in ("ECALL", "EBREAK"):
        # the repo's calling convention: rd = rs1 = x0, imm = 0 for the operand-less instructions
        return (name, "-" if regs[0] == "x0" else regs[0], "-" if regs[1] == "x0" else regs[1], regs[2], regs[3], imm)
    if name == "JAL" and regs[0] == "-":
        # ISA assembler handbook: `jal offset` is `jal x1, offset`
        return (name, "x1", regs[1], regs[2], regs[3], imm)
    return (name, regs[0], regs[1], regs[2], regs[3], imm)


RV64_ONLY = {"LWU", "LD", "SD", "ADDIW", "SLLIW", "SRLIW", "SRAIW", "ADDW", "SUBW", "SLLW", "SRLW", "SRAW", "MULW", "DIVW", "DIVUW",
             "REMW", "REMUW", "FCVT_L_S", "FCVT_LU_S", "FCVT_S_L", "FCVT_S_LU", "FCVT_L_D", "FCVT_LU_D", "FMV_X_D", "FCVT_D_L",
             "FCVT_D_LU", "FMV_D_X"}
RV_SHIFTS = {"SLLI", "SRLI", "SRAI", "SLLIW", "SRLIW", "SRAIW"}


def rv_group(name, fmt):
    """root-cause group of a finding: the format's shared code path, or the mnemonic for the special cases."""
    if name in ("ECALL", "EBREAK"):
        return "ECALL-EBREAK"
    if name in RV_SHIFTS:
        return "shift-imm"
    if name == "JAL":
        return "JAL"
    return fmt + "-type"


def rv_imm_pool(fmt, name, rng, tier):
    lim = {"I": (12, True), "S": (12, True), "B": (13, True), "U": (20, False), "J": (21, True)}
    if fmt in ("R", "R4"):
        return [0, 0, 0, 1, -1]
    bits, signed = lim[fmt]
    vals = set(boundary_ints(bits, signed))
    lo, hi = (-(1 << (bits - 1)), (1 << (bits - 1)) - 1) if signed else (0, (1 << bits) - 1)
    # just outside, sign limits of neighbouring widths, misaligned values
    for v in (lo - 2, lo - 1, hi + 1, hi + 2, -(1 << bits), (1 << bits), -(1 << (bits + 1)), (1 << 31) - 1, -(1 << 31), -1, -2, -3, 1, 3, 5, 7):
        vals.add(v)
    if name in ("SLLI", "SRLI", "SRAI", "SLLIW", "SRLIW", "SRAIW"):
        vals.update(range(-1, 66))
    n = 4 if tier == "quick" else 40
    for _ in range(n):
        vals.add(rng.randrange(lo, hi + 1))
        vals.add(rng.randrange(lo, hi + 1) & ~1)
    return sorted(v for v in vals if -(1 << 31) <= v < (1 << 31))


def rv_reg(cls, n):
    return "-" if cls == "-" else "%s%d" % (cls, n)


def gen_rv_ops(info, rng, tier):
    ops = []
    rows = [(r, False) for r in info["base"]] + [(r, True) for r in info["pseudo"]]
    regpool = [0, 1, 2, 5, 8, 15, 16, 17, 30, 31]
    for r, is_pseudo in rows:
        name = r["name"]
        if is_pseudo:
            marks = int(r["marks"])
            tgt = RV_PSEUDO.get(name, (None,))[0]
            fp = bool(tgt) and tgt.startswith("FSGN")
            c = "f" if fp else "x"
            cls = (c if marks & 3 else "-", c if marks & 4 else "-", c if marks & 8 else "-", "-")
            fmt = "J" if name == "P_J" else ("B" if marks & 32 and name.startswith("P_B") else "I")
            has_imm = bool(marks & 32)
        else:
            fmt = RV_FMT.get(int(r["fmt"]), "I")
            cls = rv_classes(name, fmt)
            has_imm = fmt not in ("R", "R4") and name not in ("ECALL", "EBREAK")
        imms = rv_imm_pool(fmt, name, rng, tier) if has_imm else [0]
        # class variants: ISA classes; the marks view of the repo (every marked slot an x register); all x; all f
        variants = [cls]
        if not is_pseudo:
            m = int(r["marks"])
            mk = ("x" if m & 1 else "-", "x" if m & 4 else "-", "x" if m & 8 else "-", "x" if m & 16 else "-")
            for v in (mk, tuple("f" if c != "-" else "-" for c in mk), tuple("x" if c != "-" else "-" for c in cls),
                      tuple("f" if c != "-" else "-" for c in cls)):
                if v not in variants:
                    variants.append(v)
            if name in ("ECALL", "EBREAK"):
                variants = [("x", "x", "-", "-"), ("-", "-", "-", "-")]
        for xlen in (32, 64):
            for vi, v in enumerate(variants):
                # 1. every register number in every slot (others fixed), immediate fixed
                im0 = imms[len(imms) // 2] if has_imm else 0
                if has_imm:
                    im0 = 0 if 0 in imms else im0
                base = [rng.choice(regpool) for _ in range(4)]
                if name in ("ECALL", "EBREAK"):
                    base = [0, 0, 0, 0]
                    ops.append("rv %d %s %s %s - - 0" % (xlen, name, rv_reg(v[0], 0), rv_reg(v[1], 0)))
                    if vi == 0:
                        ops.append("rv %d %s x5 x0 - - 0" % (xlen, name))
                        ops.append("rv %d %s x0 x0 - - 7" % (xlen, name))
                    continue
                for slot in range(4):
                    if v[slot] == "-":
                        continue
                    for n in (range(32) if vi == 0 else (0, 1, 31)):
                        regs = list(base)
                        regs[slot] = n
                        ops.append("rv %d %s %s %s %s %s %d" % (xlen, name, rv_reg(v[0], regs[0]), rv_reg(v[1], regs[1]),
                                                                 rv_reg(v[2], regs[2]), rv_reg(v[3], regs[3]), im0))
                # 2. every boundary immediate, registers at their extremes
                if has_imm and vi <= 1:
                    for k, im in enumerate(imms):
                        rr = [(0, 31, 1, 30)[(k + s) % 4] for s in range(4)]
                        ops.append("rv %d %s %s %s %s %s %d" % (xlen, name, rv_reg(v[0], rr[0]), rv_reg(v[1], rr[1]),
                                                                 rv_reg(v[2], rr[2]), rv_reg(v[3], rr[3]), im))
                # 3. a missing and an extra operand (must be rejected / must not change the word silently)
                if vi == 0:
                    full = [rv_reg(v[s], base[s]) for s in range(4)]
                    for slot in range(4):
                        alt = list(full)
                        alt[slot] = "-" if full[slot] != "-" else "x%d" % rng.choice(regpool)
                        ops.append("rv %d %s %s %d" % (xlen, name, " ".join(alt), im0))
                    if not has_imm:
                        ops.append("rv %d %s %s %d" % (xlen, name, " ".join(full), 4))
    return ops


# ------------------------------------------------------------------ LoongArch64

LA_PREFIX = {"R": "r", "F": "f", "S": "s", "C": "c", "U": "#"}
LA_COUNT = {"R": 32, "F": 32, "S": 4, "C": 8}


def la_slot_values(kind, width, full):
    n = LA_COUNT.get(kind, 1 << width)
    if full or n <= 8:
        return list(range(n))
    return sorted({0, 1, 2, n // 2 - 1, n // 2, n - 2, n - 1})


def la_imm_pool(kind, W, rng, tier):
    vals = set()
    if kind == "UI":
        vals.update(boundary_ints(W, False))
        vals.update([-1, -2, (1 << W), (1 << W) + 1, (1 << (W + 1)) - 1, -(1 << (W - 1)) if W > 1 else -1])
        lo, hi, step = 0, (1 << W) - 1, 1
    elif kind == "SI":
        vals.update(boundary_ints(W, True))
        lo, hi, step = -(1 << (W - 1)), (1 << (W - 1)) - 1, 1
        vals.update([lo - 1, lo - 2, hi + 1, hi + 2, (1 << W) - 1, (1 << W), -(1 << W)])
    else:  # OF: byte offset, multiple of 4, W-bit signed word offset
        for v in boundary_ints(W, True):
            vals.add(v * 4)
        lo, hi, step = -(1 << (W - 1)) * 4, ((1 << (W - 1)) - 1) * 4, 4
        vals.update([lo - 4, hi + 4, hi + 8, lo - 8, 1, 2, 3, 5, 6, -1, -2, -3, hi + 1, hi + 2, lo + 1, (1 << (W + 1)) * 4, -(1 << (W + 1)) * 4])
    for _ in range(4 if tier == "quick" else 40):
        vals.add(rng.randrange(lo, hi + 1) // step * step)
    return sorted(v for v in vals if -(1 << 31) <= v < (1 << 31))


LA_GROUPED = ("unused-operand:ignored", "signed-imm:unsigned-range-accepted", "number-field:not-range-checked",
              "branch-offset:not-range-checked", "branch-offset:misaligned-accepted")


def la_invalid_reason(name, regs, imm, fi):
    """first reason why (regs, imm) is not an operand tuple the ISA format can express."""
    slots = {s: (k, w) for s, k, w in fi}
    for i, sname in enumerate(("rd", "rs1", "rs2", "rs3")):
        t = regs[i]
        if sname not in slots:
            if t != "-":
                return "unused-operand:ignored"
            continue
        k, w = slots[sname]
        if t == "-":
            return "other"
        if k == "U":
            if t[0] != "#" or int(t[1:]) >= (1 << w):
                return "number-field:not-range-checked"
        elif t[0] != LA_PREFIX[k]:
            return "other"
    if "imm" not in slots:
        return "unused-operand:ignored" if imm != 0 else "other"
    k, W = slots["imm"]
    if k == "UI":
        return "number-field:not-range-checked" if not (0 <= imm < (1 << W)) else "other"
    if k == "SI":
        if (1 << (W - 1)) <= imm < (1 << W):
            return "signed-imm:unsigned-range-accepted"
        return "signed-imm:not-range-checked" if not (-(1 << (W - 1)) <= imm < (1 << (W - 1))) else "other"
    if k == "OF":
        if imm % 4:
            return "branch-offset:misaligned-accepted"
        return "branch-offset:not-range-checked" if not (-(1 << (W - 1)) <= imm // 4 < (1 << (W - 1))) else "other"
    return "other"


def gen_la_ops(rows, fmtinfo, rng, tier):
    """rows: parsed dump rows; fmtinfo: name -> [(slot, kind, width)] from the Lean model's layout of the row's format."""
    ops = []
    seen_fmt_full = set()
    for r in rows:
        name = r["name"]
        fi = fmtinfo.get(name)
        if fi is None:
            continue
        regslots = [(s, k, w) for s, k, w in fi if s != "imm"]
        imm = [(k, w) for s, k, w in fi if s == "imm"]
        order = ["rd", "rs1", "rs2", "rs3"]
        base = {}
        for s, k, w in regslots:
            vs = la_slot_values(k, w, False)
            base[s] = (k, rng.choice(vs))
        def line(regvals, im):
            f = []
            for s in order:
                if s in regvals:
                    k, v = regvals[s]
                    f.append("%s%d" % (LA_PREFIX[k], v))
                else:
                    f.append("-")
            return "la %s %s %d" % (name, " ".join(f), im)
        im0 = 0
        # the first row of every format sweeps every register number; later rows of the same format a boundary subset
        full = r["fmt"] not in seen_fmt_full or tier != "quick"
        seen_fmt_full.add(r["fmt"])
        ops.append(line(base, im0))
        for s, k, w in regslots:
            for v in la_slot_values(k, w, full):
                rv = dict(base)
                rv[s] = (k, v)
                ops.append(line(rv, im0))
            # one value just outside the field / register file, and the wrong register class
            rv = dict(base); rv[s] = ("U", (1 << w) if k == "U" else 1000); ops.append(line(rv, im0))
            if k in ("R", "F"):
                rv = dict(base); rv[s] = ("F" if k == "R" else "R", 3); ops.append(line(rv, im0))
            rv = dict(base); del rv[s]; ops.append(line(rv, im0))          # operand missing
        if imm:
            k, W = imm[0]
            pool = la_imm_pool(k, W, rng, tier)
            if not full:
                pool = pool[:: max(1, len(pool) // 24)] + pool[-3:]
            for i, im in enumerate(pool):
                rv = {}
                for j, (s, kk, w) in enumerate(regslots):
                    vs = la_slot_values(kk, w, False)
                    rv[s] = (kk, vs[(i + j) % len(vs)])
                ops.append(line(rv, im))
        elif full:
            ops.append(line(base, 4))                                       # immediate given to an instruction without one
        if full:
            for s in order:
                if s not in base:
                    rv = dict(base); rv[s] = ("R", 7); ops.append(line(rv, im0))   # operand in a slot the format does not have
    return ops


# ------------------------------------------------------------------ x86-64 (exploration: objdump oracle)

X64_REG64 = ["rax", "rcx", "rdx", "rbx", "rsp", "rbp", "rsi", "rdi", "r8", "r9", "r10", "r11", "r12", "r13", "r14", "r15"]
X64_REG32 = ["eax", "ecx", "edx", "ebx", "esp", "ebp", "esi", "edi"] + ["r%dd" % i for i in range(8, 16)]
X64_REG16 = ["ax", "cx", "dx", "bx", "sp", "bp", "si", "di"] + ["r%dw" % i for i in range(8, 16)]
X64_REG8 = ["al", "cl", "dl", "bl", "spl", "bpl", "sil", "dil"] + ["r%db" % i for i in range(8, 16)]
X64_FAMILY = {}
for _i in range(16):
    for _l in (X64_REG64, X64_REG32, X64_REG16, X64_REG8):
        X64_FAMILY[_l[_i]] = _i
X64_SIZE = {}
for _n in X64_REG64: X64_SIZE[_n] = 8
for _n in X64_REG32: X64_SIZE[_n] = 4
for _n in X64_REG16: X64_SIZE[_n] = 2
for _n in X64_REG8: X64_SIZE[_n] = 1
X64_SYN = {"jz": "je", "jnz": "jne", "jnae": "jb", "jc": "jb", "jnbe": "ja", "jnl": "jge", "setz": "sete", "setnz": "setne",
           "setnbe": "seta", "setnb": "setae", "setnc": "setae", "setc": "setb", "setnae": "setb", "setna": "setbe", "setnle": "setg",
           "setnl": "setge", "setnge": "setl", "setng": "setle", "setpo": "setnp", "cmovnz": "cmovne", "sal": "shl", "movabs": "mov",
           "cltd": "cdq", "cqto": "cqo", "retq": "ret", "ret": "ret"}
X64_PTR = {"BYTE": "byte", "WORD": "word", "DWORD": "dword", "QWORD": "qword", "XMMWORD": "xmmword"}


def x64_parse_int(t):
    t = t.strip()
    neg = t.startswith("-")
    if neg:
        t = t[1:]
    v = int(t, 16) if t.startswith("0x") else int(t)
    return -v if neg else v


def x64_parse_objdump_operand(t):
    t = t.strip()
    m = re.match(r"^(?:(BYTE|WORD|DWORD|QWORD|XMMWORD) PTR )?(?:[a-z]s:)?\[(.*)\]$", t)
    if m:
        size = X64_PTR.get(m.group(1) or "", None)
        base, idx, scale, disp = None, None, 1, 0
        body = m.group(2).replace("-", "+-")
        for part in [x for x in body.split("+") if x]:
            if "*" in part:
                idx, sc = part.split("*"); scale = int(sc)
            elif re.match(r"^-?(0x[0-9a-f]+|\d+)$", part):
                disp += x64_parse_int(part)
            elif base is None:
                base = part
            else:
                idx = part
        return ("mem", size, base, idx, scale, disp)
    m = re.match(r"^(?:(BYTE|WORD|DWORD|QWORD) PTR )?[a-z]s:(0x[0-9a-f]+)$", t)
    if m:
        return ("mem", X64_PTR.get(m.group(1) or "", None), None, None, 1, int(m.group(2), 16))
    if re.match(r"^-?(0x[0-9a-f]+|\d+)$", t):
        return ("imm", x64_parse_int(t))
    return ("reg", t)


def x64_parse_objdump(text):
    """'mov    r8,QWORD PTR ds:0x64' -> ('mov', [operands]); prefixes other than rep/lock make the line foreign."""
    text = text.split("#")[0].strip()
    f = text.split(None, 1)
    if not f:
        return None
    mn = f[0]
    if mn.startswith("rex") or mn in ("(bad)", "data16", "cs", "ds", "es", "ss", "fs", "gs"):
        return ("(prefix)", [])
    ops = []
    if len(f) > 1:
        depth, cur = 0, ""
        for ch in f[1]:
            if ch == "[": depth += 1
            if ch == "]": depth -= 1
            if ch == "," and depth == 0:
                ops.append(cur); cur = ""
            else:
                cur += ch
        ops.append(cur)
    return (X64_SYN.get(mn, mn), [x64_parse_objdump_operand(o) for o in ops])


def x64_expected(name, toks):
    ops = []
    for t in toks:
        if t == "-":
            continue
        f = t.split(":")
        if f[0] == "reg":
            ops.append(("reg", f[1]))
        elif f[0] == "imm":
            ops.append(("imm", int(f[1])))
        else:
            ops.append(("mem", f[1], None if f[2] == "-" else f[2], None, 1, int(f[3])))
    return (X64_SYN.get(name, name), ops)


def x64_ops_same(e, g):
    if e[0] != g[0]:
        return False
    if e[0] == "reg":
        return e[1] == g[1]
    if e[0] == "imm":
        return (e[1] - g[1]) % (1 << 64) == 0
    return (e[2] or None) == (g[2] or None) and (e[5] - g[5]) % (1 << 64) == 0 and (g[1] is None or e[1] == g[1])


def x64_ops_similar(e, g):
    """same operand up to register size and addressing base (used to recognise swapped operands)."""
    if e[0] != g[0]:
        return False
    if e[0] == "reg":
        return X64_FAMILY.get(e[1], e[1]) == X64_FAMILY.get(g[1], g[1])
    if e[0] == "imm":
        return (e[1] - g[1]) % (1 << 32) == 0
    return (e[5] - g[5]) % (1 << 32) == 0


def x64_key(name, form, sym, toks, exp, got):
    """root cause of an x64 finding."""
    if name == "std":
        return "x64:std:operands-ignored"
    if sym == "branch-target":
        return "x64:call-jmp:rel32-ignored"
    if name == "push":
        return "x64:push:%s" % sym
    if sym == "operands-swapped":
        return "x64:cmp:operands-swapped"
    if "mem(rip)" in form and sym in ("mem-base", "operands-swapped"):
        return "x64:mem-rip:encoded-as-absolute"
    if name in ("movsxd", "movzx", "movabs"):
        return "x64:%s:%s" % (name, "operand-size-ignored" if sym in ("register", "mem-size") else sym)
    if sym == "immediate":
        return "x64:imm:truncated"
    if sym == "mem-size" and got is not None:
        # the same address with another access size: operand sizes are not checked against each other
        em = [(o[2], o[5] % (1 << 32)) for o in exp[1] if o[0] == "mem"]
        gm = [(o[2], o[5] % (1 << 32)) for o in got[1] if o[0] == "mem"]
        if em and em == gm:
            return "x64:operand-size:not-checked"
    if sym in ("register", "mem-size") and got is not None:
        # same register family / same address, only the size differs: the operand sizes are not checked against each other
        fam = all((e[0] != "reg") or (g[0] == "reg" and X64_FAMILY.get(e[1]) is not None and X64_FAMILY.get(e[1]) == X64_FAMILY.get(g[1]))
                  for e, g in zip(exp[1], got[1])) and len(exp[1]) == len(got[1])
        if fam:
            return "x64:operand-size:not-checked"
    return "x64:%s:%s:%s" % (name, form, sym)


def x64_equal(exp, got, start, length, dispmod=1 << 64):
    """structural comparison after canonicalisation; returns None if equal, else a short symptom."""
    if got is None or got[0] == "(prefix)":
        return "undecodable"
    emn, eops = exp
    gmn, gops = got
    if emn != gmn:
        return "wrong-instruction"
    # branch targets: objdump prints the absolute target = start + length + rel
    if emn in ("jmp", "call", "je", "jne", "ja", "jb", "jge", "jns") and eops and eops[0][0] == "imm":
        if len(gops) == 1 and gops[0][0] == "imm" and (gops[0][1] - (start + length)) % (1 << 64) == eops[0][1] % (1 << 64):
            return None
        return "branch-target"
    # imul r, imm is the assembler shorthand of imul r, r, imm
    if emn == "imul" and len(eops) == 2 and len(gops) == 3 and gops[0] == gops[1]:
        gops = [gops[0], gops[2]]
    if len(eops) != len(gops):
        return "operand-count"
    # test is symmetric: objdump prints the r/m operand first
    if emn == "test" and len(eops) == 2 and eops[1][0] != "imm":
        key = lambda o: (o[0] != "mem", str(o))
        eops, gops = sorted(eops, key=key), sorted(gops, key=key)
    if emn == "cmp" and len(eops) == 2 and x64_ops_similar(eops[0], gops[1]) and x64_ops_similar(eops[1], gops[0]) and not (
            x64_ops_similar(eops[0], gops[0]) and x64_ops_similar(eops[1], gops[1])):
        return "operands-swapped"
    # mov r, imm: `mov eax, imm32` and `mov rax, imm` with a zero-extended value are the same operation
    if emn == "mov" and len(eops) == 2 and eops[0][0] == "reg" and eops[1][0] == "imm" and gops[0][0] == "reg" and gops[1][0] == "imm":
        er, gr = eops[0][1], gops[0][1]
        if X64_FAMILY.get(er) is not None and X64_FAMILY.get(er) == X64_FAMILY.get(gr):
            ev = eops[1][1] % (1 << (8 * X64_SIZE[er])) if X64_SIZE[er] < 8 else eops[1][1] % (1 << 64)
            gv = gops[1][1] % (1 << (8 * X64_SIZE[gr])) if X64_SIZE[gr] < 8 else gops[1][1] % (1 << 64)
            if X64_SIZE[er] >= 4 and X64_SIZE[gr] >= 4 and ev == gv:
                return None
    size = 8
    for o in eops:
        if o[0] == "reg" and o[1] in X64_SIZE:
            size = X64_SIZE[o[1]]
            break
        if o[0] == "mem":
            size = {"byte": 1, "word": 2, "dword": 4, "qword": 8}[o[1]]
            break
    for e, g in zip(eops, gops):
        if e[0] != g[0]:
            return "operand-kind"
        if e[0] == "reg" and e[1] != g[1]:
            return "register"
        if e[0] == "imm" and (e[1] - g[1]) % (1 << (8 * size)) != 0:
            return "immediate"
        if e[0] == "mem":
            if emn != "lea" and g[1] is not None and e[1] != g[1]:
                return "mem-size"
            if (e[2] or None) != (g[2] or None) or g[3] is not None:
                return "mem-base"
            if (e[5] - g[5]) % dispmod != 0:
                return "mem-disp"
    return None


def gen_x64_ops(names, rng, tier):
    ops = []
    r64 = ["rax", "rcx", "rsp", "rbp", "rsi", "r8", "r12", "r13", "r15"]
    r32 = ["eax", "ecx", "esp", "ebp", "edi", "r8d", "r12d", "r13d", "r15d"]
    imms = [0, 1, -1, 2, 61, 127, 128, -128, -129, 255, 256, 32767, 65535, (1 << 31) - 1, -(1 << 31), (1 << 31), (1 << 32) - 1,
            (1 << 32), -(1 << 32), (1 << 63) - 1, -(1 << 63), 0x3FF0000000000000]
    disps = [0, 1, -1, 8, -16, 127, 128, -128, -129, 300, -768, (1 << 31) - 1, -(1 << 31)]
    bases = X64_REG64 + ["rip", "-"]
    if tier != "quick":
        r64, r32 = X64_REG64, X64_REG32
        disps += [rng.randrange(-(1 << 31), 1 << 31) for _ in range(20)]
        imms += [rng.randrange(-(1 << 63), 1 << 63) for _ in range(20)]
    def mem(sz, b, d):
        return "mem:%s:%s:%d" % (sz, b, d)
    for n in names:
        # no operands / one operand
        ops.append("x64 %s - - -" % n)
        for r in r64[:5] + r32[:3] + ["ax", "al", "r9b", "xmm1"]:
            ops.append("x64 %s reg:%s - -" % (n, r))
        for im in imms[:8]:
            ops.append("x64 %s imm:%d - -" % (n, im))
        for sz in ("dword", "qword"):
            for b in ("rbp", "rsp", "r12", "r13", "rax"):
                ops.append("x64 %s %s - -" % (n, mem(sz, b, -768 if b == "rbp" else 0)))
        # two operands
        for regs, sz in ((r64, "qword"), (r32, "dword")):
            for a in regs:
                for b in regs[:: (1 if n in ("mov", "add") or tier != "quick" else 3)]:
                    ops.append("x64 %s reg:%s reg:%s -" % (n, a, b))
            for a in regs[:4]:
                for im in (imms if n in ("mov", "movabs", "add", "cmp") or tier != "quick" else imms[:10]):
                    ops.append("x64 %s reg:%s imm:%d -" % (n, a, im))
            full = n in ("mov", "lea", "add") or tier != "quick"
            for b in (bases if full else ["rbp", "rsp", "r12", "r13", "rax", "rip"]):
                for d in (disps if full else disps[:9]):
                    ops.append("x64 %s reg:%s %s -" % (n, regs[(abs(d) + len(b)) % len(regs)], mem(sz, b, d)))
                    if full or d in (0, -16, 300):
                        ops.append("x64 %s %s reg:%s -" % (n, mem(sz, b, d), regs[(abs(d) + 1) % len(regs)]))
                        ops.append("x64 %s %s imm:%d -" % (n, mem(sz, b, d), imms[abs(d) % 10]))
        for a, b in (("eax", "al"), ("eax", "cl"), ("rax", "cl"), ("al", "cl"), ("ax", "cx"), ("xmm4", "xmm5"), ("xmm4", "rax"), ("rax", "xmm4"),
                     ("xmm4", "eax"), ("eax", "xmm4"), ("rax", "eax"), ("rax", "ecx")):
            ops.append("x64 %s reg:%s reg:%s -" % (n, a, b))
        for sz in ("dword", "qword"):
            ops.append("x64 %s reg:xmm4 %s -" % (n, mem(sz, "rbp", -64)))
            ops.append("x64 %s %s reg:xmm4 -" % (n, mem(sz, "rbp", -64)))
        ops.append("x64 %s reg:xmm4 reg:xmm4 imm:2" % n)
    ops += gen_x64_prefix_ops(names, rng, tier)
    return ops


def gen_x64_prefix_ops(names, rng, tier):
    """systematic prefix combinations: every mnemonic x operand size (8/16/32/64: none / 66 / REX.W) x low and extended
    (r8..r15: REX.B / REX.R) registers as base and as register operand x the addressing forms the operand type can express
    (no index register in abi.X64Operand), so that 66, F2/F3 (popcnt/lzcnt/tzcnt) and REX appear together in every order."""
    ops = []
    sizes = (("byte", X64_REG8), ("word", X64_REG16), ("dword", X64_REG32), ("qword", X64_REG64))
    all_bases = X64_REG64
    few_bases = ["rax", "rsp", "rbp", "rdi", "r8", "r9", "r12", "r13", "r15"]
    def mem(sz, b, d):
        return "mem:%s:%s:%d" % (sz, b, d)
    for n in names:
        for sz, regs in sizes:
            bits = {"byte": 8, "word": 16, "dword": 32, "qword": 64}[sz]
            edge = [7, -1, (1 << (bits - 1)) - 1 if bits < 64 else (1 << 31) - 1, 300]
            for b in all_bases:
                ops.append("x64 %s %s - -" % (n, mem(sz, b, 4)))
                ops.append("x64 %s %s imm:7 -" % (n, mem(sz, b, 4)))
            for b in few_bases:
                for d in (0, -129):
                    ops.append("x64 %s %s - -" % (n, mem(sz, b, d)))
                    ops.append("x64 %s %s imm:%d -" % (n, mem(sz, b, d), edge[(len(b) + (d != 0)) % len(edge)]))
                for ri in (1, 3, 9, 14):           # cx-family, bx-family, r9-family, r14-family
                    ops.append("x64 %s %s reg:%s -" % (n, mem(sz, b, 4), regs[ri]))
                    ops.append("x64 %s reg:%s %s -" % (n, regs[ri], mem(sz, b, 4)))
            # register-register in this size, low/extended in both positions
            for a in (0, 3, 8, 13):
                for b in (1, 9, 15):
                    ops.append("x64 %s reg:%s reg:%s -" % (n, regs[a], regs[b]))
            for a in (0, 9):
                ops.append("x64 %s reg:%s - -" % (n, regs[a]))
                ops.append("x64 %s reg:%s imm:7 -" % (n, regs[a]))
            # widening forms: a 32/64-bit destination with a narrower memory source (movzx/movsx and F3-prefixed counts)
            if sz in ("byte", "word", "dword"):
                for dst in ("eax", "r9d", "rax", "r9"):
                    for b in ("rax", "r10", "r13"):
                        ops.append("x64 %s reg:%s %s -" % (n, dst, mem(sz, b, 0)))
    return ops


def x64_form(toks):
    def k(t):
        if t == "-":
            return "-"
        f = t.split(":")
        if f[0] == "mem":
            return "mem(%s)" % ("rip" if f[2] == "rip" else ("abs" if f[2] == "-" else "base"))
        if f[0] == "reg":
            return "xmm" if f[1].startswith("xmm") else "r%d" % (8 * X64_SIZE.get(f[1], 0))
        return "imm"
    return ",".join(k(t) for t in toks if t != "-") or "none"


def write_if_changed(path, text):
    """regenerate: the old file is removed first so a failed generation cannot leave a stale table behind."""
    old = open(path).read() if os.path.exists(path) else None
    if old == text:
        # identical content: touch nothing so lake does not rebuild; the file was still produced from this run's dump
        return False
    if os.path.exists(path):
        os.remove(path)
    with open(path, "w") as f:
        f.write(text)
    return True


def run(ctx):
    h = ctx.build_harness("c17")
    # ---- regenerate the tables from the working tree
    _, rv_dump, _ = ctx.run_bin(h, args=["dump", "riscv"])
    rv_text, rv_info = c17_tables.gen_riscv(rv_dump)
    if len(rv_info["base"]) < 10:
        from lib.vlib import InfraError
        raise InfraError("riscv table dump is empty:\n" + rv_dump[:500])
    write_if_changed(GEN_RV, rv_text)
    _, la_dump, _ = ctx.run_bin(h, args=["dump", "loong64"])
    la_text, la_rows = c17_tables.gen_loong64(la_dump, c17_tables.lean_enum_order(os.path.join(LEAN, "WaVerif", "Model", "C17La.lean")))
    la_rows = [r for r in la_rows if int(r["mask"]) != 0 or int(r["value"]) != 0]
    if len(la_rows) < 10:
        from lib.vlib import InfraError
        raise InfraError("loong64 table dump is empty:\n" + la_dump[:500])
    write_if_changed(GEN_LA, la_text)

    ctx.prove(required=REQUIRED)
    m = ctx.build_model("c17")

    dist = {}
    nontrivial = set()
    samples = []
    evaluations = 0

    def bump(k, n=1):
        dist[k] = dist.get(k, 0) + n

    # =============================================================== RISC-V
    ops = []
    cdir = os.path.join(VERIF, "corpus", "C17")
    if os.path.isdir(cdir):
        for fn in sorted(os.listdir(cdir)):
            if fn.endswith(".ops"):
                ops += [l.strip() for l in open(os.path.join(cdir, fn)) if l.strip() and not l.startswith("#")]
    rv_ops = [o for o in ops if o.startswith("rv ")] + gen_rv_ops(rv_info, ctx.rng, ctx.tier)
    seen = set()
    rv_ops = [o for o in rv_ops if not (o in seen or seen.add(o))]
    _, out, err = ctx.run_bin(h, input_text="\n".join(rv_ops) + "\n")
    impl = out.splitlines()
    if len(impl) != len(rv_ops):
        from lib.vlib import InfraError
        raise InfraError("harness output length %d != %d ops\n%s" % (len(impl), len(rv_ops), err[-2000:]))
    evaluations += len(rv_ops)
    # model: encoder model on the same ops, then the specification decoder on every produced word
    model_enc = []
    spec_dec = {}
    bad_rows, bad_ranges = [], []
    if m:
        dec_ops = []
        for o, r in zip(rv_ops, impl):
            if r.startswith("ok "):
                dec_ops.append("rvdec %s %s" % (o.split()[1], r.split()[1]))
        dec_ops = sorted(set(dec_ops))
        text = "\n".join(rv_ops + dec_ops + ["rvrows", "rvranges"]) + "\n"
        _, mo, _ = ctx.run_bin(m, input_text=text)
        ml = mo.splitlines()
        if len(ml) == len(rv_ops) + len(dec_ops) + 2:
            model_enc = ml[:len(rv_ops)]
            for d, r in zip(dec_ops, ml[len(rv_ops):len(rv_ops) + len(dec_ops)]):
                spec_dec[tuple(d.split()[1:])] = r
            bad_rows = [x for x in ml[-2].split(" ", 1)[1].split(",") if x] if " " in ml[-2] else []
            bad_ranges = [x for x in ml[-1].split(" ", 1)[1].split(",") if x] if " " in ml[-1] else []
        else:
            ctx.proof["broken"].append({"theorem": "wamodel_c17", "why": "model driver output length %d != %d" % (len(ml), len(rv_ops) + len(dec_ops) + 2)})
    bad_rows_set = set(bad_rows)
    rv_fmt_of = {r["name"]: RV_FMT.get(int(r["fmt"]), "?") for r in rv_info["base"]}
    row_example = {}
    unexplained = []
    over_reject = {}
    for idx, (o, r) in enumerate(zip(rv_ops, impl)):
        f = o.split()
        xlen, name, regs, imm = f[1], f[2], f[3:7], int(f[7])
        menc = model_enc[idx] if model_enc else None
        if r.startswith(("PANIC", "MISMATCH", "bad")):
            ctx.violation("riscv:harness:%s" % r.split()[0], "%s -> %s" % (o, r), {"op": o, "impl": r})
            continue
        if not r.startswith("ok "):
            bump("rv_" + r.replace(" ", "_"))
            if menc and menc.startswith("ok"):
                k = "%s/%s" % ("pseudo" if name.startswith("P_") else ("fp" if name.startswith("F") and name != "FENCE" else "int"), r.split()[1])
                over_reject[k] = over_reject.get(k, 0) + 1
                bump("rv_over_rejected")
            nontrivial.add(("rv", name, "rej", r))
            continue
        bump("rv_accepted")
        word = r.split()[1]
        repo_dec = r.split("|", 1)[1].strip()
        exp = rv_expected(name, regs, imm)
        sd = spec_dec.get((xlen, word))
        explained = False
        fam = "fp" if (name.startswith("F") and name != "FENCE") or (name in RV_PSEUDO and RV_PSEUDO[name][0].startswith("F")) else "int"
        if sd is not None:
            if not sd.startswith("D "):
                sym = "undecodable"
                got = None
            else:
                g = sd.split()
                got = (g[1], g[2], g[3], g[4], g[5], int(g[6]))
                rm = int(g[7].split("=")[1])
                sym = None
                if got[0] != exp[0]:
                    sym = "wrong-instruction"
                elif any(a != b and a[1:] == b[1:] and a != "-" and b != "-" for a, b in zip(got[1:5], exp[1:5])):
                    sym = "register-class"
                elif got[1:5] != exp[1:5]:
                    sym = "register"
                elif got[5] != exp[5]:
                    d = exp[5]
                    sym = "imm-misaligned" if (d % 2 and got[5] == d - 1) else ("imm-negative" if d < 0 and got[5] >= 0 else "imm-range")
                elif rm not in (0, 7):
                    sym = "rounding-mode"
            if sym:
                explained = True
                base_name = exp[0]
                fmt_l = rv_fmt_of.get(base_name, "?")
                if name in bad_rows_set:
                    key = "riscv:table-row:%s" % name
                    row_example.setdefault(name, (o, r, sd))
                elif fam == "fp":
                    key = "riscv:fp-operand:%s" % sym
                elif xlen == "32" and base_name in RV64_ONLY and sym == "undecodable":
                    key = "riscv:rv32:accepts-rv64-only-instruction"
                elif name == "JAL" and regs[0] == "-" and sym == "register":
                    key = "riscv:JAL:omitted-rd"
                elif name in ("ECALL", "EBREAK"):
                    key = "riscv:ECALL-EBREAK:operands-ignored"
                elif base_name in ("SLLIW", "SRLIW", "SRAIW") and xlen == "64" and imm >= 32 and sym == "undecodable":
                    key = "riscv:shift-imm-W:shamt-6bit-accepted"
                else:
                    key = "riscv:%s:%s" % (rv_group(base_name, fmt_l), sym)
                ctx.violation(key, "riscv.Encode accepts `%s` and produces %s, which the specification decoder reads as `%s` (expected %s)" % (
                    o, word, sd, " ".join(str(x) for x in exp)), {"op": o, "impl": r, "spec_decode": sd, "expected": exp})
            else:
                bump("rv_spec_roundtrip_ok")
            nontrivial.add(("rv", name, xlen, sym or "ok", "neg" if imm < 0 else "pos", "odd" if imm % 2 else "even"))
        # the repo's own decoder must return the original instruction
        if not explained:
            # (for ECALL/EBREAK the repo's own convention rd = rs1 = x0 is what its decoder returns)
            rexp = (name, regs[0], regs[1], regs[2], regs[3], imm) if name in ("ECALL", "EBREAK") else exp
            want = "D %s %s %s %s %s %d" % rexp
            if repo_dec != want:
                if not repo_dec.startswith("D "):
                    rsym = "error"
                else:
                    g = repo_dec.split()
                    rsym = "wrong-instruction" if g[1] != exp[0] else ("register" if tuple(g[2:6]) != tuple(exp[1:5]) else
                                                                       ("imm-negative" if exp[5] < 0 else "imm"))
                grp = "fp" if fam == "fp" else rv_group(exp[0], rv_fmt_of.get(exp[0], "?"))
                ctx.violation("riscv-Decode:%s:%s" % (grp, rsym),
                              "riscv.Decode(%s) returns `%s`, the encoded instruction was `%s` (%s)" % (word, repo_dec, want, o),
                              {"op": o, "impl": r, "expected": want})
            else:
                bump("rv_repo_decode_ok")
        # correspondence with the encoder model
        if menc is not None and menc not in ("nospec", "norow"):
            ctx.corr["lines"] += 1
            if menc != "ok " + word and not explained:
                ctx.corr["diffs"] += 1
                unexplained.append((o, r, menc))
        if len(samples) < 6 and idx % 997 == 0:
            samples.append({"op": o, "impl": r, "spec_decode": sd})
    # rejected by the real encoder but accepted by the model is not a C17 violation (the property speaks about accepted
    # inputs); accepted by both must give the same word unless the oracle already attributed the input to a finding
    for idx, (o, r) in enumerate(zip(rv_ops, impl)):
        if model_enc and not r.startswith("ok ") and not r.startswith(("PANIC", "MISMATCH", "bad")):
            ctx.corr["lines"] += 1
    for o, r, menc in unexplained[:20]:
        ctx.proof["broken"].append({"theorem": "correspondence C17 riscv encoder model vs riscv.Encode",
                                    "why": "op %r: impl=%r model=%r and the specification decoder recovers the operands" % (o, r, menc)})
    # table rows / ranges that do not match the ISA (computed by the Lean model over the regenerated table)
    for name in bad_rows:
        ex = row_example.get(name)
        if ex is None:
            ctx.violation("riscv:table-row:%s" % name, "row %s of riscv._AOpContextTable does not carry the ISA encoding (no accepted input "
                          "demonstrates it in this run)" % name, {"row": name})
    for br in bad_ranges:
        nm = br.split(":")[0]
        bump("rv_bad_range_" + nm)
    dist["rv_over_rejected_classes"] = over_reject

    # =============================================================== LoongArch64
    la_bad_rows = []
    if m:
        _, fo, _ = ctx.run_bin(m, input_text="\n".join("lafmt " + r["name"] for r in la_rows) + "\nlarows\n")
        fl = fo.splitlines()
        fmtinfo = {}
        for r, l in zip(la_rows, fl):
            if l.startswith("fmt"):
                fmtinfo[r["name"]] = [tuple(x.split(":")[:2]) + (int(x.split(":")[2]),) for x in l.split()[1:]]
        la_bad_rows = [x for x in fl[-1].split(" ", 1)[1].split(",") if x] if fl and " " in fl[-1] else []
        la_ops = [o for o in ops if o.startswith("la ")] + gen_la_ops(la_rows, fmtinfo, ctx.rng, ctx.tier)
        seen = set()
        la_ops = [o for o in la_ops if not (o in seen or seen.add(o))]
        _, out, err = ctx.run_bin(h, input_text="\n".join(la_ops) + "\n")
        limpl = out.splitlines()
        if len(limpl) != len(la_ops):
            from lib.vlib import InfraError
            raise InfraError("harness output length %d != %d la ops\n%s" % (len(limpl), len(la_ops), err[-2000:]))
        evaluations += len(la_ops)
        dec_ops = sorted({"ladec " + r.split()[1] for r in limpl if r.startswith("ok ")})
        _, mo, _ = ctx.run_bin(m, input_text="\n".join(la_ops + dec_ops) + "\n")
        ml = mo.splitlines()
        if len(ml) != len(la_ops) + len(dec_ops):
            ctx.proof["broken"].append({"theorem": "wamodel_c17", "why": "model driver output length (loong64) %d != %d" % (len(ml), len(la_ops) + len(dec_ops))})
            ml = ml + ["?"] * (len(la_ops) + len(dec_ops) - len(ml))
        lspec = {d.split()[1]: r for d, r in zip(dec_ops, ml[len(la_ops):])}
        la_fmt_of = {r["name"]: r["fmt"] for r in la_rows}
        la_bad = set(la_bad_rows)
        la_row_example = {}
        unexplained = []
        la_over = {}
        for idx, (o, r) in enumerate(zip(la_ops, limpl)):
            f = o.split()
            name, regs, imm = f[1], f[2:6], int(f[6])
            # a plain-number operand (code / hint / op / msb / lsb) that is absent is the number 0
            ukinds = {sn for sn, k, w in fmtinfo.get(name, []) if k == "U"}
            regs = ["#0" if (t == "-" and sn in ukinds) else t for t, sn in zip(regs, ("rd", "rs1", "rs2", "rs3"))]
            menc = ml[idx]
            fmtn = la_fmt_of.get(name, "?")
            if r.startswith(("PANIC", "MISMATCH", "bad")):
                ctx.violation("loong64:harness:%s" % r.split()[0], "%s -> %s" % (o, r), {"op": o, "impl": r})
                continue
            ctx.corr["lines"] += 1
            if not r.startswith("ok "):
                bump("la_" + r.replace(" ", "_"))
                if menc.startswith("ok"):
                    la_over[fmtn] = la_over.get(fmtn, 0) + 1
                    bump("la_over_rejected")
                nontrivial.add(("la", name, "rej"))
                continue
            bump("la_accepted")
            parts = [x.strip() for x in r.split("|")]
            word = parts[0].split()[1]
            repo_dec, raw_in = parts[1], parts[2].split()[1:]
            if len(parts) > 3 and parts[3] != "cpu-dispatch-ok":
                ctx.violation("loong64:Encode:cpu-dispatch", "loong64.Encode(abi.LOONG64, %s, ...) does not return what EncodeLA64 returns (%s)" % (name, word),
                              {"op": o, "impl": r})
            sd = lspec.get(word, "?")
            sym = None
            if not sd.startswith("D "):
                sym = "undecodable"
            else:
                g = sd.split()
                if g[1] != name:
                    sym = "wrong-instruction"
                elif g[2:6] != list(regs):
                    sym = "register"
                elif int(g[6]) != imm:
                    sym = "imm"
            if sym:
                # why is the input outside what the ISA can express (the encoder model rejects it)?  None: it is a valid input
                reason = None if menc.startswith("ok") else la_invalid_reason(name, regs, imm, fmtinfo.get(name, []))
                sym = {None: "wrong-encoding"}.get(reason, reason) if reason != "other" else sym
            if sym:
                if name in la_bad:
                    key = "loong64:table-row:%s" % name
                    la_row_example.setdefault(name, o)
                elif sym in LA_GROUPED:
                    key = "loong64:%s" % sym
                elif fmtn == "cd_2F":
                    key = "loong64:cd_2F:wrong-encoding"          # fk is taken from Rs1: Rs2 is never read
                else:
                    key = "loong64:%s:%s" % (fmtn, sym)
                ctx.violation(key, "loong64.EncodeLA64 accepts `%s` and produces %s, which the specification decoder reads as `%s`" % (o, word, sd),
                              {"op": o, "impl": r, "spec_decode": sd})
            else:
                bump("la_spec_roundtrip_ok")
                # the repo's own decoder must return the original instruction (raw abi.RegType numbers)
                want = "D %s %s %d" % (name, " ".join(raw_in), imm)
                if repo_dec != want:
                    rs = "error" if not repo_dec.startswith("D ") else ("wrong-instruction" if repo_dec.split()[1] != name else
                                                                        ("register" if repo_dec.split()[2:6] != raw_in else "imm"))
                    ctx.violation("loong64-Decode:%s:%s" % (fmtn, rs), "loong64.Decode(%s) returns `%s`, the encoded instruction was `%s` (%s)" % (
                        word, repo_dec, want, o), {"op": o, "impl": r, "expected": want})
                else:
                    bump("la_repo_decode_ok")
                if menc != "ok " + word and name not in la_bad:   # (a row with the wrong format has its own finding)
                    ctx.corr["diffs"] += 1
                    unexplained.append((o, r, menc))
            nontrivial.add(("la", name, sym or "ok", "neg" if imm < 0 else "pos", imm % 4))
            if len(samples) < 12 and idx % 1499 == 0:
                samples.append({"op": o, "impl": r, "spec_decode": sd})
        for o, r, menc in unexplained[:20]:
            ctx.proof["broken"].append({"theorem": "correspondence C17 loong64 encoder model vs loong64.EncodeLA64",
                                        "why": "op %r: impl=%r model=%r and the specification decoder recovers the operands" % (o, r, menc)})
        for name in la_bad_rows:
            if name not in la_row_example:
                ctx.violation("loong64:table-row:%s" % name, "row %s of loong64._AOpContextTable does not carry the ISA encoding/format "
                              "(no accepted input demonstrates it in this run)" % name, {"row": name})
        dist["la_over_rejected_formats"] = la_over

    # =============================================================== ARM64
    _, a64, _ = ctx.run_bin(h, args=["dump", "arm64"])
    try:
        alast = int(a64.split()[1])
    except Exception:
        alast = 0
    a_ops = ["a64 %d" % i for i in range(0, alast + 2)]
    _, out, _ = ctx.run_bin(h, input_text="\n".join(a_ops) + "\n")
    a_acc = [(o, r) for o, r in zip(a_ops, out.splitlines()) if r.startswith("ok")]
    evaluations += len(a_ops)
    dist["arm64_mnemonics_tried"] = len(a_ops)
    dist["arm64_accepted"] = len(a_acc)
    ctx.notes.append("arm64: EncodeARM64 rejected (panic TODO) all %d mnemonic numbers tried; accepted=%d - the ARM64 part of the property is vacuous on this tree" % (len(a_ops), len(a_acc)))
    for o, r in a_acc[:3]:
        # the encoder started to accept something: there is no ARM64 specification decoder in this check yet
        ctx.proof["broken"].append({"theorem": "arm64 coverage", "why": "arm64.Encode now accepts %r -> %r but C17 has no ARM64 reference; extend the check" % (o, r)})


    # =============================================================== x86-64 (exploration)
    _, xd, _ = ctx.run_bin(h, args=["dump", "x64"])
    xnames = [l.split()[2] for l in xd.splitlines() if l.startswith("as ")]
    x_ops = [o for o in ops if o.startswith("x64 ")] + gen_x64_ops(xnames, ctx.rng, ctx.tier)
    seen = set()
    x_ops = [o for o in x_ops if not (o in seen or seen.add(o))]
    _, out, err = ctx.run_bin(h, input_text="\n".join(x_ops) + "\n")
    ximpl = out.splitlines()
    if len(ximpl) != len(x_ops):
        from lib.vlib import InfraError
        raise InfraError("harness output length %d != %d x64 ops\n%s" % (len(ximpl), len(x_ops), err[-2000:]))
    evaluations += len(x_ops)
    blob = bytearray()
    starts = {}
    for i, r in enumerate(ximpl):
        if r.startswith("ok "):
            code = bytes.fromhex(r.split()[1])
            starts[i] = (len(blob), len(code))
            blob += code + b"\x90" * 16           # nop sled: the disassembler resynchronises before the next instruction
    binf = os.path.join(ctx.tmp, "x64.bin")
    with open(binf, "wb") as fb:
        fb.write(bytes(blob))
    od = subprocess.run(["objdump", "-D", "-b", "binary", "-m", "i386:x86-64", "-M", "intel", "--insn-width=16", binf],
                        stdout=subprocess.PIPE, stderr=subprocess.STDOUT, text=True)
    by_addr = {}
    for l in od.stdout.splitlines():
        mm = re.match(r"^\s*([0-9a-f]+):\t([0-9a-f ]+?)\s*\t(.*)$", l)
        if mm:
            by_addr[int(mm.group(1), 16)] = (len(mm.group(2).split()), mm.group(3))
    if starts and not by_addr:
        from lib.vlib import InfraError
        raise InfraError("objdump produced no disassembly:\n" + od.stdout[:500])
    x_accept_forms = {}
    for i, (o, r) in enumerate(zip(x_ops, ximpl)):
        f = o.split()
        name, toks = f[1], f[2:5]
        form = x64_form(toks)
        if r.startswith(("PANIC", "MISMATCH", "bad")):
            ctx.violation("x64:harness:%s" % r.split()[0], "%s -> %s" % (o, r), {"op": o, "impl": r})
            continue
        if not r.startswith("ok "):
            bump("x64_" + r.replace(" ", "_"))
            continue
        bump("x64_accepted")
        st, ln = starts[i]
        dl, dtext = by_addr.get(st, (0, "(no line)"))
        exp = x64_expected(name, toks)
        got = x64_parse_objdump(dtext)
        sym = x64_equal(exp, got, st, ln)
        if sym is None and dl != ln:
            sym = "length"
        x_accept_forms[(name, form)] = x_accept_forms.get((name, form), 0) + 1
        nontrivial.add(("x64", name, form, sym or "ok"))
        if sym:
            ctx.violation(x64_key(name, form, sym, toks, exp, got),
                          "x64.Encode accepts `%s` and produces %s, which objdump disassembles as `%s`" % (o, r.split()[1], " ".join(dtext.split())),
                          {"op": o, "impl": r, "objdump": dtext})
        else:
            bump("x64_objdump_roundtrip_ok")
            # the repo's vendored x86asm decoder on the same bytes (Intel syntax): same instruction, same length
            rd = r.split("|", 1)[1].strip()
            mm = re.match(r"^D len=(\d+) (.*)$", rd)
            if not mm:
                ctx.violation("x64-Decode:%s:error" % name, "x64.Decode fails on %s produced for `%s`: %s" % (r.split()[1], o, rd), {"op": o, "impl": r})
            else:
                txt = mm.group(2).replace("_", " ")
                for a, b in (("xmmword ptr", "XMMWORD PTR"), ("qword ptr", "QWORD PTR"), ("dword ptr", "DWORD PTR"), ("word ptr", "WORD PTR"), ("byte ptr", "BYTE PTR")):
                    txt = txt.replace(a, b)
                txt = re.sub(r"(?<![A-Z] )\bptr \[", "[", txt).replace(", ", ",")
                f2 = txt.split(None, 1)
                got2 = x64_parse_objdump(f2[0] + ("    " + f2[1] if len(f2) > 1 else ""))
                # x86asm prints branch targets as .+rel
                sym2 = None if (got2 and got2[0] in ("call", "jmp") and exp[1] and exp[1][0][0] == "imm") else x64_equal(exp, got2, st, ln, 1 << 32)   # (x86asm prints a negative disp32 as +0xffffff7f)
                if sym2 is None and int(mm.group(1)) != ln:
                    sym2 = "length"
                if sym2:
                    ctx.violation("x64-Decode:%s:%s" % (name, sym2), "x64.Decode(%s) prints `%s` for the instruction `%s` (objdump: `%s`)" % (
                        r.split()[1], mm.group(2), o, " ".join(dtext.split())), {"op": o, "impl": r})
                else:
                    bump("x64_repo_decode_ok")
        if len(samples) < 16 and i % 701 == 0:
            samples.append({"op": o, "impl": r, "objdump": " ".join(dtext.split())})
    # bonus: the Lean REX/ModRM/SIB/disp model against the real bytes of `mov r, [base+disp]` / `mov [base+disp], r`
    if m:
        rm_ops, rm_real = [], []
        for o, r in zip(x_ops, ximpl):
            f = o.split()
            if f[1] != "mov" or not r.startswith("ok ") or f[4] != "-":
                continue
            a, b = f[2].split(":"), f[3].split(":")
            if a[0] == "reg" and b[0] == "mem":
                opc, regn, memop = "8b", a[1], b
            elif a[0] == "mem" and b[0] == "reg":
                opc, regn, memop = "89", b[1], a
            else:
                continue
            if memop[2] in ("rip", "-") or regn not in X64_FAMILY or X64_SIZE[regn] < 4:
                continue
            if {"dword": 4, "qword": 8}.get(memop[1]) != X64_SIZE[regn]:
                continue
            rm_ops.append("x64rm %s %d %d %d %s" % (opc, 1 if X64_SIZE[regn] == 8 else 0, X64_FAMILY[regn], X64_FAMILY[memop[2]], memop[3]))
            rm_real.append((o, r.split()[1]))
        if rm_ops:
            _, mo, _ = ctx.run_bin(m, input_text="\n".join(rm_ops) + "\n")
            ml = mo.splitlines()
            ctx.corr["lines"] += len(rm_ops)
            for (o, real), q, ans in zip(rm_real, rm_ops, ml):
                qf = q.split()
                want_back = "%s %s %s %s" % (qf[2], qf[3], qf[4], qf[5])
                model_hex, back = [x.strip() for x in ans.split("|")] if "|" in ans else (ans, "?")
                if model_hex != real or back != want_back:
                    ctx.corr["diffs"] += 1
                    ctx.proof["broken"].append({"theorem": "correspondence C17 x64 ModRM/SIB model vs x64.Encode",
                                                "why": "op %r: impl=%s model=%s model-decode=%s" % (o, real, model_hex, back)})
                    break
            bump("x64_modrm_model_lines", len(rm_ops))
    dist["x64_accepted_forms"] = len(x_accept_forms)
    dist["x64_accepted_mnemonics"] = sorted({k[0] for k in x_accept_forms})

    cov = {
        "evaluations": evaluations,
        "distinct_nontrivial": len(nontrivial),
        "rule": "one evaluation = one (mnemonic, register tuple, immediate, xlen) pushed through the real Encode; non-trivial = distinct "
                "(arch, mnemonic, xlen, outcome class, immediate sign, alignment) tuples; every register number in every slot, every "
                "boundary immediate of the format (+-1, +-2 around each power of two, sign limits, just outside, misaligned)",
        "samples": samples,
        "distribution": dist,
        "riscv_rows_not_matching_isa": bad_rows,
        "riscv_ranges_not_matching_isa": bad_ranges,
        "loong64_rows_not_matching_isa": la_bad_rows,
    }
    return ctx.finish("proof", cov,
                      assumptions=["machine words are naturals < 2^32; the encoder's OR/shift packing is proved equal to positional arithmetic",
                                   "FP rounding mode is not expressible in abi.AsArgument: a word with rm = RNE(0) or DYN(7) counts as 'no rm given'",
                                   "ECALL/EBREAK: the repo's convention rd = rs1 = x0 is canonicalised to 'no operands'"],
                      trusted_base=["hand-written ISA reference tables in WaVerif/Model/C17Rv.lean (RISC-V unprivileged ISA, RV32/64G listings)",
                                    "harness/c17 + hooks (table dump, operand text <-> abi.RegType)"])
