"""C22 — Computed text diffs apply back to the target text."""
import os
import re

PROP = "C22"
META = {
    "category": "proof",
    "text": "Lean theorems over a hand-written model of internal/lsp/diff (lcs.toDiffs, the rune->byte offset conversion of diffRunes, "
            "Strings/Bytes, validate/SortEdits/Apply): under the run-time-checked contract ValidLcs on the diagonals returned by the LCS "
            "search, toDiffs yields diffs whose application to a gives b (toDiffs_correct); for well-formed UTF-8 inputs the byte edits are "
            "sorted, non-overlapping, on rune boundaries and Apply(a, Strings(a,b)) = b (diffRunes_bytes / strings_apply); Apply does not "
            "depend on the order in which distinct edits are supplied. The model is tied to the Go code by a correspondence run (same pairs / "
            "edit lists through the real Strings/Bytes/Apply/lineEdits/ToUnified and the compiled model, which receives the diagonals the "
            "real search produced), and the property's own oracle (Apply(a,Strings(a,b))==b, edit well-formedness, a reference patch "
            "interpreter applied to ToUnified's text, '-' lines == independently computed changed lines) runs on the real code's answers.",
    "note": "Partial in two ways: (1) the LCS search (lcs/old.go) is not modelled; it enters as the contract ValidLcs, checked on every "
            "generated pair; minimality of the edit script is not part of the property. (2) the unified-diff part (lineEdits, hunks, "
            "rendering) is modelled and corresponds, and the model self-checks its reference hunk interpreter on every case, but "
            "unified_patch is NOT proved (statement kept as UnifiedPatchStatement); it is decided by the oracle (exploration). "
            "Trusted: Lean kernel; Go's utf8/strings/sort (the model re-implements DecodeRune's RuneError convention, validated by the "
            "correspondence on invalid input); python reference patch interpreter.",
    "technique": "Lean 4 proof over hand-written model + differential correspondence + independent oracle; LCS search as run-time-checked contract",
}
REQUIRED = ["toDiffs_correct", "diffRunes_bytes", "strings_apply", "apply_order_independent"]


def hx(b):
    return b.hex() or "-"


def unhx(s):
    return b"" if s == "-" else bytes.fromhex(s)


def is_valid_utf8(b):
    try:
        b.decode("utf-8")
        return True
    except UnicodeDecodeError:
        return False


# --------------------------------------------------------------------------- reference semantics
def ref_apply(src, edits):
    """diff.Apply's documented semantics, written independently: stable sort by (start,end); reject out-of-bounds
    and overlapping edits; splice."""
    es = sorted(enumerate(edits), key=lambda t: (t[1][0], t[1][1], t[0]))
    last = 0
    out = []
    for _, (s, e, new) in es:
        if not (0 <= s <= e <= len(src)):
            return "err:oob"
        if s < last:
            return "err:overlap"
        out.append(src[last:s]); out.append(new)
        last = e
    out.append(src[last:])
    return b"".join(out)


def split_lines(t):
    return t.splitlines(keepends=True) if False else [l for l in re.findall(rb"[^\n]*\n|[^\n]+", t)]


def line_index(starts, off):
    """index of the line containing byte offset off (starts = offsets of line starts)"""
    lo, hi = 0, len(starts) - 1
    while lo < hi:
        mid = (lo + hi + 1) // 2
        if starts[mid] <= off:
            lo = mid
        else:
            hi = mid - 1
    return lo


def changed_old_lines(a, edits):
    """the old lines a faithful line-level rendering has to list as removed: every line sharing a byte with a
    replaced range, the line an edit starts or ends in the middle of, and the following line when the replacement
    text (completed to the left to a line start) does not end in a newline"""
    lines = split_lines(a)
    starts, o = [], 0
    for l in lines:
        starts.append(o); o += len(l)
    ch = set()
    if not lines:
        return ch
    # edits that touch (next starts where the previous ends) act as one replacement
    merged = []
    for (s, e, new) in edits:
        if merged and merged[-1][1] == s:
            merged[-1] = (merged[-1][0], e, merged[-1][2] + new)
        else:
            merged.append((s, e, new))
    for (s, e, new) in merged:
        for i in range(len(lines)):
            if starts[i] < e and starts[i] + len(lines[i]) > s:
                ch.add(i)
        if s > 0 and a[s - 1:s] != b"\n":
            ch.add(line_index(starts, s - 1))
        if e > 0 and a[e - 1:e] != b"\n" and e <= len(a):
            ch.add(line_index(starts, e - 1))
        ls = a.rfind(b"\n", 0, s) + 1
        newp = a[ls:s] + new
        if e < len(a) and newp and not newp.endswith(b"\n"):
            ch.add(line_index(starts, e))
    return ch


HUNK_RE = re.compile(rb"@@ -(\d+)(?:,(\d+))? \+(\d+)(?:,(\d+))? @@\n")
NONL = b"\\ No newline at end of file\n"


def parse_unified(text):
    """standard unified format -> list of (fl, fc, tl, tc, [(kind, content)])"""
    if text == b"":
        return []
    if not text.startswith(b"--- a\n+++ b\n"):
        raise ValueError("missing file header")
    pos = len(b"--- a\n+++ b\n")
    hunks = []
    while pos < len(text):
        m = HUNK_RE.match(text, pos)
        if not m:
            raise ValueError("bad hunk header at %d: %r" % (pos, text[pos:pos + 30]))
        fl, fc, tl, tc = int(m.group(1)), int(m.group(2) or 1), int(m.group(3)), int(m.group(4) or 1)
        pos = m.end()
        body = []
        while pos < len(text) and not text.startswith(b"@@ ", pos):
            k = text[pos:pos + 1]
            if k not in b" -+" or k == b"":
                raise ValueError("bad line kind %r at %d" % (k, pos))
            nl = text.index(b"\n", pos)
            content = text[pos + 1:nl + 1]
            pos = nl + 1
            if text.startswith(NONL, pos):
                content = content[:-1]
                pos += len(NONL)
            body.append((k, content))
        hunks.append((fl, fc, tl, tc, body))
    return hunks


def ref_patch(a, text, strict_new=True):
    """apply a unified diff to a (standard semantics).  Returns (result, removed old line indices, problems)."""
    old = split_lines(a)
    hunks = parse_unified(text)
    out, removed, problems = [], set(), []
    pos = 0
    interior_context_seen = False
    for hi, (fl, fc, tl, tc, body) in enumerate(hunks):
        nf = sum(1 for k, _ in body if k in b" -")
        nt = sum(1 for k, _ in body if k in b" +")
        if nf != fc or nt != tc:
            problems.append(("count", hi, "header says -%d +%d lines, body has -%d +%d" % (fc, tc, nf, nt)))
        start = fl - 1 if fc > 0 else fl
        if start < pos:
            problems.append(("overlap", hi, "hunk starts at old line %d, previous ended at %d" % (start, pos)))
            start = pos
        out += old[pos:start]
        pos = start
        nstart = len(out)
        want_tl = nstart + 1 if tc > 0 else nstart
        if tl != want_tl:
            problems.append(("newstart-after-join" if interior_context_seen else "newstart", hi,
                             "hunk %d header says new line %d, the text so far puts it at %d" % (hi, tl, want_tl)))
        seen_change, pending_eq = False, False
        for k, c in body:
            if k == b"+":
                out.append(c)
                if pending_eq:
                    interior_context_seen = True
                seen_change = True
            else:
                if pos >= len(old) or old[pos] != c:
                    problems.append(("context", hi, "line %r does not match old line %d" % (c[:30], pos)))
                    return None, removed, problems
                if k == b"-":
                    removed.add(pos)
                    if pending_eq:
                        interior_context_seen = True
                    seen_change = True
                else:
                    out.append(c)
                    if seen_change:
                        pending_eq = True
                pos += 1
    out += old[pos:]
    return b"".join(out), removed, problems


# --------------------------------------------------------------------------- generators
WORDS = [b"func", b"main", b"{", b"}", b"x", b":=", b"1", b"println", b"(", b")", b"return", b"if", b"else", b"for", b"a", b"b"]
MB = ["é", "ü", "你", "好", "😀", "ß", "→", "x"]


def gen_text(rng, kind, nlines):
    ls = []
    for _ in range(nlines):
        if kind == "ascii":
            ls.append(b" ".join(rng.choice(WORDS) for _ in range(rng.randrange(0, 6))))
        elif kind == "mb":
            ls.append("".join(rng.choice(MB + ["a", " "]) for _ in range(rng.randrange(0, 8))).encode())
        else:
            ls.append(bytes(rng.choice([97, 98, 10, 32, 0xc3, 0xa9, 0xff, 0x80, 0xe4, 0xbd, 0xa0, 0xf0, 0x9f, 0xed, 0xa0, 0xc0]) for _ in range(rng.randrange(0, 6))))
    eol = b"\r\n" if rng.random() < 0.1 else b"\n"
    t = eol.join(ls)
    if ls and rng.random() < 0.7:
        t += eol
    return t


def mutate(rng, t, kind, nmut):
    """edit the text at rune level (valid kinds) so the pair stays well-formed"""
    if kind == "invalid":
        s = list(t)
        for _ in range(nmut):
            p = rng.randrange(0, len(s) + 1)
            r = rng.random()
            if r < 0.4:
                s[p:p] = [rng.choice([0xff, 0x80, 0xc3, 97, 10, 0xe4, 0xa9])]
            elif r < 0.7 and s:
                del s[min(p, len(s) - 1)]
            elif s:
                s[min(p, len(s) - 1)] = rng.choice([0xff, 98, 0xbf, 10])
        return bytes(s)
    s = list(t.decode("utf-8"))
    pool = MB if kind == "mb" else ["a", "b", "X", " ", "\n", "(", "1"]
    cluster = rng.randrange(0, len(s) + 1)
    for _ in range(nmut):
        p = rng.randrange(0, len(s) + 1) if rng.random() < 0.5 else min(len(s), max(0, cluster + rng.randrange(-4, 5)))
        r = rng.random()
        if r < 0.35:
            s[p:p] = [rng.choice(pool)]
        elif r < 0.65 and s:
            del s[min(p, len(s) - 1)]
        elif r < 0.85 and s:
            s[min(p, len(s) - 1)] = rng.choice(pool)
        elif r < 0.93:
            s[p:p] = list(rng.choice(["new line\n", "你好\n", "\n"]) if kind == "mb" else rng.choice(["new line\n", "\n", "x := 1\n"]))
        elif s:
            q = min(len(s), p + rng.randrange(1, 12))
            del s[p:q]
    return "".join(s).encode()


def gen_pairs(ctx):
    rng = ctx.rng
    fixed = [(b"", b""), (b"", b"a\n"), (b"a\n", b""), (b"a", b"a\n"), (b"a\n", b"a"), (b"a\nb\nc\n", b"a\nc\n"), (b"abc", b"abd"),
             ("é".encode(), "è".encode()), ("a你b".encode(), "a好b".encode()), ("😀".encode(), "😁".encode()),
             (b"x\r\ny\r\n", b"x\r\nz\r\n"), (b"same", b"same"), ("é".encode(), b"e")]
    pairs = [(a, b, "fixed") for a, b in fixed]
    n = 260 if ctx.tier == "quick" else 4000
    for i in range(n):
        kind = ["ascii", "ascii", "mb", "mb"][i % 4]
        a = gen_text(rng, kind, rng.choice([0, 1, 2, 3, 5, 8, 13, 30]))
        r = rng.random()
        if r < 0.75:
            b = mutate(rng, a, kind, rng.choice([1, 1, 2, 3, 5, 9]))
        elif r < 0.85:
            b = gen_text(rng, kind, rng.choice([0, 1, 3, 8]))               # unrelated
        else:
            # many differences: hits the depth limit of the two-sided search
            alpha = "ab" if kind == "ascii" else "aé你"
            a = "".join(rng.choice(alpha + "\n") for _ in range(rng.choice([120, 200, 400]))).encode()
            b = "".join(rng.choice(alpha + "\n") for _ in range(rng.choice([120, 200, 400]))).encode()
            kind += "-limit"
        if rng.random() < 0.05:
            a, b = b, a
        pairs.append((a, b, kind))
    # LARGE-distance pairs (> 100 edits apart): the two-sided search gives up at its depth limit and stitches a forward
    # and a backward partial result through lcs.fix()/overlap().  Shape: a motif W occurs once in one text, behind a short
    # run (so the forward search still reaches it); the other text starts with a prefix of W and ends with a suffix of W
    # that overlap inside W, separated by a long run of unrelated text.  The partial results then claim overlapping parts
    # of W in ONE text only, which is what overlap() has to trim.  All four symmetries (swap, reverse) are generated.
    def far_pair(mb, W, i, j, m_, n_, single, sym):
        if mb:
            fa, fb = ["α", "β", "γ"], ["д", "ж", "я"]
        else:
            fa, fb = ["x", "p", "q"], ["y", "r", "s"]

        def filler(al, k):
            return [al[0]] * k if single else [rng.choice(al) for _ in range(k)]
        before = W[:i] + filler(fa, n_) + W[j:]
        after = filler(fb, m_) + W
        if sym & 1:
            before, after = after, before
        if sym & 2:
            before, after = before[::-1], after[::-1]
        return "".join(before).encode(), "".join(after).encode(), ("mb-far" if mb else "ascii-far")
    for sym in range(4):
        pairs.append(far_pair(False, list("MMMMMN"), 5, 2, 45, 60, True, sym))
        pairs.append(far_pair(True, list("中中中中é"), 4, 1, 30, 90, True, sym))
        pairs.append(far_pair(False, list("NMOOO"), 4, 2, 19, 100, False, sym))
    nfar = 72 if ctx.tier == "quick" else 2000
    for it in range(nfar):
        mb = it % 3 == 0
        mot = ["中", "é", "ü"] if mb else ["M", "N", "O"]
        L = rng.randrange(3, 11)
        W = [mot[0]] * (L - 1) + [mot[1]] if rng.random() < 0.5 else [rng.choice(mot) for _ in range(L)]
        i_ = rng.randrange(2, L + 1)
        j_ = rng.randrange(0, i_)
        m_ = rng.randrange(8, 49)
        n_ = rng.randrange(max(55, 108 - m_), 140)
        a_, b_, k_ = far_pair(mb, W, i_, j_, m_, n_, rng.random() < 0.5, rng.randrange(4))
        if rng.random() < 0.3:
            # embed in lines so that the unified rendering has several hunks to get right as well
            a_ = b"head\n" + a_.replace("x".encode(), b"x\n", 3) + b"\ntail\n"
            b_ = b"head\n" + b_ + b"\ntail\n"
        pairs.append((a_, b_, k_))
    invalid = [(b"\xff a", b"\xff b", "invalid"), (b"a", b"\xff", "invalid"), (b"\xffa", b"a", "invalid"), (b"\xc3", b"\xc3\xa9", "invalid"),
               (b"a\xed\xa0\x80b", b"ab", "invalid"), (b"\xc0\x80", b"\x00", "invalid")]
    m = 60 if ctx.tier == "quick" else 1000
    for i in range(m):
        a = gen_text(rng, "invalid" if rng.random() < 0.6 else "mb", rng.choice([1, 2, 4]))
        b = mutate(rng, a, "invalid", rng.choice([1, 2, 3]))
        if is_valid_utf8(a) and is_valid_utf8(b):
            b += b"\xff"
        invalid.append((a, b, "invalid"))
    return pairs, invalid


def gen_edit_lists(ctx):
    rng = ctx.rng
    res = []
    n = 260 if ctx.tier == "quick" else 4000
    for i in range(n):
        kind = ["ascii", "mb"][i % 2]
        src = gen_text(rng, kind, rng.choice([0, 1, 2, 4, 8, 12, 40]))
        L = len(src)
        mode = rng.choice(["valid", "valid", "valid", "valid", "shuffled", "malformed"])
        k = rng.choice([0, 1, 1, 2, 3, 5])
        cuts = sorted(rng.randrange(0, L + 1) for _ in range(2 * k))
        edits = []
        lines = split_lines(src)
        for j in range(k):
            s, e = cuts[2 * j], cuts[2 * j + 1]
            r = rng.random()
            if r < 0.25:
                e = s                                            # insertion
            elif r < 0.45 and lines:                             # whole-line edit
                li = rng.randrange(len(lines))
                s = sum(len(x) for x in lines[:li]); e = s + len(lines[li])
                if edits and s < edits[-1][1]:
                    continue
            new = rng.choice([b"", b"X", b"new\n", b"a\nb\n", b"q\nr", "é".encode(), b"\n"])
            if edits and s < edits[-1][1]:
                continue
            edits.append((s, e, new))
        if mode == "shuffled":
            rng.shuffle(edits)
        elif mode == "malformed" and True:
            r = rng.random()
            if r < 0.3:
                edits.append((L + rng.randrange(1, 4), L + 5, b"z"))
            elif r < 0.5:
                edits.append((-1, 0, b"z"))
            elif r < 0.7 and L >= 2:
                edits += [(0, L, b"p"), (1, L - 1, b"q")]
            elif L >= 1:
                edits.append((rng.randrange(1, L + 1), 0, b"w"))
            rng.shuffle(edits)
        c = rng.choice([1, 2, 3, 3, 5])
        res.append((src, edits, c, mode))
    # zero context lines (labelled stream: headers of hunks with an empty side)
    for i in range(24 if ctx.tier == "quick" else 300):
        src = gen_text(rng, "ascii", rng.choice([1, 3, 6, 12]))
        lines = split_lines(src)
        li = rng.randrange(len(lines) + 1)
        s_ = sum(len(x) for x in lines[:li])
        e_ = s_ + (len(lines[li]) if li < len(lines) and rng.random() < 0.6 else 0)
        res.append((src, [(s_, e_, rng.choice([b"", b"X\n", b"p\nq\n"]))], 0, "zero-context"))
    # many insertions at one point, supplied after a later edit (so validate has to sort): the order given must be kept,
    # which only a STABLE sort guarantees (Go's unstable sort is insertion sort below 12 elements, hence 14..40 here)
    for i in range(6 if ctx.tier == "quick" else 60):
        src = gen_text(rng, "ascii", rng.choice([2, 4, 8])) + b"tail\n"
        p_ = rng.randrange(0, len(src) - 4)
        ins = [(p_, p_, bytes([65 + (j * 7 + i) % 26, 48 + j % 10])) for j in range(rng.randrange(14, 41))]
        res.append((src, [(len(src) - 2, len(src) - 1, b"Z")] + ins, 3, "same-point-many"))
    # insertions at the same point (order provided must be kept)
    res.append((b"ab\n", [(1, 1, b"X"), (1, 1, b"Y")], 3, "same-point"))
    res.append((b"ab\n", [(1, 1, b"Y"), (1, 1, b"X")], 3, "same-point"))
    return res


def joined_probe():
    src = b"".join(b"l%d\n" % i for i in range(1, 31))

    def off(line):
        return sum(len(b"l%d\n" % i) for i in range(1, line))
    edits = [(off(2), off(2) + 2, b"X2"), (off(6), off(6) + 2, b"X6"), (off(25), off(25) + 3, b"X25")]
    return src, edits


def edits_arg(edits):
    return ",".join("%d:%d:%s" % (s, e, hx(n)) for s, e, n in edits) or "-"


def parse_edits(s):
    if s == "-":
        return []
    out = []
    for x in s.split(","):
        a, b, h = x.split(":")
        out.append((int(a), int(b), unhx(h)))
    return out


def fields(line, names):
    """'Gx Ey Az' -> dict"""
    parts = line.split(" ")
    if len(parts) != len(names) or any(not p.startswith(n) for p, n in zip(parts, names)):
        return None
    return {n: p[len(n):] for p, n in zip(parts, names)}


def check_unified(ctx, a, edits, result, utext_hex, what, replay, dist, ctxlines):
    """oracle for ToUnified's text: patch(a, text) == result, hunk bookkeeping, '-' lines == changed lines"""
    try:
        text = unhx(utext_hex)
        got, removed, problems = ref_patch(a, text)
    except ValueError as ex:
        ctx.violation("unified:unparsable", "%s: unified output does not parse: %s" % (what, ex), replay)
        return
    if ctxlines == 0 and any(k == "count" for k, _, _ in problems):
        # root cause: String() prints "-l" / "+l" (count omitted = 1) for a side with no lines unless l == 1
        ctx.violation("unified:zero-context-header", "%s: %s (a hunk side without lines is printed as a bare line number, "
                      "which the format reads as one line)" % (what, [m_ for k, _, m_ in problems if k == "count"][0]), replay)
        return
    for kind, hi, msg in problems:
        if kind == "newstart-after-join":
            ctx.violation("unified:new-start-line-after-joined-edits",
                          "%s: %s (toUnified does not advance the new-file line counter over the context lines that join two edits in one hunk)" % (what, msg), replay)
        else:
            ctx.violation("unified:" + kind, "%s: %s" % (what, msg), replay)
    if got is None:
        return
    if got != result:
        ctx.violation("unified:patch-result-differs", "%s: applying the unified diff gives %r..., Apply gives %r..." % (what, got[:60], result[:60]), replay)
    want_removed = changed_old_lines(a, edits)
    if removed != want_removed:
        ctx.violation("unified:wrong-changed-lines", "%s: unified diff removes old lines %s, the edits change lines %s" % (
            what, sorted(removed)[:20], sorted(want_removed)[:20]), replay)
    dist["unified_checked"] = dist.get("unified_checked", 0) + 1
    dist["hunks"] = dist.get("hunks", 0) + text.count(b"\n@@ ")


def run(ctx):
    h = ctx.build_harness("c22")
    ctx.prove(required=REQUIRED)
    m = ctx.build_model("c22")
    dist = {"pairs": 0, "invalid_pairs": 0, "edit_lists": 0, "apply_ok": 0, "apply_err": 0, "depth_limit_pairs": 0, "depth_limit_by_kind": {}, "over_100_unmatched_pairs": 0, "kinds": {}}
    nontrivial = set()
    samples = []
    evaluations = 0

    # which behaviour does the tree have in the "joiners" branch of toUnified?  (the model carries both)
    psrc, pedits = joined_probe()
    _, pout, _ = ctx.run_bin(h, input_text="A %s %s 3\n" % (hx(psrc), edits_arg(pedits)))
    pu = unhx(pout.strip().split(" U")[-1]) if " U" in pout else b""
    fix = "1" if b"@@ -22,7 +22,7 @@" in pu else "0"
    ctx.notes.append("toUnified joiners branch advances the new-file line counter: %s" % ("yes" if fix == "1" else "no (pinned behaviour)"))

    pairs, invalid = gen_pairs(ctx)
    cdir = os.path.join(os.path.dirname(os.path.dirname(os.path.abspath(__file__))), "corpus", "C22")
    corpus_pairs = []
    if os.path.isdir(cdir):
        for fn in sorted(os.listdir(cdir)):
            if fn.endswith(".pairs"):
                for ln in open(os.path.join(cdir, fn)).read().split():
                    a, b = ln.split(":")
                    corpus_pairs.append((unhx(a), unhx(b), "corpus" if is_valid_utf8(unhx(a)) and is_valid_utf8(unhx(b)) else "invalid"))
    allpairs = corpus_pairs + pairs + invalid
    elists = gen_edit_lists(ctx)
    elists.insert(0, (psrc, pedits, 3, "joined-probe"))
    # X ops: toDiffs on arbitrary diagonals (valid chains and broken ones)
    xops = []
    for i in range(150 if ctx.tier == "quick" else 2000):
        alen, blen = ctx.rng.randrange(0, 30), ctx.rng.randrange(0, 30)
        ds, x, y = [], 0, 0
        for _ in range(ctx.rng.randrange(0, 5)):
            x += ctx.rng.randrange(0, 4); y += ctx.rng.randrange(0, 4)
            ln = ctx.rng.randrange(0, 5)
            ds.append((x, y, ln)); x += ln; y += ln
        if ctx.rng.random() < 0.2:
            ctx.rng.shuffle(ds)
        xops.append("X %d %d %s" % (alen, blen, ",".join("%d:%d:%d" % d for d in ds) or "-"))

    hops = ["D %s %s" % (hx(a), hx(b)) for a, b, _ in allpairs] + \
           ["A %s %s %d" % (hx(s), edits_arg(es), c) for s, es, c, _ in elists] + xops
    _, out, _ = ctx.run_bin(h, input_text="\n".join(hops) + "\n", timeout=1200)
    impl = out.splitlines()
    impl += ["<missing>"] * (len(hops) - len(impl))

    mops = []
    # ---- D ops: oracle
    for i, (a, b, kind) in enumerate(allpairs):
        r = impl[i]
        f = fields(r, ["G", "E", "A", "U", "C", "H"])
        replay = {"before_hex": hx(a), "after_hex": hx(b), "impl": r[:600]}
        valid = is_valid_utf8(a) and is_valid_utf8(b)
        if kind == "invalid" or not valid:
            dist["invalid_pairs"] += 1
        else:
            dist["pairs"] += 1
        dist["kinds"][kind] = dist["kinds"].get(kind, 0) + 1
        evaluations += 1
        if f is None:
            key = ("strings:invalid-utf8:" if not valid else "strings:") + r.split()[0][:40]
            ctx.violation(key, "Strings(%r, %r) -> %s" % (a[:40], b[:40], r[:200]), replay)
            mops.append("D %s %s - %s" % (hx(a), hx(b), fix))
            continue
        mops.append("D %s %s %s %s" % (hx(a), hx(b), f["G"], fix))
        if not f["C"].startswith("ok"):
            ctx.violation("lcs:contract-broken:" + f["C"].split("@")[0], "the LCS search returned diagonals %s for (%r, %r): %s" % (f["G"][:100], a[:40], b[:40], f["C"]), replay)
        try:
            edits = parse_edits(f["E"])
        except Exception:
            ctx.violation("strings:unparsable-edits", r[:200], replay); continue
        if f["H"] == "1":
            dist["depth_limit_pairs"] += 1          # measured inside the real search (export shim VerifC22HitLimit*)
            dist["depth_limit_by_kind"][kind] = dist["depth_limit_by_kind"].get(kind, 0) + 1
        elif f["H"] == "?":
            dist["depth_limit_unknown"] = dist.get("depth_limit_unknown", 0) + 1
        if valid:
            # a completed two-sided search ends with D <= 50 per side, i.e. at most ~100 unmatched elements in total;
            # more unmatched elements than that means the depth limit was reached and the partial-lcs repair (fix()) ran
            matched = 0 if f["G"] == "-" else sum(int(x.split(":")[2]) for x in f["G"].split(","))
            if a != b and len(a.decode("utf-8")) + len(b.decode("utf-8")) - 2 * matched > 102:
                dist["over_100_unmatched_pairs"] += 1
                if f["H"] == "0":
                    ctx.notes.append("instrumentation says the depth limit was not reached for a pair with > 102 unmatched elements: %r / %r" % (a[:40], b[:40]))
        # 1. Apply(a, Strings(a,b)) == b
        if f["A"].startswith("ok:"):
            got = unhx(f["A"][3:])
            dist["apply_ok"] += 1
            if got != b:
                if not valid:
                    ctx.violation("strings:invalid-utf8:result-differs",
                                  "Apply(a, Strings(a,b)) = %r != b for a=%r b=%r (invalid UTF-8 is decoded to U+FFFD, 3 bytes, while the source byte has length 1)" % (got[:40], a[:40], b[:40]), replay)
                else:
                    ctx.violation("strings:apply-result-differs", "Apply(a, Strings(a,b)) = %r != b for a=%r b=%r" % (got[:60], a[:60], b[:60]), replay)
        else:
            dist["apply_err"] += 1
            if not valid:
                ctx.violation("strings:invalid-utf8:out-of-bounds-edits",
                              "Strings(%r, %r) = %s and Apply rejects it (%s): rune->byte conversion counts 3 bytes for an invalid byte" % (a[:40], b[:40], f["E"][:80], f["A"]), replay)
            else:
                ctx.violation("strings:apply-fails", "Apply(a, Strings(a,b)) -> %s for a=%r b=%r" % (f["A"], a[:60], b[:60]), replay)
        # 2. edits sorted, non-overlapping, in bounds, on rune boundaries
        if valid:
            last = 0
            for (s, e, new) in edits:
                if not (0 <= s <= e <= len(a)) or s < last:
                    ctx.violation("strings:edits-not-sorted-disjoint", "Strings(%r,%r) = %s" % (a[:40], b[:40], f["E"][:120]), replay); break
                if not (is_valid_utf8(a[:s]) and is_valid_utf8(a[s:e]) and is_valid_utf8(new)):
                    ctx.violation("strings:edit-splits-a-rune", "Strings(%r,%r) = %s: edit %d:%d is not on rune boundaries" % (a[:40], b[:40], f["E"][:120], s, e), replay); break
                last = e
            if a == b and edits:
                ctx.violation("strings:edits-for-equal-texts", "Strings(a,a) = %s" % f["E"][:100], replay)
            # 3. unified rendering
            if f["A"].startswith("ok:") and not f["U"].startswith(("err", "PANIC")):
                check_unified(ctx, a, edits, unhx(f["A"][3:]), f["U"], "Unified(%r..., %r...)" % (a[:30], b[:30]), replay, dist, 3)
            elif f["U"].startswith(("err", "PANIC")):
                ctx.violation("unified:" + f["U"].split()[0], "ToUnified on Strings' edits -> %s" % f["U"][:100], replay)
            nontrivial.add((kind, f["H"], min(len(edits), 6), min(len(split_lines(a)), 5), a.endswith(b"\n"), b.endswith(b"\n"),
                            any(len(n) != len(n.decode("utf-8")) for _, _, n in edits)))
        else:
            nontrivial.add((kind, f["A"][:7], min(len(edits), 3)))
        if len(samples) < 6 and i % 53 == 0:
            samples.append({"before": repr(a[:60]), "after": repr(b[:60]), "impl": r[:160]})

    # ---- A ops: oracle
    base = len(allpairs)
    for j, (src, edits, c, mode) in enumerate(elists):
        r = impl[base + j]
        f = fields(r, ["A", "L", "U"])
        replay = {"src_hex": hx(src), "edits": edits_arg(edits), "context": c, "impl": r[:600]}
        mops.append("A %s %s %d %s" % (hx(src), edits_arg(edits), c, fix))
        dist["edit_lists"] += 1
        evaluations += 1
        if f is None:
            ctx.violation("apply:" + r.split()[0][:40], "Apply/ToUnified(%r, %s) -> %s" % (src[:40], edits_arg(edits)[:80], r[:200]), replay); continue
        want = ref_apply(src, edits)
        got = unhx(f["A"][3:]) if f["A"].startswith("ok:") else f["A"]
        if got != want:
            ctx.violation("apply:differs-from-reference", "Apply(%r, %s) = %r, reference semantics give %r" % (src[:40], edits_arg(edits)[:80], got if isinstance(got, str) else got[:60],
                                                                                                       want if isinstance(want, str) else want[:60]), replay)
        if isinstance(want, bytes):
            # lineEdits must be line-aligned and equivalent
            try:
                les = parse_edits(f["L"])
                if ref_apply(src, les) != want:
                    ctx.violation("lineedits:result-differs", "lineEdits(%r, %s) = %s changes the result" % (src[:40], edits_arg(edits)[:80], f["L"][:80]), replay)
            except Exception:
                ctx.violation("lineedits:" + f["L"][:20], "lineEdits -> %s" % f["L"][:100], replay)
            if edits and not f["U"].startswith(("err", "PANIC")):
                vs = sorted(edits, key=lambda t: (t[0], t[1]))
                check_unified(ctx, src, vs, want, f["U"], "ToUnified(%r..., %s, %d)" % (src[:30], edits_arg(edits)[:60], c), replay, dist, c)
            elif f["U"].startswith(("err", "PANIC")):
                ctx.violation("unified:" + f["U"].split()[0], "ToUnified(%r, %s) -> %s" % (src[:40], edits_arg(edits)[:80], f["U"][:100]), replay)
        nontrivial.add(("A", mode, min(len(edits), 4), isinstance(want, bytes) or want, c))
        if len(samples) < 10 and j % 61 == 0:
            samples.append({"src": repr(src[:60]), "edits": edits_arg(edits)[:100], "impl": r[:160]})
    mops += xops
    evaluations += len(xops)

    # ---- correspondence with the Lean model (which is given the diagonals the real search returned)
    if m:
        _, mo, _ = ctx.run_bin(m, input_text="\n".join(mops) + "\n", timeout=1200)
        impl_cmp = [re.sub(r" Cbad\S*$", " Cbad", re.sub(r" H[01?]$", "", x)) for x in impl]
        for i, op, a_, b_ in ctx.diff_lines(mops, impl_cmp, mo.splitlines())[:20]:
            ctx.proof["broken"].append({"theorem": "correspondence C22 model vs lsp/diff",
                                        "why": "op %r impl=%r model=%r" % (op[:300], a_[:400], b_[:400])})

    cov = {
        "evaluations": evaluations,
        "distinct_nontrivial": len(nontrivial),
        "rule": "D: pairs (ASCII / multi-byte, 0..30 lines, 1..9 rune-level mutations clustered or spread, unrelated texts, 120..400-rune texts over a "
                "2-3 letter alphabet, and LARGE-distance pairs (> 100 edits apart; a motif shared at start/end of one text and once in the other, all four symmetries, "
                "ASCII and multi-byte, some embedded in lines) that exhaust the search depth limit so that partial results are stitched by lcs.fix/overlap; "
                "distribution.depth_limit_pairs is MEASURED inside the real search by an export shim) and a separate invalid-UTF-8 stream, through Strings/Bytes/Apply/ToUnified; "
                "A: edit lists (valid, shuffled, malformed: out of bounds / negative / overlapping / end<start; same-point insertions) through "
                "Apply/lineEdits/ToUnified with 1..5 context lines; X: toDiffs on arbitrary diagonal lists. distinct_nontrivial counts distinct "
                "(kind, #edits, #lines, trailing newlines, multi-byte replacement?) tuples for D and (mode, #edits, outcome, context) for A",
        "samples": samples,
        "distribution": dist,
    }
    return ctx.finish("proof", cov,
                      assumptions=["the LCS search returns diagonals satisfying ValidLcs (checked on every generated pair, not proved)",
                                   "inputs to Strings/Bytes are well-formed UTF-8 (the complement is a recorded finding)",
                                   "Go ints do not overflow",
                                   "unified rendering decided by the oracle, not by a theorem"],
                      trusted_base=["hand-written Lean model WaVerif/Model/C22.lean tied by the correspondence run (harness/c22 + export shims in lsp/diff and lsp/diff/lcs)",
                                    "python reference ref_apply / ref_patch / changed_old_lines in checks/c22.py (oracles)"])
