"""C02 — Native x86-64 executables behave like the WebAssembly build."""
import concurrent.futures as cf, hashlib, json, os, re, signal, subprocess, sys, time
from lib import vlib
from extract import c02_mods as M
from extract import c02_templates as T

PROP = "C02"
META = {
    "category": "translation_validation",
    "text": "Core proved, rest validated per artefact. Proved in Lean for ALL operand values: every x86-64 instruction template that the real "
            "wat2x64 emits for the WebAssembly integer instructions (regenerated from /repo on every run, parsed from the Intel-syntax text it prints) "
            "leaves the WebAssembly result in the result slot, faults exactly when WebAssembly traps, and preserves every register it does not "
            "declare scratch; rows whose full statement is false (i32/i64.rem_s: idiv faults on MinInt % -1) are proved in the weakened form and the "
            "negation of the full statement is proved by witness and replayed on the real ELF. Everything else is validated by execution: for every "
            "one of the 177 WebAssembly instructions wat2x64 has a case for, a module applying it to a boundary grid is translated, assembled and run "
            "as a process and compared (stdout, exit status / signal) with the same module on the embedded wazero; whole Wa programs are built with "
            "the real `wa native build` and compared with the same WAT on wazero and with `wa run`.",
    "note": "Trusted: Lean kernel + bv_decide's native axioms (SAT certificates) for the template identities; the hand-written x86-64 integer model "
            "(lean/WaVerif/Model/C02X64.lean, written from the Intel SDM, validated against the CPU by replaying every template with its operands on "
            "real hardware through the grid run); Base/WasmNum.lean (validated against wazero by C01/C02 grid runs); the template extractor/parser; gcc/GNU as "
            "(the assembler `wa native build` uses on linux/amd64). Modelled-not-verified: control-flow lowering, calling convention, frame layout, memory, "
            "tables, the runtime assembly, SSE/float templates and the self-developed assembler/linker — covered by differential execution only.",
    "technique": "Lean 4 proof per regenerated x86-64 template (simp symbolic execution + bv_decide) + differential execution native ELF vs wazero",
}
BV_AX = [r".*\._native\.bv_decide\.ax_.*", r"Lean\.ofReduceBool", r"Lean\.trustCompiler"]
GCC_ARGS = ["-static", "-z", "noexecstack", "-nostdlib"]          # internal/app/appnative/native_x64/build_wa_wz.go
RUN_TIMEOUT = 600


# ------------------------------------------------------------------------------------------------ running both ways
class Both:
    """one WAT module through both pipelines"""
    def __init__(self, ctx, harness):
        self.ctx, self.h = ctx, harness
        self.n = 0

    def build(self, name, wat):
        d = os.path.join(self.ctx.tmp, "m")
        os.makedirs(d, exist_ok=True)
        base = os.path.join(d, name)
        with open(base + ".wat", "w") as f:
            f.write(wat)
        r = subprocess.run([self.h, "x64", base + ".wat", base + ".s"], capture_output=True, text=True, timeout=900)
        if r.returncode:
            return {"stage": "wat2x64", "msg": r.stderr[-400:]}
        r = subprocess.run(["gcc", base + ".s", "-o", base + ".exe"] + GCC_ARGS, capture_output=True, text=True, timeout=900)
        if r.returncode:
            bad = sorted(set(re.findall(r"Error: (.*)", r.stderr)))
            lines = [int(x) for x in re.findall(r"\.s:(\d+): Error", r.stderr)]
            src = open(base + ".s").read().splitlines()
            return {"stage": "gcc", "msg": "; ".join(bad)[:300], "asm": [src[i - 1].strip() for i in lines[:4]]}
        return {"stage": "ok", "exe": base + ".exe", "wat": base + ".wat", "asm": base + ".s"}

    def run_native(self, exe, timeout=None):
        """`timeout`: short limit for tiny modules that may hang when miscompiled (a wrong loop target); a hit is re-tried once with six
        times the limit (loaded machine) before it counts.  A timeout is a RESULT (status `timeout`), never an infrastructure error."""
        lim = timeout or RUN_TIMEOUT
        for attempt in (0, 1):
            try:
                p = subprocess.run([exe], capture_output=True, timeout=lim)
                return {"rc": p.returncode, "out": p.stdout.decode("latin1"), "err": p.stderr.decode("latin1")[-300:]}
            except subprocess.TimeoutExpired as e:
                last = {"rc": "timeout", "out": (e.stdout or b"").decode("latin1"), "err": ""}
                if timeout is None:
                    break
                lim = lim * 6
        return last

    def run_wazero(self, watfile):
        try:
            p = subprocess.run([self.h, "wazero", watfile], capture_output=True, timeout=900)     # generous: the machine may be heavily loaded
        except subprocess.TimeoutExpired as e:
            return {"st": "timeout", "out": (e.stdout or b"").decode("latin1")}
        err = p.stderr.decode("latin1").strip().splitlines()
        st = next((l[7:] for l in reversed(err) if l.startswith("STATUS ")), "error:no-status rc=%d %s" % (p.returncode, " ".join(err)[-200:]))
        return {"st": st, "out": p.stdout.decode("latin1")}

    def both(self, name, wat, timeout=None):
        b = self.build(name, wat)
        if b["stage"] != "ok":
            return b, None, None
        return b, self.run_native(b["exe"], timeout), self.run_wazero(b["wat"])


def native_status(rc):
    if rc == "timeout":
        return "timeout"
    if rc < 0:
        try:
            return "signal:" + signal.Signals(-rc).name
        except ValueError:
            return "signal:%d" % -rc
    return "ok" if rc == 0 else "exit:%d" % rc


def status_agrees(nat, wz):
    """exit-status correspondence: ok<->0, exit:n<->n, trap <-> non-zero exit (not a signal) with a message on stderr"""
    ns = native_status(nat["rc"])
    if wz["st"] == "ok":
        return ns == "ok"
    if wz["st"].startswith("exit:"):
        return ns == wz["st"]
    if wz["st"].startswith("trap:"):
        return ns.startswith("exit:") and nat["err"].strip() != ""
    return False


def same_value(ins, rt, a, b):
    if a == b:
        return True
    if ins in M.NAN_LOOSE:
        try:
            x, y = int(a) % (1 << 64), int(b) % (1 << 64)
        except ValueError:
            return False
        return M.is_nan(rt, x) and M.is_nan(rt, y)
    return False


# ------------------------------------------------------------------------------------------------ numeric grid
def run_numeric(ctx, B, ins, cases, inline=False, depth=0):
    """returns (n_compared, list of (key, what, replay)).  On a native crash the remaining cases are re-run in a fresh module.
    `inline`: the instruction is applied to constants on the operand stack of _start instead of to the parameters of a function."""
    ptypes, rt = M.NUMERIC[ins]
    wat = (M.inline_numeric_module if inline else M.numeric_module)(ins, cases)
    tag = "%s%s_%d_%d" % ("inl_" if inline else "", ins.replace(".", "_"), depth, len(cases))
    b, nat, wz = B.both(tag, wat)
    found = []
    if b["stage"] != "ok":
        found.append(("build:%s:%s-rejects" % (ins, b["stage"]), "%s cannot be built natively: %s %s" % (ins, b["msg"], b.get("asm", "")),
                      {"instruction": ins, "stage": b["stage"], "message": b["msg"], "asm": b.get("asm"), "wat": wat[:1500]}))
        return 0, found, []
    wl, nl = wz["out"].splitlines(), nat["out"].splitlines()
    if wz["st"] != "ok" or len(wl) != len(cases):
        raise vlib.InfraError("reference run of the %s grid did not complete (%s, %d/%d lines): the case generator's trap predicate is wrong" % (
            ins, wz["st"], len(wl), len(cases)))
    pfx = "inline:" if inline else "ins:"
    n = 0
    pairs = []
    for i, ops in enumerate(cases):
        if i >= len(nl):
            break
        n += 1
        pairs.append((ops, nl[i]))
        if not same_value(ins, rt, nl[i], wl[i]):
            cls = M.case_class(ins, ptypes, ops)
            found.append(("%s%s:%s" % (pfx, ins, cls), "%s(%s) natively gives %s, WebAssembly gives %s" % (ins, ", ".join(hex(o) for o in ops), nl[i], wl[i]),
                          {"instruction": ins, "operands": [hex(o) for o in ops], "native": nl[i], "wasm": wl[i], "class": cls}))
    if len(nl) < len(cases):
        k = len(nl)
        ops = cases[k]
        cls = M.case_class(ins, ptypes, ops)
        found.append(("%s%s:%s:%s" % (pfx, ins, cls, native_status(nat["rc"])),
                      "%s(%s): the native executable dies with %s (stderr %r) where WebAssembly yields %s" % (
                          ins, ", ".join(hex(o) for o in ops), native_status(nat["rc"]), nat["err"][:60], wl[k]),
                      {"instruction": ins, "operands": [hex(o) for o in ops], "native_status": native_status(nat["rc"]), "wasm": wl[k], "class": cls}))
        rest = [c for c in cases[k + 1:] if M.case_class(ins, ptypes, c) != cls]
        if rest and depth < 6:
            n2, f2, p2 = run_numeric(ctx, B, ins, rest, inline, depth + 1)
            n += n2
            found += f2
            pairs += p2
    elif not status_agrees(nat, wz):
        found.append(("%s%s:exit-status" % (pfx, ins), "grid module for %s ends with %s natively, %s on wazero" % (ins, native_status(nat["rc"]), wz["st"]),
                      {"instruction": ins, "native_status": native_status(nat["rc"]), "wasm_status": wz["st"]}))
    return n, found, pairs


def run_inline_batch(ctx, B, name, items):
    """quick tier: the inline form of many instructions in one module (cases of a crashing class are left to the function-form grid)"""
    items = [(ins, [c for c in cases if M.case_class(ins, M.NUMERIC[ins][0], c) != "minint-by-minus1"]) for ins, cases in items]
    wat, index = M.inline_batch_module(items)
    b, nat, wz = B.both(name, wat)
    if b["stage"] != "ok":
        # some instruction of the batch is rejected by the assembler: the function-form grid reports which one
        ok = []
        for ins, cases in items:
            bb = B.build(name + "_probe", M.inline_numeric_module(ins, cases[:1]))
            if bb["stage"] == "ok":
                ok.append((ins, cases))
        if len(ok) == len(items) or not ok:
            return 0, [("build:%s:%s-rejects" % (name, b["stage"]), "inline batch cannot be built: %s" % b["msg"], {"message": b["msg"]})]
        return run_inline_batch(ctx, B, name + "r", ok)
    wl, nl = wz["out"].splitlines(), nat["out"].splitlines()
    if wz["st"] != "ok" or len(wl) != len(index):
        raise vlib.InfraError("reference run of inline batch %s did not complete (%s)" % (name, wz["st"]))
    found = []
    for i, (ins, ops) in enumerate(index):
        ptypes, rt = M.NUMERIC[ins]
        a = nl[i] if i < len(nl) else "<missing: %s>" % native_status(nat["rc"])
        if not same_value(ins, rt, a, wl[i]):
            cls = M.case_class(ins, ptypes, ops)
            found.append(("inline:%s:%s" % (ins, cls), "%s(%s) on the operand stack natively gives %s, WebAssembly gives %s" % (ins, ", ".join(hex(o) for o in ops), a, wl[i]),
                          {"instruction": ins, "operands": [hex(o) for o in ops], "native": a, "wasm": wl[i], "class": cls}))
            if a.startswith("<missing"):
                break
    return min(len(nl), len(index)), found


def run_trap_case(ctx, B, name, key, wat, what):
    """a module that must trap after printing 111: native must print 111, not 222, and exit non-zero with a message (no signal)"""
    b, nat, wz = B.both(name, wat)
    if b["stage"] != "ok":
        return [("build:%s:%s-rejects" % (key, b["stage"]), "%s: %s" % (what, b["msg"]), {"case": key, "message": b["msg"], "asm": b.get("asm")})]
    wl = wz["out"].split()
    if not wz["st"].startswith("trap:") or wl[:1] != ["111"] or "222" in wl:
        raise vlib.InfraError("trap case %s does not trap on the reference runtime: %s %r" % (key, wz["st"], wz["out"][:80]))
    ns = native_status(nat["rc"])
    nl = nat["out"].split()
    if nl[:len(wl)] != wl:
        return [("trap:%s:output-before-trap-lost" % key, "%s: output before the trap differs: %r" % (what, nat["out"][:80]), {"case": key, "native": nat, "wasm": wz})]
    if "222" in nl[1:] or ns == "ok":
        return [("trap:%s:no-trap" % key, "%s: WebAssembly traps (%s); the native executable continues (%s, prints %s)" % (what, wz["st"][:80], ns, " ".join(nl[1:4])),
                 {"case": key, "native_status": ns, "native_out": nl[:5], "wasm_status": wz["st"], "wat": wat[-600:]})]
    if not status_agrees(nat, wz):
        return [("trap:%s:%s" % (key, ns), "%s: WebAssembly traps (%s); the native executable dies with %s and stderr %r instead of a non-zero exit with a message" % (
            what, wz["st"][:80], ns, nat["err"][:40]), {"case": key, "native_status": ns, "stderr": nat["err"], "wasm_status": wz["st"], "wat": wat[-600:]})]
    return []


def run_scenario(ctx, B, name, wat, keyfn=None, timeout=None, expect=None):
    """whole-output comparison of one scenario module; the first differing line names the construct.
    `expect`: independently computed output lines (None = no expectation for that line): the reference itself is checked against them."""
    b, nat, wz = B.both(name, wat, timeout)
    if b["stage"] != "ok":
        return 0, [("build:%s:%s-rejects" % (name, b["stage"]), "scenario %s cannot be built natively: %s %s" % (name, b["msg"], b.get("asm", "")),
                    {"scenario": name, "message": b["msg"], "asm": b.get("asm")})]
    if wz["st"].startswith("error:"):
        return 0, [("skip", "reference cannot run scenario %s: %s" % (name, wz["st"]), None)]
    nl, wl = nat["out"].splitlines(), wz["out"].splitlines()
    src = scenario_index(wat)
    found = []
    if expect is not None:
        bad = [(i, e, wl[i] if i < len(wl) else None) for i, e in enumerate(expect) if e is not None and (i >= len(wl) or wl[i] != e)]
        if bad:
            ctx.proof["broken"].append({"theorem": "scenario %s: independent evaluation vs reference runtime" % name,
                                        "why": "line %d: python evaluation %s, Wat2Wasm+wazero %s (%s)" % (bad[0][0], bad[0][1], bad[0][2], src[bad[0][0]][:100] if bad[0][0] < len(src) else "?")})
    for i in range(max(len(nl), len(wl))):
        a = nl[i] if i < len(nl) else "<missing: %s>" % native_status(nat["rc"])
        c = wl[i] if i < len(wl) else "<missing: %s>" % wz["st"]
        if a != c:
            line = src[i] if i < len(src) else "?"
            k = keyfn(line) if keyfn else construct_of(line)
            found.append(("scenario:%s:%s" % (name, k), "%s: line %d (%s) native %s, wasm %s" % (name, i, line[:120], a, c),
                          {"scenario": name, "line": i, "source": line, "native": a, "wasm": c, "native_status": native_status(nat["rc"])}))
            if a.startswith("<missing") or len(found) >= 12:
                break
    if not found and not status_agrees(nat, wz):
        found.append(("scenario:%s:exit-status" % name, "%s ends with %s natively, %s on wazero" % (name, native_status(nat["rc"]), wz["st"]),
                      {"scenario": name, "native_status": native_status(nat["rc"]), "wasm_status": wz["st"], "stderr": nat["err"]}))
    return len(wl), found


def scenario_index(wat):
    """source line of _start that produces the k-th printed line"""
    out = []
    inside = False
    for l in wat.splitlines():
        if '(export "_start")' in l:
            inside = True
            continue
        if inside:
            for _ in range(len(re.findall(r"call \$p(?:32|f32|f64)?\b", l))):
                out.append(l.strip())
    return out


def construct_of(line):
    m = re.search(r"call \$(\w+)", line)
    for pat in ("call_indirect", "memory.copy", "memory.fill", "memory.grow", "memory.size", "memory.init", "select", "global.get", "global.set"):
        if pat in line:
            return pat
    m2 = re.search(r"\b((?:i32|i64|f32|f64)\.(?:load|store)\w*)", line)
    if m2:
        return m2.group(1)
    if m and not m.group(1).startswith("p"):
        return "call-" + re.sub(r"\d+$", "", m.group(1))
    m3 = re.search(r"\b((?:i32|i64|f32|f64)\.const)", line)
    return m3.group(1) if m3 else "other"


def prove_many(ctx, modules, required, allow_extra_axioms):
    """ctx.prove for several modules with ONE lake build (the parts compile in parallel) and ONE audit run.
    Same rules as vlib.Ctx.prove: forbidden-construct scan over the import closure, every theorem of every module is an
    obligation, discharged iff its module compiles and its axioms are inside the allow-list; `required` names must exist."""
    for m in modules:
        bad = vlib.scan_forbidden(vlib.LEAN, m)
        if bad:
            ctx.proof["broken"].append({"theorem": "*", "why": "forbidden construct: %s" % bad[:3]})
    ok, log = ctx.lake_build(modules, timeout=3400)
    src_names = []
    for m in modules:
        src_names += re.findall(r"^\s*theorem\s+([^\s:({\[]+)", open(os.path.join(vlib.LEAN, m.replace(".", "/") + ".lean")).read(), re.M)
    if not ok:
        failing = sorted(set(re.findall(r"error: .*?([\w/]+\.lean):(\d+)", log)))
        ctx.proof["obligations"] += max(len(src_names), 1)
        ctx.proof["broken"].append({"theorem": ",".join(modules), "why": "lake build failed", "where": ["%s:%s" % f for f in failing][:10], "log": log[-3000:]})
        return False
    audit_dir = os.path.join(vlib.LEAN, ".audit")
    os.makedirs(audit_dir, exist_ok=True)
    af = os.path.join(audit_dir, "WaVerif_Props_C02_all.lean")
    with open(af, "w") as f:
        f.write("import WaVerif.Base.AuditCmd\n" + "".join("import %s\n" % m for m in modules) + "".join("#audit_module %s\n" % m for m in modules))
    with vlib.Lock("lake"):
        rc, o = vlib.sh(["lake", "env", "lean", af], cwd=vlib.LEAN, timeout=1800)
    found = {}
    for mm in re.finditer(r"AUDIT (\S+) axioms=\[(.*?)\]", o, re.S):        # (long axiom lists are wrapped over several lines)
        found[mm.group(1)] = [a.strip() for a in mm.group(2).split(",") if a.strip()]
    if rc != 0 or not found:
        ctx.proof["obligations"] += 1
        ctx.proof["broken"].append({"theorem": ",".join(modules), "why": "audit failed", "log": o[-2000:]})
        return False
    allgood = True
    for req in required:
        if not any(n == req or n.endswith("." + req) for n in found):
            ctx.proof["obligations"] += 1
            ctx.proof["broken"].append({"theorem": req, "why": "required theorem missing"})
            allgood = False
    for n, axs in sorted(found.items()):
        ctx.proof["obligations"] += 1
        extra = [a for a in axs if a not in vlib.STD_AXIOMS and not any(re.fullmatch(pat, a) for pat in allow_extra_axioms)]
        if extra:
            ctx.proof["broken"].append({"theorem": n, "why": "axioms outside allow-list: %s" % extra})
            allgood = False
        else:
            ctx.proof["discharged"] += 1
        ctx.proof["theorems"][n] = axs
    if ctx.tier == "thorough":
        for m in modules:
            with vlib.Lock("lake"):
                rc, o = vlib.sh(["lake", "env", "leanchecker", m], cwd=vlib.LEAN, timeout=9000)
            ctx.notes.append("leanchecker %s rc=%d" % (m, rc))
            if rc != 0:
                ctx.proof["broken"].append({"theorem": m, "why": "leanchecker rejected", "log": o[-2000:]})
                allgood = False
    return allgood


# ------------------------------------------------------------------------------------------------ main
def run(ctx):
    t0 = time.time()
    h = ctx.build_harness("c02")
    wa = ctx.build_wa()          # built together with the harness: both must come from the same state of the tree
    B = Both(ctx, h)
    quick = ctx.tier == "quick"
    dist = {}
    samples = []
    nontrivial = set()
    allfound = []

    # ---- 1. regenerated templates + proofs
    tinfo = T.regenerate(ctx, h)
    for b in tinfo["broken"]:
        ctx.proof["broken"].append(b)
    parts = json.load(open(os.path.join(vlib.VERIF, "extract", "c02_required.json")))
    missing = [t for t in T.REQUIRED if not any(t in v for v in parts.values())]
    if missing:
        ctx.proof["broken"].append({"theorem": "row set", "why": "Props/C02R*.lean do not cover the rows %s: run tools/gen_c02_props.py" % missing[:6]})
    prove_many(ctx, sorted(parts) + ["WaVerif.Props.C02"], T.REQUIRED + ["div_rows_trap_iff_fault"], BV_AX)
    dist["templates"] = tinfo["count"]
    dist["t_templates_s"] = round(time.time() - t0, 1)

    # ---- 2. per-instruction grid (function form: operands arrive as parameters; inline form: straight on the operand stack)
    per_axis = 12 if quick else 0
    extra = 2 if quick else 10
    jobs = []
    inline_batch = {}
    for ins in sorted(M.NUMERIC):
        cases_all = M.numeric_cases(ins, ctx.rng, per_axis, extra)
        ptypes, rt = M.NUMERIC[ins]
        ok_cases = [c for c in cases_all if not M.traps(ins, ptypes, c)]
        trap_cases = [c for c in cases_all if M.traps(ins, ptypes, c)]
        jobs.append(("grid", ins, ok_cases, False))
        if not quick:
            jobs.append(("grid", ins, ok_cases, True))
        elif ptypes[0] in (M.I32, M.I64):
            inline_batch.setdefault(ptypes[0] + str(len(ptypes)), []).append((ins, ok_cases[:40]))
        seen_cls = {}
        for c in trap_cases:
            cls = M.case_class(ins, ptypes, c)
            lim = 1 if quick else 6
            if seen_cls.get(cls, 0) < lim:
                seen_cls[cls] = seen_cls.get(cls, 0) + 1
                jobs.append(("trap", ins, c, cls))

    grid_native = {}          # instruction -> [(operands, line printed by the real executable)]   (function form)

    def do(job):
        if job[0] == "grid":
            _, ins, cases, inline = job
            n, f, pairs = run_numeric(ctx, B, ins, cases, inline)
            if not inline:
                grid_native[ins] = pairs
            return job, n, f
        if job[0] == "inlinebatch":
            n, f = run_inline_batch(ctx, B, "inlb_" + job[1], job[2])
            return job, n, f
        if job[0] == "trap":
            _, ins, c, cls = job
            name = "trap_%s_%s" % (ins.replace(".", "_"), hashlib.sha1(repr(c).encode()).hexdigest()[:8])
            f = run_trap_case(ctx, B, name, "%s:%s" % (ins, cls), M.numeric_trap_module(ins, c),
                              "%s(%s)" % (ins, ", ".join(hex(o) for o in c)))
            return job, 1, f
        if job[0] == "trapk":
            f = run_trap_case(ctx, B, "trapk_" + job[1].replace("-", "_"), job[1], M.trap_module(job[1]), "module that runs into `%s`" % job[1])
            return job, 1, f
        if job[0] == "scenario":
            opt = job[3] if len(job) > 3 else {}
            n, f = run_scenario(ctx, B, job[1], job[2], keyfn=opt.get("keyfn"), timeout=opt.get("timeout"), expect=opt.get("expect"))
            return job, n, f
        raise KeyError(job[0])

    for k, items in sorted(inline_batch.items()):
        jobs.append(("inlinebatch", k, items))
    for k in M.TRAP_KINDS:
        jobs.append(("trapk", k))
    rng = ctx.rng
    nsc = 2 if quick else 8
    reps = 1 if quick else 4
    for r in range(reps):
        sfx = "" if r == 0 else str(r)
        jobs.append(("scenario", "const" + sfx, M.const_module(rng, nsc * 2)))
        jobs.append(("scenario", "memory" + sfx, M.memory_module(rng, nsc)))
        jobs.append(("scenario", "variables" + sfx, M.variable_module(rng, nsc)))
        jobs.append(("scenario", "calls" + sfx, M.call_module(rng, nsc)))
        jobs.append(("scenario", "control" + sfx, M.control_module(rng, nsc)))
    jobs.append(("scenario", "memory_grow", M.memory_grow_module(rng)))
    jobs.append(("scenario", "memory_grow_stale", M.memory_grow_stale_module()))
    jobs.append(("scenario", "print", M.print_module()))
    for code in (0, 1, 3, 255):
        jobs.append(("scenario", "exit%d" % code, M.exit_module(code)))
    for name, wat in M.extra_scenarios(rng, quick):
        jobs.append(("scenario", name, wat))
    # label scoping: shadowed / reused label names (fixed cases + generated trees with an independent evaluation); a wrong loop target can hang
    for r in range(1 if quick else 12):
        wat, expect, nshadow = M.label_module(rng, 40 if quick else 80, 18)
        dist["label_shadowed_branches"] = dist.get("label_shadowed_branches", 0) + nshadow
        jobs.append(("scenario", "labels" + ("" if r == 0 else str(r)), wat, {"timeout": 20, "expect": expect, "keyfn": lambda line: "shadowed-label-branch"}))
    jobs.append(("scenario", "label_hang", M.label_hang_module(), {"timeout": 10, "keyfn": lambda line: "shadowed-label-branch"}))
    jobs.append(("scenario", "br_table_repeated_target", M.br_table_repeated_module(), {"timeout": 20}))

    def do_safe(job):
        """a failing step of one module is a result for that module, never an uncaught exception"""
        try:
            return do(job)
        except Exception as e:        # (vlib.InfraError of one module included: reported, the other modules still count)
            import traceback
            ctx.proof["broken"].append({"theorem": "module pipeline %s %s" % (job[0], job[1]),
                                        "why": "%s: %s | %s" % (type(e).__name__, e, traceback.format_exc()[-400:])})
            return job, 0, []

    with cf.ThreadPoolExecutor(16) as ex:
        results = list(ex.map(do_safe, jobs))
    counts = {"grid_cases": 0, "trap_cases": 0, "scenario_lines": 0, "modules": len(jobs)}
    for job, n, f in results:
        if job[0] == "grid":
            counts["grid_cases"] += n
            ptypes, rt = M.NUMERIC[job[1]]
            for c in job[2]:
                nontrivial.add((job[1], M.case_class(job[1], ptypes, c), tuple(min(o.bit_length(), 40) // 8 for o in c)))
            if len(samples) < 6 and job[2]:
                samples.append({"instruction": job[1], "operands": [hex(o) for o in job[2][0]], "form": "inline" if job[3] else "function"})
        elif job[0] == "inlinebatch":
            counts["grid_cases"] += n
        elif job[0] in ("trap", "trapk"):
            counts["trap_cases"] += n
            nontrivial.add(("trap", job[1], job[3] if job[0] == "trap" else ""))
        else:
            counts["scenario_lines"] += n
            nontrivial.add(("scenario", job[1]))
        for key, what, replay in f:
            if key == "skip":
                ctx.notes.append(what)
                continue
            allfound.append(key)
            ctx.violation(key, what, replay)
    dist.update(counts)
    dist["t_grid_s"] = round(time.time() - t0, 1)

    def guard(what, fn):
        """no phase may end the check with an exception: it is reported as a broken obligation and the other phases still run"""
        try:
            fn()
        except Exception as e:
            import traceback
            ctx.proof["broken"].append({"theorem": "check phase: " + what, "why": "%s: %s | %s" % (type(e).__name__, e, traceback.format_exc()[-500:])})

    # ---- 3. the Lean witnesses of the false full-strength statements, replayed on the real ELF (must still fail there)
    def witnesses():
        for row, ops, expect_cls in T.WITNESSES:
            n, f, _ = run_numeric(ctx, B, row, [ops], inline=True)
            if not f:
                ctx.proof["broken"].append({"theorem": "witness replay %s" % row,
                                            "why": "Lean proves the template for %s wrong on %s, but the real executable now agrees with WebAssembly: model or extractor out of date" % (row, ops)})
            for key, what, replay in f:
                ctx.violation(key, what, replay)
    guard("witness replay", witnesses)

    # ---- 4. correspondence: Lean x86 model + regenerated templates vs the real CPU (outputs of the inline grid)
    model = ctx.build_model("c02")
    if model:
        guard("model correspondence", lambda: T.model_correspondence(ctx, model, tinfo, grid_native, dist))
    # ---- 4b. the template text vs the machine code in the linked ELF (objdump)
    guard("objdump cross-check", lambda: T.objdump_crosscheck(ctx, B, tinfo, dist))

    # ---- 5. the self-developed assembler + ELF linker on the same assembly text (used instead of gcc on other hosts)
    guard("self-developed assembler", lambda: selfasm(ctx, B, h, dist))

    # ---- 6. whole programs
    from extract import c02_progs as P
    guard("whole programs", lambda: P.run_programs(ctx, B, h, wa, dist, samples, nontrivial))

    dist["t_total_s"] = round(time.time() - t0, 1)
    dist["finding_keys_seen"] = sorted(set(allfound))[:80]
    cov = {
        "programs": dist.get("programs", 0) + counts["modules"],
        "disagreements_checked": len(allfound) + dist.get("program_failures", 0),
        "samples": samples,
        "evaluations": counts["grid_cases"] + counts["trap_cases"] + counts["scenario_lines"] + dist.get("programs", 0),
        "distinct_nontrivial": len(nontrivial),
        "rule": "grid: (instruction, operand class, operand magnitude bucket) triples over all 123 numeric instructions in function and inline form; "
                "trap cases: one module per (instruction, trap class); scenario modules: memory/variables/calls/control/const/print/exit; "
                "programs: distinct Wa programs built with `wa native build`",
        "distribution": dist,
    }
    return ctx.finish("translation_validation", cov,
                      assumptions=["the embedded wazero is the reference semantics of the module (its own bug on memory.grow with delta 0xffffffff is avoided)",
                                   "gcc/GNU as and the Linux kernel/CPU execute the emitted text faithfully (gcc is the assembler `wa native build` uses on linux/amd64)",
                                   "NaN payloads of arithmetic results are not compared (WebAssembly leaves them non-deterministic)"],
                      trusted_base=["bv_decide native axioms on template identities", "extract/c02_templates.py (parses wat2x64's own text into Lean terms)",
                                    "Model/C02X64.lean (x86-64 integer subset, from the Intel SDM) and Base/WasmNum.lean", "harness/c02 host module syscall_linux for wazero"])


def selfasm(ctx, B, h, dist):
    """internal/native/asm + link on wat2x64's output: build a tiny module and run it"""
    wat = M.numeric_module("i32.add", [(1, 2), (0xffffffff, 1)])
    b = B.build("selfasm", wat)
    if b["stage"] != "ok":
        return
    out = b["exe"] + ".own"
    try:
        p = subprocess.run([h, "elf", b["asm"], out], capture_output=True, text=True, timeout=60)
        st, msg = ("ok" if p.returncode == 0 else "error"), p.stderr[-200:]
    except subprocess.TimeoutExpired:
        st, msg = "hang", "asm.AssembleFile does not return within 60 s"
    dist["selfasm"] = st
    if st == "hang":
        ctx.violation("selfasm:parser-hangs", "asm.AssembleFile (the assembler used by `wa native build` for x64 on hosts other than linux/amd64) never returns on "
                      "wat2x64's output: parser.parseFile loops forever on the first token after `.intel_syntax noprefix`", {"asm_head": open(b["asm"]).read()[:300]})
    elif st == "error":
        ctx.violation("selfasm:rejects-wat2x64-output", "asm.AssembleFile/link.LinkELF reject wat2x64's own output: %s" % msg, {"message": msg})
    else:
        nat = B.run_native(out)
        wz = B.run_wazero(b["wat"])
        if nat["out"] != wz["out"] or not status_agrees(nat, wz):
            ctx.violation("selfasm:wrong-output", "ELF produced by the self-developed assembler/linker prints %r (%s), wazero %r" % (
                nat["out"][:60], native_status(nat["rc"]), wz["out"][:60]), {"native": nat, "wasm": wz})
