"""C14 — Standard library functions agree with their Go counterparts."""
import concurrent.futures as cf, json, os, re, subprocess, time
from lib import vlib
from lib.vlib import GOENV
from gen import c14_api, c14_drivers as D, c14_scenarios as SC
from extract import c14_tables

PROP = "C14"
META = {
    "category": "exploration",
    "text": "Go itself is the oracle: for every exported function of Wa's ports (strconv, strings, bytes, unicode/utf8, utf16, encoding/base64, base32, hex, binary, "
            "math/bits, sort, hash/crc32, adler32, fnv, crypto/md5, container/*) that also exists in Go's package with the same signature (enumerated from the .wa "
            "sources and Go's export data on every run), generated single-source drivers call it on boundary and seeded-random arguments and the results of the Wa "
            "run and of `go run` are compared call by call.  Lean 4 supplies specifications and theorems for the algorithmic packages (see `technique`), tied to the "
            "code by running the compiled Lean model on the same arguments as the Wa run.  The full statement (agreement for EVERY argument of every function) is "
            "decided only by exploration; the theorems cover the stated algebraic properties of the modelled functions.",
    "note": "Trusted: Go's standard library (reference), the driver generator and its printing helpers (written in the driver, no library on the printing path), "
            "the Lean kernel; for the math/bits theorems additionally bv_decide's native axioms (SAT certificates checked by compiled Lean code).  The Lean models of "
            "hex/base64/base32/utf8/crc32/adler32/fnv/strconv integers/bits/sort are hand-written from the .wa sources with their tables REGENERATED from them "
            "(Gen/C14Tables.lean) and are tied to the port by running wamodel_c14 on the arguments of the Wa run.  Not proved (executed for correspondence only): float "
            "formatting/parsing, md5 (an executable RFC 1321 reference in Lean, no theorem), bits.Div64, containers, Unicode tables, slicing-by-8 CRC.",
    "technique": "single-source differential execution Wa vs Go + Lean 4 specifications/theorems for codecs, bits, hashes, integer conversion, sorting",
}

VOLUME = {"quick": {"rand": 8, "cap": 90, "deadline": 60}, "thorough": {"rand": 60, "cap": 600, "deadline": 300}}
MAX_SRC = 260000          # bytes of generated source per program (Wa compiles the imported packages once per program)


# ------------------------------------------------------------------------------------------ running

def run_go(ctx, src, tag):
    d = os.path.join(ctx.tmp, tag)
    os.makedirs(d, exist_ok=True)
    with open(os.path.join(d, "main.go"), "w") as f:
        f.write(src)
    env = dict(GOENV, GOFLAGS="-mod=mod", GO111MODULE="off")
    p = vlib.go_run(d, env, 3000)
    return p.returncode, p.stderr.splitlines()


def run_wa(ctx, harness, src, tag, deadline):
    """-> (status, stdout lines, stderr text).  The harness streams the program's output; the deadline (seconds of
    RUNNING, counted from the harness's "TIMING compile" line) is enforced here by killing the process, because a tight
    loop in compiled wasm code cannot be interrupted from inside the harness."""
    import selectors
    d = os.path.join(ctx.tmp, tag)
    os.makedirs(d, exist_ok=True)
    f = os.path.join(d, "prog.wa.go")
    with open(f, "w") as fh:
        fh.write(src)
    p = subprocess.Popen([harness, "run", f, str(deadline + 30)], stdout=subprocess.PIPE, stderr=subprocess.PIPE)
    sel = selectors.DefaultSelector()
    sel.register(p.stdout, selectors.EVENT_READ, "out")
    sel.register(p.stderr, selectors.EVENT_READ, "err")
    out, err = bytearray(), bytearray()
    t0, run_start, killed, open_streams = time.time(), None, False, 2
    while open_streams:
        for key, _ in sel.select(timeout=1.0):
            chunk = os.read(key.fileobj.fileno(), 1 << 16)
            if not chunk:
                sel.unregister(key.fileobj)
                open_streams -= 1
                continue
            (out if key.data == "out" else err).extend(chunk)
        now = time.time()
        if run_start is None and b"TIMING compile" in err:
            run_start = now
        if not killed and ((run_start is not None and now - run_start > deadline) or now - t0 > deadline + 1500):
            p.kill()
            killed = True
    p.wait()
    outl = out.decode("utf-8", errors="replace").splitlines()
    errt = err.decode("utf-8", errors="replace")
    if killed:
        if out and not out.endswith(b"\n") and outl:
            outl = outl[:-1]                      # torn last line
        return "deadline: killed after %ds of running" % deadline, outl, errt
    m = re.search(r"STATUS: (.*)", errt, re.S)
    status = "ok" if p.returncode == 0 else (m.group(1).strip() if m else "exit %d" % p.returncode)
    return status, outl, errt


TOKEN_OK = re.compile(r"^[-0-9a-zA-Z:,]+$")


class Program:
    def __init__(self, name, secs):
        self.name, self.secs = name, secs
        self.go = {}                 # (k, idx) -> tokens
        self.wa = {}
        self.events = []             # (kind, section index, call index or None, message)
        self.not_run = set()         # (section, call) left out after a trap/hang of the same argument class
        self.wa_time = 0.0


def run_go_all(ctx, progs):
    """the reference side: ALL sections of all programs in one Go program (one compile + link instead of one per package)"""
    allsecs, owner = [], []
    for p in progs:
        for k, s in enumerate(p.secs):
            allsecs.append(s)
            owner.append((p, k))
    src, _ = D.render_program(allsecs)
    t0 = time.time()
    rc, glines = run_go(ctx, src, "all.go")
    gres, _, _, gdone, _ = D.parse_output(glines)
    if rc != 0 or not gdone:
        raise vlib.InfraError("go run of the drivers failed (generator bug: an argument makes Go panic?):\n%s" % ("\n".join(l for l in glines if not l.startswith("S"))[-3000:]))
    for (gid, idx), toks in gres.items():
        p, k = owner[gid]
        p.go[(k, idx)] = toks
    return time.time() - t0


def run_program(ctx, harness, prog, deadline):
    """runs prog under Wa; fills prog.wa / prog.events"""
    # Wa: iterate over compile errors (drop the section) and traps / hangs (skip the call, continue after it)
    alive = list(range(len(prog.secs)))          # section indices still to run
    skip = {}                                    # section index -> set of call indices to leave out
    rounds = 0
    t0 = time.time()
    while alive and rounds < 14:
        rounds += 1
        secs = [prog.secs[k] for k in alive]
        src, linemap = D.render_program(secs, skip={i: skip.get(k, set()) for i, k in enumerate(alive)})
        # section ids inside this render are positions in `alive`
        status, out, err = run_wa(ctx, harness, src, "%s.wa%d" % (prog.name, rounds), deadline)
        res, last, ended, done, began = D.parse_output(out)
        for (pos, idx), toks in res.items():
            if pos < len(alive):
                prog.wa[(alive[pos], idx)] = toks
        if status == "ok" and done:
            break
        if status.startswith("compile-"):
            m = re.search(r"prog\.wa\.go:(\d+):(\d+): (.*)", status)
            owners = []
            if m:
                ln = int(m.group(1))
                for a, b, own in linemap:
                    if a <= ln <= b:
                        owners = own
            if not owners:
                raise vlib.InfraError("Wa cannot compile driver %s and the error is not inside a section: %s" % (prog.name, status[:1500]))
            for pos in owners:
                prog.events.append(("does-not-compile", alive[pos], None, status[:300]))
            alive = [k for i, k in enumerate(alive) if i not in owners]
            continue
        # trap / panic / deadline while running: the culprit is the call after the last printed line
        kind = "hangs" if status.startswith("deadline") else "traps"
        if last is None:
            pos = began[-1] if began else 0
            nxt = 0
        else:
            pos, nxt = last[0], last[1] + 1
            if pos in ended:
                pos, nxt = pos + 1, 0
        if pos >= len(alive):
            prog.events.append((kind, alive[-1], None, "after the last section: " + status[:300]))
            break
        k = alive[pos]
        order = [i for i in range(len(prog.secs[k].calls)) if i not in skip.get(k, set())]
        order = [i for i in order if i >= nxt] if last is not None and last[0] == pos else order
        if not order:
            alive = alive[pos + 1:]
            continue
        culprit = order[0]
        prog.events.append((kind, k, culprit, status[:300]))
        sk = skip.setdefault(k, set())
        sk.update(i for i in range(len(prog.secs[k].calls)) if i <= culprit)
        # calls of the same argument class would most likely stop the program again (one rerun each): leave them out
        cls = arg_class(prog.secs[k], prog.secs[k].calls[culprit])
        same = [i for i in range(culprit + 1, len(prog.secs[k].calls)) if arg_class(prog.secs[k], prog.secs[k].calls[i]) == cls]
        sk.update(same)
        prog.not_run.update((k, i) for i in same)
        alive = alive[pos:]
    else:
        if alive:
            prog.events.append(("unexplored", alive[0], None, "more than 14 compile/trap rounds"))
    prog.wa_time = time.time() - t0
    return prog


# ------------------------------------------------------------------------------------------ classification

def is_utf8(b):
    try:
        b.decode("utf-8")
        return True
    except UnicodeDecodeError:
        return False


def text_class(vals):
    c = "ascii"
    for b in vals:
        if not is_utf8(b):
            return "invalid-utf8"
        if any(x >= 0x80 for x in b):
            c = "non-ascii"
    return c


def rune_class(r):
    if r < 0 or r > 0x10ffff or 0xd800 <= r <= 0xdfff:
        return "rune-invalid"
    return "rune-ascii" if r < 0x80 else "rune-non-ascii"


def float_class(bits):
    e, m = (bits >> 52) & 0x7ff, bits & ((1 << 52) - 1)
    if e == 0x7ff:
        return "nan" if m else "inf"
    if e == 0:
        return "zero" if m == 0 else "subnormal"
    return "normal"


def unhex(tok):
    if tok == "-":
        return b""
    try:
        return bytes.fromhex(tok)
    except ValueError:
        return None


def err_slug(tok):
    """error token -> short class of the message"""
    if tok == "nil":
        return "nil"
    msg = unhex(tok[1:]) if tok.startswith("E") else None
    if msg is None:
        return "garbled"
    msg = msg.decode("utf-8", errors="replace")
    msg = re.sub(r'"(\\.|[^"\\])*"', "", msg)               # quoted input echoed in the message
    msg = re.sub(r"U\+[0-9A-Fa-f]+( '.*?')?", "", msg)
    msg = re.sub(r"-?\d+", "N", msg)
    comps = [c.strip() for c in msg.split(":") if c.strip()]
    tail = comps[-1] if comps else ""
    return re.sub(r"[^a-zA-Z]+", "-", tail).strip("-").lower()[:40] or "empty"


def arg_class(sec, args):
    """coarse, seed-independent class of an argument tuple"""
    key = sec.key
    texts, parts = [], []
    for kind, cast, v in zip(sec.kinds, sec.casts, args):
        if kind in ("str", "bytes"):
            texts.append(v)
        elif kind in ("strs", "bss"):
            texts += list(v)
        elif kind == "i64" and cast == "rune":
            parts.append(rune_class(v))
        elif kind == "runes":
            cl = [rune_class(r) for r in v]
            parts.append("rune-invalid" if "rune-invalid" in cl else "rune-non-ascii" if "rune-non-ascii" in cl else "rune-ascii")
        elif kind == "i64" and cast == "int" and abs(v) >= 1 << 27:
            parts.append("int-huge")
        elif kind in ("f64",):
            parts.append(float_class(v))
        elif kind == "f64s":
            parts.append("has-nan" if any(float_class(b) == "nan" for b in v) else "no-nan")
    # function-specific refinements
    if key in ("strconv.ParseInt", "strconv.ParseUint"):
        parts.append("base%s" % ("-invalid" if args[1] not in (0,) + tuple(range(2, 37)) else ""))
        parts.append("bits%d" % args[2] if args[2] in (8, 16, 32, 64) else "bits-invalid")
    if key in ("strconv.FormatFloat", "strconv.AppendFloat"):
        o = 1 if key == "strconv.AppendFloat" else 0
        fmt, prec, bs = args[o + 1], args[o + 2], args[o + 3]
        parts.append("fmt-%s" % (chr(fmt) if chr(fmt) in "eEfgGbxX" else "invalid"))
        parts.append("shortest" if prec < 0 else "prec")
        parts.append("bits%d" % bs)
    if key in ("strconv.ParseFloat", "strconv.ParseFloat.hex"):
        parts.append("bits32" if args[1] == 32 else "bits64")
    if key.startswith("math/bits.Div") or key.startswith("math/bits.Rem"):
        bits = int(re.search(r"(\d+)$", key).group(1))
        parts.append("y-top-bit-set" if args[2] >> (bits - 1) else "y-top-bit-clear")
    if texts:
        parts.insert(0, text_class(texts))
    size = max([len(t) for t in texts] or [0])
    if key.endswith("Repeat.large"):
        size = len(args[0]) * args[1]
    if key.endswith(".grow"):
        size = args[1]
    if size >= 4096:
        parts.append("large")                    # the sizes where algorithms switch strategy (chunking, search cut-overs, growth)
    return "+".join(parts) if parts else "any"


def outcome_class(sec, go, wa):
    """which tokens differ"""
    if wa is None:
        return "no-output"
    if len(go) != len(wa):
        return "shape"
    tags = [t[1] for t in sec.toks]
    diff = [i for i in range(len(go)) if go[i] != wa[i]]
    if all(tags[i] == "e" for i in diff):
        i = diff[0]
        if go[i] == "nil":
            return "spurious-error-" + err_slug(wa[i])
        if wa[i] == "nil":
            return "missing-error-" + err_slug(go[i])
        return "error-text-" + err_slug(go[i])
    etags = [i for i, t in enumerate(tags) if t == "e"]
    if etags and any(i in diff for i in etags):
        i = [i for i in etags if i in diff][0]
        if go[i] == "nil":
            return "spurious-error-" + err_slug(wa[i])
        if wa[i] == "nil":
            return "missing-error-" + err_slug(go[i])
    if etags and go[etags[0]] != "nil":
        return "value-with-error-" + err_slug(go[etags[0]])
    return "value"


def custom_class(sec, args, go, wa):
    """root-cause specific classes, decided by PREDICTING the divergent output from the suspected cause"""
    key = sec.key
    if wa is None or len(go) != len(wa):
        return None
    if re.match(r"strconv\.(Append)?Quote", key):
        # DEL written as \u007f instead of \x7f (older Go): undoing exactly that must give Go's answer
        g, w = unhex(go[0]), unhex(wa[0])
        if g is not None and w is not None and w != g and w.replace(b"\\u007f", b"\\x7f") == g:
            return "del-escaped-as-u007f"
    if key in ("strconv.Unquote", "strconv.QuotedPrefix", "strconv.UnquoteChar") and go[-1] != "nil" and wa[-1] == "nil":
        txt = args[0]
        if re.search(rb"\\u[dD][89a-fA-F][0-9a-fA-F]{2}|\\U0000[dD][89a-fA-F][0-9a-fA-F]{2}", txt):
            return "surrogate-escape-accepted"
    return None


def enc_arg(v):
    if isinstance(v, bytes):
        return "x:" + bytes(v).hex()
    if isinstance(v, (list, tuple)):
        return [enc_arg(x) for x in v]
    return v


def dec_arg(v):
    if isinstance(v, str) and v.startswith("x:"):
        return bytes.fromhex(v[2:])
    if isinstance(v, list):
        return [dec_arg(x) for x in v]
    return v


def load_corpus():
    """corpus/C14/*.json: [{"function": <section key>, "args": [encoded args]}] — minimised past divergences and
    boundary cases that must be exercised whatever the seed; prepended to the section's argument table"""
    out = {}
    d = os.path.join(vlib.VERIF, "corpus", PROP)
    if os.path.isdir(d):
        for f in sorted(os.listdir(d)):
            if f.endswith(".json"):
                for e in json.load(open(os.path.join(d, f))):
                    out.setdefault(e["function"], []).append((tuple(dec_arg(a) for a in e["args"]), e.get("position") == "last"))
    return out


def show_args(sec, args):
    out = []
    for kind, v in zip(sec.kinds, args):
        if isinstance(v, D.BigStr):
            out.append("%s /* %d bytes */" % (D.go_str(v), len(v)))
        elif isinstance(v, bytes):
            out.append(D.go_str(v) if len(v) <= 80 else D.go_str(v[:60]) + "...(%d bytes)" % len(v))
        elif kind == "f64":
            out.append("float64frombits(0x%016x)" % v)
        elif isinstance(v, list):
            s = "[" + ", ".join(D.go_str(x) if isinstance(x, bytes) else str(x) for x in v[:12]) + (", ...(%d)" % len(v) if len(v) > 12 else "") + "]"
            out.append(s)
        else:
            out.append(str(v))
    return "(" + ", ".join(out) + ")"


def digest_diff(g, w):
    """first differing 1 KiB block of two dg() tokens"""
    try:
        gl, gb = g.split(":")[0], g.split(":")[1].split(",")[1:]
        wl, wb = w.split(":")[0], w.split(":")[1].split(",")[1:]
    except Exception:
        return ""
    if gl != wl:
        return " [length %s vs Go %s]" % (wl, gl)
    for i, (a, b) in enumerate(zip(gb, wb)):
        if a != b:
            return " [same length %s, first difference in bytes %d..%d]" % (gl, i * 1024, i * 1024 + 1023)
    return ""


def show_toks(sec, toks):
    if toks is None:
        return "<no output>"
    out = []
    for (expr, tag), t in zip(sec.toks, toks):
        if tag == "d":
            out.append("digest(len=%s sum=%s)" % (t.split(":")[0], t.split(":")[-1].split(",")[0]))
            continue
        if tag in ("s",) and unhex(t) is not None:
            b = unhex(t)
            out.append(D.go_str(b) if len(b) <= 80 else D.go_str(b[:60]) + "...(%d bytes)" % len(b))
        elif tag == "e" and t.startswith("E") and unhex(t[1:]) is not None:
            out.append("error(%s)" % D.go_str(unhex(t[1:])[:120]))
        else:
            out.append(t if len(t) <= 100 else t[:100] + "...")
    return " ".join(out)


# ------------------------------------------------------------------------------------------ tie to the Lean models

def hx(b):
    return b.hex() if b else "-"


def _dec_result(toks):
    return "%s nil" % toks[0] if toks[-1] == "nil" else "err"


def _parse_result(toks):
    if toks[1] == "nil":
        return "%s nil" % toks[0]
    sl = err_slug(toks[1])
    if sl == "value-out-of-range":
        return "%s range" % toks[0]
    return {"invalid-syntax": "0 syntax"}.get(sl, "0 base" if sl.startswith("invalid-base") else "0 bits" if sl.startswith("invalid-bit-size") else "0 ?" + sl)


def _intlist(tok):
    body = tok[2:]
    return " ".join(body.split(",")) if body else ""


def model_tie(sec, args):
    """-> (op line for wamodel_c14, function from a token list to the line the model must print) or None"""
    k = sec.key
    A = args
    m = re.fullmatch(r"base64\.(Std|URL|RawStd|RawURL)\.(EncodeToString|DecodeString|EncodedLen|DecodedLen)", k)
    if m:
        e, f = m.groups()
        if f == "EncodeToString":
            return "b64.enc %s %s" % (e, hx(A[0])), lambda t: t[0]
        if f == "DecodeString":
            return "b64.dec %s %s" % (e, hx(A[0])), _dec_result
        if A[0] >= 1 << 27:
            return None
        return "b64.%s %s %d" % ("enclen" if f == "EncodedLen" else "declen", e, A[0]), lambda t: t[0]
    m = re.fullmatch(r"base32\.(Std|Hex)\.(EncodeToString|DecodeString|EncodedLen|DecodedLen)", k)
    if m:
        e, f = m.groups()
        if f == "EncodeToString":
            return "b32.enc %s %s" % (e, hx(A[0])), lambda t: t[0]
        if f == "DecodeString":
            return "b32.dec %s %s" % (e, hx(A[0])), _dec_result
        if A[0] >= 1 << 27:
            return None
        return "b32.%s %d" % ("enclen" if f == "EncodedLen" else "declen", A[0]), lambda t: t[0]
    if k == "encoding/hex.EncodeToString":
        return "hex.enc " + hx(A[0]), lambda t: t[0]
    if k == "encoding/hex.DecodeString":
        return "hex.dec " + hx(A[0]), _dec_result
    if k in ("encoding/hex.EncodedLen", "encoding/hex.DecodedLen"):
        return "hex.%s %d" % ("enclen" if "Enc" in k else "declen", A[0]), lambda t: t[0]
    if k == "hash/crc32.ChecksumIEEE":
        return "crc.ieee " + hx(A[0]), lambda t: t[0]
    if k == "crc32.Checksum":
        return "crc.update 0 %d %s" % (A[1], hx(A[0])), lambda t: t[0]
    if k == "crc32.Update":
        return "crc.update %d %d %s" % (A[0], A[1], hx(A[2])), lambda t: t[0]
    if k == "crc32.MakeTable":
        return "crc.tab %d %d" % (A[0], A[1]), lambda t: t[0]
    if k == "crc32.NewIEEE.Write":
        return "crc.ieee " + hx(A[0] + A[1]), lambda t: t[2]
    if k == "crc32.New.Write":
        return "crc.update 0 %d %s" % (A[0], hx(A[1] + A[2])), lambda t: t[2]
    if k == "hash/adler32.Checksum":
        return "adler " + hx(A[0]), lambda t: t[0]
    if k == "adler32.New.Write":
        return "adler " + hx(A[0] + A[1]), lambda t: t[2]
    if k == "md5.New.Write":
        return "md5 " + hx(A[0] + A[1]), lambda t: t[2]
    m = re.fullmatch(r"fnv\.New(32|32a|64|64a)\.Write", k)
    if m:
        return "fnv%s %s" % (m.group(1), hx(A[0] + A[1])), lambda t: t[2]
    if k in ("strconv.FormatInt", "strconv.FormatUint"):
        return "conv.%s %d %d" % ("fmti" if k.endswith("Int") and not k.endswith("Uint") else "fmtu", A[0], A[1]), lambda t: t[0]
    if k in ("strconv.ParseInt", "strconv.ParseUint"):
        if A[2] == 0:
            return None
        return "conv.%s %s %d %d" % ("parsei" if k.endswith("ParseInt") else "parseu", hx(A[0]), A[1], A[2]), _parse_result
    if k == "utf8.EncodeRune":
        return "utf8.enc %d" % A[0], lambda t: t[1]
    if k == "unicode/utf8.RuneLen":
        return "utf8.len %d" % A[0], lambda t: t[0]
    if k == "unicode/utf8.ValidRune":
        return "utf8.validrune %d" % A[0], lambda t: t[0]
    if k in ("unicode/utf8.DecodeRune", "unicode/utf8.DecodeRuneInString"):
        return "utf8.dec " + hx(A[0]), lambda t: "%s %s" % (t[0], t[1])
    if k in ("unicode/utf8.DecodeLastRune", "unicode/utf8.DecodeLastRuneInString"):
        return "utf8.declast " + hx(A[0]), lambda t: "%s %s" % (t[0], t[1])
    if k in ("unicode/utf8.Valid", "unicode/utf8.ValidString"):
        return "utf8.valid " + hx(A[0]), lambda t: t[0]
    if k in ("unicode/utf8.RuneCount", "unicode/utf8.RuneCountInString"):
        return "utf8.count " + hx(A[0]), lambda t: t[0]
    if k in ("unicode/utf8.FullRune", "unicode/utf8.FullRuneInString"):
        return "utf8.full " + hx(A[0]), lambda t: t[0]
    m = re.fullmatch(r"math/bits\.((OnesCount|Len|LeadingZeros|TrailingZeros|Reverse|ReverseBytes|RotateLeft|Add|Sub|Mul)(8|16|32|64)|Div64|Rem64)", k)
    if m:
        name = m.group(1)
        if name in ("ReverseBytes8", "Add8", "Add16", "Sub8", "Sub16", "Mul8", "Mul16"):
            return None
        return "bits.%s %s" % (name, " ".join(str(a) for a in A)), lambda t: " ".join(t)
    if k == "sort.Ints":
        return "sort.ints " + " ".join(str(v) for v in A[0]), lambda t: _intlist(t[0])
    if k == "sort.Strings":
        return "sort.strs " + " ".join(hx(v) for v in A[0]), lambda t: " ".join(t[0][2:].split(",")) if t[0][2:] else ""
    return None


PROOF_MODULES = [
    ("WaVerif.Props.C14Hex", ["hex_decode_encode", "hex_encode_length", "hex_decode_sound", "hex_reverse_inverts_table"], False),
    ("WaVerif.Props.C14B64", ["b64_decode_encode", "b64_encode_length", "alphabets_ok"], False),
    ("WaVerif.Props.C14B32", ["b32_decode_encode", "b32_encode_length", "alphabets32_ok"], False),
    ("WaVerif.Props.C14Utf8", ["utf8_decode_encode", "utf8_decode_eq_spec", "utf8_table_matches_standard", "utf8_encode_length"], False),
    ("WaVerif.Props.C14Hash", ["crc_table_ieee_correct", "crc_update_ieee_eq_bitwise", "crc_update_append", "adler_checksum_eq_spec", "fnv32_append"], False),
    ("WaVerif.Props.C14Conv", ["parseUint_formatUint", "parseInt_formatInt", "digit_roundtrip"], False),
    ("WaVerif.Props.C14Sort", ["sortInts_spec", "sortStrings_spec", "sorted_perm_unique"], False),
    ("WaVerif.Props.C14Bits", ["onesCount64_eq", "onesCount32_eq", "pop8tab_correct"], True),
    ("WaVerif.Props.C14Bits2", ["reverse64_eq", "reverseBytes64_eq", "rotateLeft_eq", "add64_carry", "sub64_borrow"], True),
    ("WaVerif.Props.C14Bits3", ["len64_eq", "leadingZeros64_eq", "trailingZeros64_eq", "mul64_eq", "deBruijn64_table"], True),
    ("WaVerif.Props.C14", ["c14_codecs_round_trip", "c14_integers_round_trip"], False),
]
BV_AX = [r".*\._native\.bv_decide\.ax_.*", r"Lean\.ofReduceBool", r"Lean\.trustCompiler"]


def prove_modules(ctx, modules):
    """What ctx.prove does, for all C14 proof modules with ONE `lake build` and ONE audit run (the lake lock is shared
    with every other builder, so each separate invocation can wait for minutes), and with an audit parser that accepts
    axiom lists wrapped over several lines (long `bv_decide` axiom names make Lean's formatter break the line, which
    lib/vlib.py's single-line regex does not match).  Returns the path of the model executable or None."""
    names = [m for m, _, _ in modules]
    for m in names:
        bad = vlib.scan_forbidden(vlib.LEAN, m)
        if bad:
            ctx.proof["broken"].append({"theorem": "*", "why": "forbidden construct: %s" % bad[:3]})
    ok, log = ctx.lake_build(names + ["wamodel_c14"])
    if not ok:
        failing = sorted(set(re.findall(r"error: .*?([\w/]+\.lean):(\d+)", log)))
        nthm = 0
        for m in names:
            src = os.path.join(vlib.LEAN, m.replace(".", "/") + ".lean")
            nthm += len(re.findall(r"^\s*theorem\s+([^\s:({\[]+)", open(src).read(), re.M))
        ctx.proof["obligations"] += max(nthm, 1)
        ctx.proof["broken"].append({"theorem": "WaVerif.Props.C14*", "why": "lake build failed", "where": ["%s:%s" % f for f in failing][:10], "log": log[-3000:]})
        return None
    audit_dir = os.path.join(vlib.LEAN, ".audit")
    os.makedirs(audit_dir, exist_ok=True)
    af = os.path.join(audit_dir, "WaVerif_Props_C14_all.lean")
    with open(af, "w") as f:
        f.write("import WaVerif.Base.AuditCmd\n" + "".join("import %s\n" % m for m in names) + "".join("#audit_module %s\n" % m for m in names))
    with vlib.Lock("lake"):
        rc, o = vlib.sh(["lake", "env", "lean", af], cwd=vlib.LEAN, timeout=1800)
    found = {}
    for m in re.finditer(r"AUDIT (\S+) axioms=\[(.*?)\]", o, re.S):
        found[m.group(1)] = [a.strip() for a in m.group(2).replace("\n", " ").split(",") if a.strip()]
    if rc != 0 or not found:
        ctx.proof["obligations"] += 1
        ctx.proof["broken"].append({"theorem": "WaVerif.Props.C14*", "why": "audit failed", "log": o[-2000:]})
        return None
    allow = {}
    for m, req, bv in modules:
        for r in req:
            if not any(n == r or n.endswith("." + r) for n in found):
                ctx.proof["obligations"] += 1
                ctx.proof["broken"].append({"theorem": r, "why": "required theorem missing (%s)" % m})
    for n, axs in sorted(found.items()):
        if re.search(r"\.eq_\d+$|\.match_\d+|\.proof_\d+", n):
            continue                                  # equation lemmas of definitions, not obligations
        ctx.proof["obligations"] += 1
        extra = [a for a in axs if a not in vlib.STD_AXIOMS and not any(re.fullmatch(pat, a) for pat in BV_AX)]
        bvax = [a for a in axs if a not in vlib.STD_AXIOMS]
        if extra:
            ctx.proof["broken"].append({"theorem": n, "why": "axioms outside allow-list: %s" % extra})
        else:
            ctx.proof["discharged"] += 1
        ctx.proof["theorems"][n] = axs
    if ctx.tier == "thorough":
        for m in names:
            with vlib.Lock("lake"):
                rc, o = vlib.sh(["lake", "env", "leanchecker", m], cwd=vlib.LEAN, timeout=3000)
            ctx.notes.append("leanchecker %s rc=%d" % (m, rc))
            if rc != 0:
                ctx.proof["broken"].append({"theorem": m, "why": "leanchecker rejected", "log": o[-2000:]})
    exe = os.path.join(vlib.LEAN, ".lake", "build", "bin", "wamodel_c14")
    return exe if os.path.exists(exe) else None


# ------------------------------------------------------------------------------------------ the check

def build_sections(ctx, vol):
    wa = c14_api.wa_api(vlib.REPO)
    go = c14_api.go_api(vlib.VERIF)
    both, go_only, wa_only = c14_api.intersect(wa, go)
    secs, api_notes = [], {"ported": 0, "auto": 0, "excluded": {}, "signature_differs": [], "go_only": len(go_only), "wa_only": len(wa_only)}
    sigdiff = []
    for b in both:
        api_notes["ported"] += 1
        name = ("%s.%s" % (b["recv"], b["name"])) if b["recv"] else b["name"]
        if not b["same_sig"]:
            sigdiff.append((b["pkg"], name, b["go"], b["wa"]))
            continue
        if b["recv"]:
            continue
        key = b["pkg"] + "." + b["name"]
        s = D.auto_section(b["pkg"], b["name"], b["go"], ctx.rng, vol)
        if s:
            secs.append(s)
            api_notes["auto"] += 1
        else:
            api_notes["excluded"][key] = D.EXCLUDE.get(key) or "unsupported-signature"
    scen = SC.all_scenarios(ctx.rng, vol)
    corpus = load_corpus()
    used = 0
    for s in secs + scen:
        extra = [a for a, last in corpus.get(s.key, []) if len(a) == len(s.kinds) and not last]
        tail = [a for a, last in corpus.get(s.key, []) if len(a) == len(s.kinds) and last]     # inputs that stop the program go last
        if extra or tail:
            s.calls = extra + [c for c in s.calls if c not in extra and c not in tail] + tail
            used += len(extra) + len(tail)
    api_notes["corpus_calls"] = used
    return secs + scen, api_notes, sigdiff, both


def make_programs(secs, known=()):
    only = os.environ.get("C14_ONLY")
    bypkg = {}

    def disruptive(s):
        """sections already known not to compile or to stop the program get a small program of their own, so that the
        reruns they cause do not repeat the rest of the package"""
        for k in known:
            rx = k.get("key_regex")
            if not rx:
                continue
            for probe in ["%s:does-not-compile" % s.key] + ["%s:%s:%s" % (s.key, ev, c) for ev in ("traps", "hangs") for c in ("ascii", "non-ascii", "invalid-utf8")]:
                if re.fullmatch(rx, probe):
                    return True
        return False

    for s in secs:
        if only and not any(o in s.key or o == s.pkg for o in only.split(",")):
            continue
        bypkg.setdefault(s.pkg + ("#isolated" if disruptive(s) else ""), []).append(s)
    progs = []
    for pkg in sorted(bypkg):
        cur, size, n = [], 0, 0
        for s in bypkg[pkg]:
            est = len(s.render(0)) + len(s.pre)
            if cur and size + est > MAX_SRC:
                progs.append(Program("%s_%d" % (pkg.replace("/", "_").replace("#", "_"), n), cur))
                cur, size, n = [], 0, n + 1
            cur.append(s)
            size += est
        if cur:
            progs.append(Program("%s_%d" % (pkg.replace("/", "_").replace("#", "_"), n), cur))
    return progs


def replay(ctx, harness, secs, vol):
    """./check C14 --replay replays/C14/<file>.json : re-runs exactly the recorded call under Wa and under Go"""
    r = json.load(open(ctx.replay))["replay"]
    sec = next((s for s in secs if s.key == r.get("function")), None)
    if sec is None or "args_json" not in r:
        print("replay: nothing executable in %s (section-level finding: %s)" % (ctx.replay, r.get("event") or r.get("function")))
        return ctx.finish("exploration", {"evaluations": 0, "distinct_nontrivial": 0, "rule": "replay", "samples": [], "distribution": {}})
    sec.calls = [tuple(dec_arg(a) for a in r["args_json"])]
    prog = Program("replay", [sec])
    run_go_all(ctx, [prog])
    run_program(ctx, harness, prog, vol["deadline"])
    go, wa = prog.go.get((0, 0)), prog.wa.get((0, 0))
    print("replay %s%s" % (sec.key, show_args(sec, sec.calls[0])))
    print("  go: %s" % show_toks(sec, go))
    print("  wa: %s   %s" % (show_toks(sec, wa), "; ".join("%s: %s" % (e[0], e[3][:200]) for e in prog.events)))
    t = model_tie(sec, sec.calls[0])
    if t:
        print("  model op: %s" % t[0][:300])
    if go != wa:
        ctx.violation("replay:" + r.get("function", "?"), "replayed call still differs: %s%s" % (sec.key, show_args(sec, sec.calls[0])), r)
    return ctx.finish("exploration", {"evaluations": 1, "distinct_nontrivial": 1, "rule": "replay of one recorded call", "samples": [], "distribution": {}})


def run(ctx):
    vol = VOLUME[ctx.tier]
    dev = bool(os.environ.get("C14_DEV"))
    harness = ctx.build_harness("c14")
    # 1. regenerate the table module from the .wa sources (+ the CRC tables computed by the port), then the proofs
    try:
        c14_tables.regenerate(vlib.REPO, harness, ctx.tmp, vlib.LEAN)
    except c14_tables.TableError as e:
        ctx.proof["broken"].append({"theorem": "Gen/C14Tables.lean regeneration", "why": str(e)})
    t0 = time.time()
    model = prove_modules(ctx, PROOF_MODULES)
    ctx.notes.append("proofs + model build: %.0fs" % (time.time() - t0))
    secs, api_notes, sigdiff, both = build_sections(ctx, vol)
    if ctx.replay:
        return replay(ctx, harness, secs, vol)
    for pkg, name, g, w in sigdiff:
        api_notes["signature_differs"].append("%s.%s" % (pkg, name))
        ctx.violation("%s.%s:signature-differs" % (pkg.split("/")[-1], name),
                      "%s.%s has a different signature in the Wa port: Go %s -> %s, Wa %s -> %s" % (pkg, name, g["params"], g["results"], w["params"], w["results"]),
                      {"package": pkg, "function": name, "go": g, "wa": {k: w[k] for k in ("params", "results", "file", "line")}})
    progs = make_programs(secs, ctx.known)
    progs.sort(key=lambda p: -sum(len(s.render(0)) for s in p.secs))
    t0 = time.time()
    with cf.ThreadPoolExecutor(int(os.environ.get("C14_JOBS", "14"))) as ex:
        gofut = ex.submit(run_go_all, ctx, progs)
        list(ex.map(lambda p: run_program(ctx, harness, p, vol["deadline"]), progs))
        ctx.notes.append("go side (one program): %.0fs" % gofut.result())
    ctx.notes.append("drivers: %d programs, %.0fs; slowest: %s" % (len(progs), time.time() - t0, ", ".join(
        "%s go=%.0fs wa=%.0fs" % (p.name, getattr(p, "go_time", 0), p.wa_time) for p in sorted(progs, key=lambda p: -(p.wa_time + getattr(p, "go_time", 0)))[:6])))

    dist = {"functions": 0, "calls": 0, "agree": 0, "diverge": 0, "by_package": {}, "arg_classes": {}, "events": {}}
    nontrivial = set()
    samples = []
    keys = {}
    for p in progs:
        evmap = {}
        for kind, k, idx, msg in p.events:
            dist["events"][kind] = dist["events"].get(kind, 0) + 1
            s = p.secs[k]
            if idx is None:
                key = "%s:%s" % (s.key, kind)
                what = "%s: driver section %s under Wa: %s" % (s.key, kind, msg)
                keys.setdefault(key, []).append(what)
                ctx.violation(key, what, {"function": s.key, "event": kind, "message": msg, "section_source": s.render(0)[:4000]})
            else:
                evmap[(k, idx)] = (kind, msg)
        for k, s in enumerate(p.secs):
            dist["functions"] += 1
            pk = dist["by_package"].setdefault(s.pkg, {"functions": 0, "calls": 0, "diverge": 0})
            pk["functions"] += 1
            for idx, args in enumerate(s.calls if s.kinds else s.calls[:1]):
                go = p.go.get((k, idx))
                if go is None:
                    continue
                wa = p.wa.get((k, idx))
                if (k, idx) in p.not_run:
                    dist["not_run_after_trap"] = dist.get("not_run_after_trap", 0) + 1
                    continue
                dist["calls"] += 1
                pk["calls"] += 1
                ac = arg_class(s, args)
                dist["arg_classes"][ac] = dist["arg_classes"].get(ac, 0) + 1
                nontrivial.add((s.key, ac))
                if wa == go:
                    dist["agree"] += 1
                    if len(samples) < 10 and idx == 3:
                        samples.append({"call": s.key + show_args(s, args), "go": show_toks(s, go), "wa": show_toks(s, wa)})
                    continue
                if wa is None and (k, idx) not in evmap:
                    # not executed (section dropped, or before a crash skip): accounted for by the section-level event
                    if any(e[1] == k for e in p.events):
                        dist["calls"] -= 1
                        pk["calls"] -= 1
                        continue
                dist["diverge"] += 1
                pk["diverge"] += 1
                if (k, idx) in evmap:
                    kind, msg = evmap[(k, idx)]
                    oc = kind
                    what = "%s%s: Wa %s (%s); Go returns %s" % (s.key, show_args(s, args), kind, msg.replace("\n", " ")[:160], show_toks(s, go))
                else:
                    oc = outcome_class(s, go, wa)
                    what = "%s%s: Wa returns %s; Go returns %s" % (s.key, show_args(s, args), show_toks(s, wa), show_toks(s, go))
                    if wa is not None and len(wa) == len(go):
                        what += "".join(digest_diff(g, w) for (e_, tag), g, w in zip(s.toks, go, wa) if tag == "d" and g != w)
                cc = custom_class(s, args, go, wa)
                key = "%s:%s" % (s.key, cc) if cc else "%s:%s:%s" % (s.key, oc, ac)
                keys.setdefault(key, []).append(what)
                ctx.violation(key, what, {"function": s.key, "args": show_args(s, args), "args_json": [enc_arg(a) for a in args], "go": go, "wa": wa,
                                          "driver_statements": s.stmts})
    # 3. tie: the compiled Lean models run on the same arguments; they must print what the Wa port printed (and what
    #    Go printed where the port is already known to differ)
    tie_ops, tie_exp, tie_fn = [], [], {}
    for p in progs:
        for k, s in enumerate(p.secs):
            for idx, args in enumerate(s.calls if s.kinds else s.calls[:1]):
                go, wa = p.go.get((k, idx)), p.wa.get((k, idx))
                if go is None:
                    continue
                try:
                    t = model_tie(s, args)
                except Exception:
                    t = None
                if not t:
                    continue
                op, canon = t
                if len(op) > 60000:
                    continue
                try:
                    g = canon(go)
                    w = canon(wa) if wa is not None and len(wa) == len(go) else None
                except Exception:
                    continue
                tie_ops.append(op)
                tie_exp.append((w, g, s.key))
                tie_fn[s.key] = tie_fn.get(s.key, 0) + 1
    dist["model_lines"] = len(tie_ops)
    dist["model_functions"] = len(tie_fn)
    dist["model_vs_wa_differs_where_wa_differs_from_go"] = 0
    if model and tie_ops:
        _, mo, _ = ctx.run_bin(model, input_text="\n".join(tie_ops) + "\n", timeout=3000)
        mlines = mo.splitlines()
        ctx.corr["lines"] += len(tie_ops)
        if len(mlines) != len(tie_ops):
            ctx.proof["broken"].append({"theorem": "correspondence C14 (wamodel_c14)", "why": "model printed %d lines for %d ops" % (len(mlines), len(tie_ops))})
        nbad = 0
        for op, (w, g, key), mline in zip(tie_ops, tie_exp, mlines):
            if mline == w:
                continue
            if w != g and mline == g:
                dist["model_vs_wa_differs_where_wa_differs_from_go"] += 1        # the port deviates (reported above); the model follows Go
                continue
            ctx.corr["diffs"] += 1
            nbad += 1
            if nbad <= 12:
                ctx.proof["broken"].append({"theorem": "correspondence C14 model vs port: " + key,
                                            "why": "op %r: model=%r wa=%r go=%r" % (op[:300], mline[:200], (w or "")[:200], g[:200])})
    if dev:
        for key in sorted(keys):
            print("KEY %-70s n=%d  e.g. %s" % (key, len(keys[key]), keys[key][0][:400]))
    cov = {
        "evaluations": dist["calls"],
        "distinct_nontrivial": len(nontrivial),
        "rule": "one evaluation = one call of a ported function executed by both Wa and Go and compared token by token; distinct_nontrivial counts distinct "
                "(function or scenario, argument class) pairs, the class being the predicate used in finding keys (text: ascii / non-ascii / invalid-utf8; rune validity; "
                "float kind; strconv base / bit size / format; divisor top bit)",
        "samples": samples,
        "distribution": dist,
        "api": api_notes,
        "divergence_keys": {k: len(v) for k, v in sorted(keys.items())},
        "checker_cmd": "cd /verif/lean && lake build " + " ".join(m for m, _, _ in PROOF_MODULES) + " && lake env lean .audit/WaVerif_Props_C14_all.lean"
                       "   (#audit_module prints each theorem's axioms; the math/bits theorems carry bv_decide's native axioms)",
    }
    return ctx.finish("exploration", cov,
                      assumptions=["Go %s standard library is the reference" % subprocess.run(["go", "version"], stdout=subprocess.PIPE, text=True).stdout.split()[2],
                                   "`int` arguments stay within 32 bits; functions whose result depends on the size of int/uint are called only where it does not"],
                      trusted_base=["gen/c14_drivers.py, gen/c14_scenarios.py (driver generator; printing helpers are part of the driver text)",
                                    "extract/c14_goapi.go (Go export data -> signatures), gen/c14_api.py (.wa signature parser)"])
