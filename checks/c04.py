"""C04 — wat2wasm emits the module the text describes, valid and reference-equal."""
import concurrent.futures as cf
import glob
import json
import os
import re

from checks.c05 import sections, run_chunks
from extract import c04_watread as W
from gen import c05_watgen
from lib import vlib

PROP = "C04"
META = {
    "category": "translation_validation",
    "text": "Lean theorems over a binary codec model (u32 via C19's LEB128 theorems, names, vectors, limits, section framing, the name "
            "section with its three subsections: decode∘encode = id) and over buildNames, the name section the text describes "
            "(names_strictly_increasing, names_assign_written_name). The full statement is decided per module by translation validation: "
            "the bytes of watutil.Wat2Wasm are decoded by the proved Lean decoder into a canonical dump (section order, types, imports, "
            "function/table/memory/global/export/start/element/data contents, code count and local declarations, name-section entries in raw "
            "order) and compared with the dump an independent Python reader derives from the TEXT; V8 validates every binary and its view of "
            "the name section must be the bytes the Lean decoder saw; the name section bytes are compared with encode(buildNames(text)); the 29 "
            "stored WABT outputs are compared section by section with Wa's bytes (and validate the Python reference itself).",
    "note": "WABT is not installed: the reference is the Python reader (validated against the stored WABT outputs on every run), V8 and the "
            "Lean codec. Instruction bodies are re-encoded by an independent Python encoder of the flat syntax (opcode table, LEB immediates, "
            "nearest-enclosing label resolution; byte-equal to WABT on all stored outputs, re-checked every run) and compared function by function; "
            "that part is differential, not proved. Export order is compared as a multiset (Wa lists inline exports last; WABT in text order).",
    "technique": "Lean 4 proof over hand-written codec/name-section model + per-module translation validation (Lean decoder vs Python text reader, V8, stored WABT outputs)",
}
REQUIRED = ["decU32_encU32", "decName_encName", "decVec_encVec", "decLimits_encLimits", "decodeModule_encodeModule",
            "decodeNameSec_encodeNameSec", "names_strictly_increasing", "names_assign_written_name", "label_resolve_nearest",
            "blocktype_index_roundtrip", "blocktype_index_unsigned_form_wrong"]

TRIGGERS = ["start", "start-not-first", "select-typed", "nop", "f64-global", "dup-type", "type-param-names", "import-param-names",
            "unnamed-func", "numeric-ident", "export-func-separate"]

FIXED = {
    "names-2params-2locals": '(module $m\n  (func $f (param $a i32) (param $b i64) (result i32)\n    (local $x i32) (local $y f64)\n    local.get $x)\n)\n',
    "names-type-decl": '(module\n  (type $t (func (param $tp i32)))\n  (import "env" "imp" (func $imp (param $ia i32)))\n  (func $f (param $a i32))\n  (func $g)\n)\n',
    "start-third": '(module\n  (func $a)\n  (func $b (result i32) i32.const 1)\n  (func $c)\n  (start $c)\n)\n',
    "start-non-nullary-first": '(module\n  (func $a (result i32) i32.const 1)\n  (func $c)\n  (start $c)\n)\n',
    "select-typed": '(module\n  (func $f (export "f") (result i32) i32.const 1 i32.const 2 i32.const 0 select (result i32))\n)\n',
    "nop": '(module\n  (func $f nop)\n)\n',
    "f64-global": '(module\n  (global $g f64 (f64.const 1.5))\n)\n',
    "import-memory-max": '(module\n  (import "env" "memory" (memory 1 2))\n)\n',
    "import-table": '(module\n  (import "env" "tab" (table 1 funcref))\n)\n',
    "import-global-mut": '(module\n  (import "env" "g" (global $g (mut i32)))\n)\n',
    "dup-type": '(module\n  (type $a (func (param i32)))\n  (type $b (func (param i32)))\n  (func $f (param i32))\n)\n',
    "unnamed-func-and-local": '(module\n  (func (param i32) (local i64) (local $x f32))\n  (func $g)\n)\n',
    "ident-digit": '(module\n  (func $f (param $a i32) (result i32)\n    (local $7 i32)\n    local.get $7)\n)\n',
    "elem-index-64": "(module\n  (table 1 funcref)\n" + "".join("  (func $f%d)\n" % i for i in range(66)) + "  (elem (i32.const 0) $f65)\n)\n",
    "export-order": '(module\n  (memory 1)\n  (func $f (export "f"))\n  (export "memory" (memory 0))\n)\n',
    "label-shadow-block": '(module\n  (func $f (export "f") (param $p i32) (result i32)\n    block $L\n      block $L\n        local.get $p\n        br_if $L\n        br $L\n      end\n      i32.const 7\n      return\n    end\n    i32.const 9\n  )\n)\n',
    "label-shadow-loop-if": '(module\n  (func $f (export "f") (param $p i32) (result i32)\n    block $L\n      loop $L\n        local.get $p\n        if $L\n          br $L\n        end\n        block $M\n          block $L\n            local.get $p\n            br_table $L $M $L\n          end\n        end\n        br 1\n      end\n    end\n    i32.const 3\n  )\n)\n',
}


def gen_inputs(ctx):
    rng = ctx.rng
    ins = []
    cdir = os.path.join(vlib.VERIF, "corpus", "C04")
    for p in sorted(glob.glob(os.path.join(cdir, "*.wat"))):
        ins.append(("corpus:" + os.path.basename(p), "file", p, {"stream": "corpus", "text": open(p, "rb").read()}))
    for name, text in sorted(FIXED.items()):
        ins.append(("fixed:" + name, "hex", text.encode().hex(), {"stream": "fixed", "text": text.encode()}))
    for name, text in sorted(c05_watgen.FIXED.items()):
        ins.append(("fixed5:" + name, "hex", text.encode().hex(), {"stream": "fixed", "text": text.encode()}))
    repo = vlib.REPO
    files = []
    for root, dirs, fs in os.walk(repo):
        dirs[:] = [d for d in dirs if d != ".git"]
        for f in fs:
            if f.endswith(".wat") or f.endswith(".wat.ws"):
                files.append(os.path.join(root, f))
    for p in sorted(files):
        ins.append(("repo:" + os.path.relpath(p, repo), "file", p, {"stream": "repo", "text": open(p, "rb").read()}))
    was = ["waroot/examples/hello/hello.wa", "waroot/examples/brainfuck.wa", "waroot/examples/copy.wa", "waroot/examples/struct.wa"]
    if ctx.tier != "quick":
        was += sorted(os.path.relpath(p, repo) for p in glob.glob(os.path.join(repo, "waroot/examples/*.wa")) +
                      glob.glob(os.path.join(repo, "waroot/examples/*/*.wa")) + glob.glob(os.path.join(repo, "waroot/tests/*.wa")))
    seen = set()
    for w in was:
        p = os.path.join(repo, w)
        if w in seen or not os.path.exists(p):
            continue
        seen.add(w)
        ins.append(("wa:" + w, "wa", p, {"stream": "compiler"}))
    n_main = 200 if ctx.tier == "quick" else 3000
    for i in range(n_main):
        m = c05_watgen.gen_module(rng, size=1 + i % 3)
        ins.append(("gen:%d" % i, "hex", m.text.encode().hex(), {"stream": "generated", "text": m.text.encode(), "features": sorted(m.features)}))
    # many distinct types: multi-value block/loop/if types (signed s33 index) and call_indirect type uses (u32) at the
    # LEB128 boundaries 63|64, 127|128 (thorough: 8191|8192), types introduced explicitly / by function signatures / mixed
    many = [((63, 64, 127, 128), "explicit"), ((63, 64, 127, 128), "funcs"), ((63, 64, 127, 128), "mixed"),
            ((62, 63, 64, 65, 71, 100, 126, 127, 128, 129), "explicit"), ((64, 65, 127), "mixed"), ((70,), "funcs")]
    if ctx.tier != "quick":
        many += [((63, 64, 127, 128, 8191, 8192), "explicit"), ((8191, 8192), "funcs"), ((64, 8190, 8191, 8192, 8193), "mixed")]
        many += [(tuple(sorted(rng.sample(range(2, 300), 8))), None) for _ in range(30)]
    for i, (targets, mode) in enumerate(many):
        m = c05_watgen.gen_many_types(rng, targets=targets, mode=mode)
        ins.append(("many-types:%d:%s:%s" % (i, mode, "-".join(map(str, targets))), "hex", m.text.encode().hex(),
                    {"stream": "many-types", "text": m.text.encode(), "features": sorted(m.features)}))
    n_trig = 5 if ctx.tier == "quick" else 50
    for t in TRIGGERS:
        trig = (t,) if t != "start-not-first" else ("start", "start-not-first")
        for i in range(n_trig):
            m = c05_watgen.gen_module(rng, size=1 + i % 2, triggers=trig)
            ins.append(("trig:%s:%d" % (t, i), "hex", m.text.encode().hex(),
                        {"stream": "trigger:" + t, "text": m.text.encode(), "features": sorted(m.features)}))
    return ins


def strict_inc(xs):
    return all(a < b for a, b in zip(xs, xs[1:]))


def parse_local(s):
    """names.local value -> [(fidx, [(i, hexname)])]"""
    out = []
    if s in (None, "-"):
        return out
    for e in s.split(";"):
        f, _, rest = e.partition(":")
        inner = rest[1:-1]
        out.append((int(f), [] if inner == "-" else [(int(x.split(":")[0]), x.split(":")[1]) for x in inner.split(",")]))
    return out


def resolve_types(d, key):
    """function/import type indices -> signatures (so that a renumbering of the type section is reported once)"""
    tys = (d.get("types") or "").split(";") if d.get("types") not in (None, "-") else []
    v = d.get(key)
    if v in (None, "-"):
        return v
    if key == "funcs":
        return ",".join(tys[int(i)] if int(i) < len(tys) else "?%s" % i for i in v.split(","))
    out = []
    for it in v.split(";"):
        m = re.match(r"(.*:func:)(\d+)$", it)
        out.append(m.group(1) + (tys[int(m.group(2))] if int(m.group(2)) < len(tys) else "?") if m else it)
    return ";".join(out)


def compare_dumps(exp, got, mod):
    """-> list of (key, what)"""
    out = []
    if got.get("wf") != "ok":
        out.append(("binary-malformed:" + str(got.get("wf")), "the Lean decoder reports %s" % got.get("wf")))
    e_types, g_types = exp.get("types"), got.get("types")
    if e_types != g_types:
        sigs = [(tuple(t for _, t in ty["params"]), tuple(ty["results"])) for ty in mod.types]
        key = "types:explicit-duplicates-merged" if len(set(sigs)) < len(sigs) else "types:other"
        out.append((key, "type section: text describes [%s], binary has [%s]" % (e_types, g_types)))
    for k in ("funcs", "imports"):
        a, b = resolve_types(exp, k), resolve_types(got, k)
        if a != b:
            cause = k + ":other"
            if k == "imports" and any(i["kind"] == "memory" and i["max"] is not None for i in mod.imports) and \
                    re.sub(r"(:memory:\d+:)\d+", r"\1-", a or "") == b:
                cause = "import-memory:max-dropped"
            out.append((cause, "%s: text describes %s, binary has %s" % (k, a, b)))
    for k in ("tables", "mems", "globals", "elems", "code", "data"):
        if exp.get(k) != got.get(k):
            out.append((k + ":differs", "%s: text describes %s, binary has %s" % (k, str(exp.get(k))[:200], str(got.get(k))[:200])))
    if exp.get("start") != got.get("start"):
        out.append(("start:index-always-first-defined-function" if got.get("start") is not None and exp.get("start") is not None else "start:differs",
                    "start: text describes function %s, binary has %s" % (exp.get("start"), got.get("start"))))
    ea = sorted((exp.get("exports") or "-").split(";"))
    ga = sorted((got.get("exports") or "-").split(";"))
    if ea != ga and any(f["name"] is None and f["export"] is not None for f in mod.funcs):
        out.append(("export:inline-export-of-unnamed-func", "exports: text describes %s, binary has %s" % (exp.get("exports"), got.get("exports"))))
    elif ea != ga:
        out.append(("exports:differ", "exports: text describes %s, binary has %s" % (exp.get("exports"), got.get("exports"))))
    # name section
    if exp.get("names.module") != got.get("names.module"):
        out.append(("names:module-name", "module name %s vs %s" % (exp.get("names.module"), got.get("names.module"))))
    el, gl = parse_local(exp.get("names.local")), parse_local(got.get("names.local"))
    gf = got.get("names.func")
    problems = []
    if any(not strict_inc([i for i, _ in inner]) for _, inner in gl):
        problems.append(("names:local-index-restarts-after-params",
                         "local-name indices are not strictly increasing inside a function entry: %s (text describes %s)" % (got.get("names.local"), exp.get("names.local"))))
    if not strict_inc([f for f, _ in gl]) or len(gl) != len(el):
        problems.append(("names:type-decl-entries" if mod.types else "names:function-entries",
                         "local-name subsection has %d function entries with indices %s; the module has %d functions" % (len(gl), [f for f, _ in gl], len(el))))
    if any(n == "-" for _, inner in gl for _, n in inner) or (gf not in (None, "-") and any(x.endswith(":-") for x in gf.split(","))):
        problems.append(("names:empty-name-for-unnamed", "entries with an empty name for items the text leaves unnamed: func=%s local=%s" % (gf, got.get("names.local"))))
    if gf not in (None, "-") and not strict_inc([int(x.split(":")[0]) for x in gf.split(",")]):
        problems.append(("names:function-indices-not-increasing", "function names %s" % gf))
    ed = dict(el)
    for f, inner in gl:
        want = ed.get(f)
        if want is not None and [n for _, n in inner] == [n for _, n in want] and inner != want and \
                not any(k == "names:local-index-restarts-after-params" for k, _ in problems):
            problems.append(("names:local-index-restarts-after-params",
                             "function %d: the text describes local names %s, the binary has %s (locals numbered from 0 instead of after the parameters)" % (f, want, inner)))
    if not problems and (exp.get("names.local") != got.get("names.local") or exp.get("names.func") != gf):
        problems.append(("names:other", "name section: text describes func=%s local=%s, binary has func=%s local=%s" % (
            exp.get("names.func"), exp.get("names.local"), gf, got.get("names.local"))))
    out += problems
    return out


def asm_cause(msg, text=b""):
    if re.search(rb"\$\d", text or b"") and ("out of range" in msg or "unknown" in msg or "invalid local index" in msg or "invalid" in msg):
        return "ident:digit-prefix-treated-as-index"
    if "typed_select" in msg:
        return "select-typed:vector-length-missing"
    if re.search(rb"(block|loop|if)\s+(\$\S+\s+)?\(result\s+\w+\s+\w+", text or b"") and msg.startswith("invalid function") and b"gen_many_types" in (text or b""):
        return "blocktype:index-encoding"
    if "invalid start function" in msg:
        return "start:index-always-first-defined-function"
    if "unknown func local" in msg or "invalid local index" in msg or "unknown global" in msg or "unknown func" in msg:
        return "ident:digit-prefix-treated-as-index"
    return "asm-error:" + re.sub(r"[^a-z ]+", "", msg.lower())[:40].strip().replace(" ", "-")


def parse_cause(text, msg):
    """why the real parser rejects a text that the independent reader accepts"""
    m = re.search(r":(\d+):(\d+):", msg)
    tok = ""
    if m:
        ls = text.decode("utf-8", "replace").split("\n")
        k = int(m.group(1)) - 1
        if 0 <= k < len(ls):
            tok = ls[k][int(m.group(2)) - 1:].split()[0] if ls[k][int(m.group(2)) - 1:].split() else ""
    if tok.startswith("nop") or "got nop" in msg:
        return "parser-rejects:nop"
    if "f64.const" in msg:
        return "parser-rejects:f64-global"
    if "funcref" in msg:
        return "parser-rejects:import-table-with-reftype"
    if "mut" in tok or "got (" in msg:
        return "parser-rejects:other-paren"
    return "parser-rejects:" + re.sub(r"[^a-z0-9.]+", "-", tok.lower())[:20]


def run(ctx):
    import time
    t0 = time.time()
    timing = {}
    h = ctx.build_harness("c04")
    ctx.prove(required=REQUIRED)
    model = ctx.build_model("c04")
    timing["build"] = round(time.time() - t0, 1)
    if not model:
        return ctx.finish("translation_validation", {"evaluations": 0, "distinct_nontrivial": 0, "rule": "model driver did not build", "samples": [], "distribution": {}})

    inputs = gen_inputs(ctx)
    lines = ["%s %s" % (op, arg) for _, op, arg, _ in inputs]
    outs = run_chunks(ctx, h, lines)
    timing["harness"] = round(time.time() - t0, 1)

    dist = {"streams": {}, "status": {}, "reader_rejects": 0, "export_order_differs": 0, "features": {}}
    recs = []
    for (label, op, arg, meta), l in zip(inputs, outs):
        d = dict(kv.partition("=")[::2] for kv in l.split(" ")) if l and not l.startswith(("PANIC", "<missing>")) else {"st": "harness-failure"}
        st = d.get("st", "?")
        dist["status"][st] = dist["status"].get(st, 0) + 1
        dist["streams"][meta["stream"]] = dist["streams"].get(meta["stream"], 0) + 1
        text = meta.get("text")
        if text is None and "src" in d:
            text = bytes.fromhex(d["src"]) if d["src"] != "-" else b""
        r = {"label": label, "meta": meta, "st": st, "text": text, "viol": [],
             "detail": bytes.fromhex(d["detail"]).decode("utf-8", "replace") if d.get("detail", "-") != "-" else ""}
        if st == "ok":
            r["w"] = bytes.fromhex(d["w"]) if d["w"] != "-" else b""
        for f in meta.get("features", []):
            dist["features"][f] = dist["features"].get(f, 0) + 1
        recs.append(r)

    def replay_of(r):
        rp = {"input": r["label"], "stream": r["meta"]["stream"]}
        if r["text"] is not None and len(r["text"]) < 20000:
            rp["wat"] = r["text"].decode("utf-8", "replace")
        return rp

    def viol(r, key, what):
        r["viol"].append(key)
        ctx.violation(key, "%s: %s" % (r["label"], what), replay_of(r))

    # ---------------------------------------------------------------- the text side (independent reader)
    for r in recs:
        r["mod"] = r["exp"] = None
        if r["st"] in ("read-error", "build-error", "harness-failure") or r["text"] is None:
            continue
        try:
            r["mod"] = W.read_module(r["text"])
            r["exp"] = W.expected_dump(r["mod"])
        except (W.WatError, ValueError, IndexError, KeyError, TypeError) as e:
            r["reader_error"] = repr(e)[:200]
            dist["reader_rejects"] += 1

    # ---------------------------------------------------------------- failures of the assembler on texts the reader understands
    for r in recs:
        if r["exp"] is None:
            continue
        if r["st"] == "parse-error":
            # standard text the independent reader reads, the real parser rejects: only reported for the
            # constructs the parser has code for (nop, f64 globals); everything else is "outside the subset"
            c = parse_cause(r["text"], r["detail"])
            if c in ("parser-rejects:nop", "parser-rejects:f64-global"):
                viol(r, c, "parser.ParseModule rejects a construct it has a case for: %s" % r["detail"])
            else:
                dist.setdefault("outside_subset", {})
                dist["outside_subset"][c] = dist["outside_subset"].get(c, 0) + 1
        elif r["st"] in ("asm-error", "asm-panic"):
            c = asm_cause(r["detail"], r["text"])
            by_construction = r["meta"]["stream"] in ("fixed", "generated", "many-types", "corpus") or r["meta"]["stream"].startswith("trigger:")
            if by_construction or r["st"] == "asm-panic" or not c.startswith("asm-error:"):
                viol(r, c, "Wat2Wasm fails on a text the parser accepts: %s" % r["detail"])
            else:
                # a repo / compiler text of unknown validity rejected by the assembler's own validator
                dist.setdefault("rejected_unknown_validity", {})
                dist["rejected_unknown_validity"][r["label"]] = r["detail"][:120]

    # ---------------------------------------------------------------- decode every binary with the Lean codec; V8
    oks = [r for r in recs if r["st"] == "ok"]
    dec_lines = ["dec " + (r["w"].hex() or "-") for r in oks]
    name_lines = [W.names_op(r["mod"]) if r["mod"] is not None else "names - 0" for r in oks]
    mouts = run_chunks(ctx, model, dec_lines + name_lines)
    ctx.corr["lines"] += len(dec_lines) + len(name_lines)
    timing["lean_decode"] = round(time.time() - t0, 1)
    js = os.path.join(vlib.VERIF, "extract", "c04_wasminfo.js")
    nlines = [(r["w"].hex() or "-") for r in oks]
    k = max(1, (len(nlines) + 5) // 6)
    chunks = [nlines[i:i + k] for i in range(0, len(nlines), k)]
    with cf.ThreadPoolExecutor(6) as ex:
        res = list(ex.map(lambda c: vlib.subprocess.run(["node", js], input="\n".join(c) + "\n", stdout=vlib.subprocess.PIPE,
                                                       text=True, timeout=900).stdout.splitlines(), chunks))
    nouts = [x for c in res for x in c]
    if len(nouts) != len(nlines):
        raise vlib.InfraError("node helper returned %d lines for %d inputs" % (len(nouts), len(nlines)))
    timing["node"] = round(time.time() - t0, 1)

    tie = {"decoded": 0, "dump_equal": 0, "v8_valid": 0, "v8_name_section_agrees": 0, "model_names_equal": 0, "model_names_checked": 0}
    nontrivial = set()
    for i, r in enumerate(oks):
        got = W.parse_dump(mouts[i])
        r["got"] = got
        tie["decoded"] += 1
        nj = json.loads(nouts[i])
        if not nj["valid"]:
            viol(r, "invalid-binary:" + re.sub(r"[^a-z]+", "-", nj["err"].lower())[:40], "V8 rejects the binary: %s" % nj["err"])
        else:
            tie["v8_valid"] += 1
        secs = sections(r["w"])
        body = secs.get("custom:name")
        if nj["valid"] and body is not None:
            if nj["names"] and bytes.fromhex(nj["names"][0]) == body[5:]:
                tie["v8_name_section_agrees"] += 1
            else:
                ctx.proof["broken"].append({"theorem": "correspondence C04 name-section bytes (python splitter vs V8)", "why": r["label"]})
        if r["exp"] is None:
            continue
        nontrivial.add(r["w"])
        diffs = compare_dumps(r["exp"], got, r["mod"])
        if (r["exp"].get("exports") or "-") != (got.get("exports") or "-") and not any(k == "exports:differ" for k, _ in diffs):
            dist["export_order_differs"] += 1
        if not diffs:
            tie["dump_equal"] += 1
        for key, what in diffs:
            viol(r, key, what)
        # CODE: the independent Python encoder of the flat instruction syntax (validated against the stored WABT
        # outputs below) against the bytes of the real assembler, function by function
        try:
            mine = W.encode_code_functions(r["mod"])
        except (W.WatError, ValueError, IndexError, KeyError, TypeError) as e:
            mine = None
            dist["code_reference_unsupported"] = dist.get("code_reference_unsupported", 0) + 1
        if mine is not None:
            theirs = W.split_code_section(secs["code"]) if "code" in secs else []
            tie["code_compared"] = tie.get("code_compared", 0) + 1
            tie["code_functions"] = tie.get("code_functions", 0) + len(mine)
            if mine == theirs:
                tie["code_equal"] = tie.get("code_equal", 0) + 1
            elif W.encode_code_functions(r["mod"], elide_empty_else=True) == theirs:
                # `if … else end`: the assembler drops the opcode of an EMPTY else branch (same meaning, one byte shorter)
                tie["code_equal_modulo_empty_else"] = tie.get("code_equal_modulo_empty_else", 0) + 1
            elif any(k == "types:explicit-duplicates-merged" for k in r["viol"]) and theirs in (
                    W.encode_code_functions(r["mod"], merge_explicit_types=True),
                    W.encode_code_functions(r["mod"], elide_empty_else=True, merge_explicit_types=True)):
                # type indices inside the code follow the (listed) merged numbering of the type section; nothing else differs
                tie["code_equal_under_merged_types"] = tie.get("code_equal_under_merged_types", 0) + 1
            else:
                j = next((x for x in range(min(len(mine), len(theirs))) if mine[x] != theirs[x]), min(len(mine), len(theirs)))
                a = mine[j].hex() if j < len(mine) else "<absent>"
                b = theirs[j].hex() if j < len(theirs) else "<absent>"
                k = next((x for x in range(min(len(a), len(b))) if a[x] != b[x]), 0) & ~1
                viol(r, "code:function-body-differs", "function %d: the text describes …%s, the binary has …%s (byte offset %d)" % (
                    j, a[max(0, k - 8):k + 24], b[max(0, k - 8):k + 24], k // 2))
        # the model's name section for this text, encoded with the proved encoder, against the real bytes
        mo = mouts[len(oks) + i].split()
        if len(mo) == 3 and mo[1] == "inc=1" and mo[2] == "rt=1":
            tie["model_names_checked"] += 1
            mbody = bytes.fromhex(mo[0]) if mo[0] != "-" else b""
            if body is not None and mbody == body:
                tie["model_names_equal"] += 1
            elif not any(k.startswith("names:") for k in r["viol"]):
                # the bytes differ although the decoded entries agree with the text
                viol(r, "names:bytes-differ-from-model", "name section bytes %s, model %s" % ((body or b"").hex()[:120], mbody.hex()[:120]))
        else:
            ctx.corr["diffs"] += 1
            ctx.proof["broken"].append({"theorem": "names_strictly_increasing / decode_encode (executed)", "why": "%s: driver says %r" % (r["label"], mouts[len(oks) + i][:200])})

    # ---------------------------------------------------------------- label resolution: model vs the real findLabelIndex
    lab_ops_h, lab_ops_m = [], []
    names = ["a", "b", "L1", "$x", "loop.1", "a"]
    for _ in range(1500 if ctx.tier == "quick" else 30000):
        depth = ctx.rng.randrange(0, 7)
        scope = [ctx.rng.choice(names + [None, None]) for _ in range(depth)]          # outermost first
        lab = ctx.rng.choice(names + ["zz"])
        enc = lambda x: "-" if x is None else x.encode().hex()
        lab_ops_h.append("label %s %s" % (lab.encode().hex(), " ".join(enc(x) for x in scope)))
        lab_ops_m.append("label %s %s" % (lab.encode().hex(), " ".join(enc(x) for x in reversed(scope))))
    lh = run_chunks(ctx, h, lab_ops_h, nproc=2)
    lm = run_chunks(ctx, model, lab_ops_m, nproc=2)
    for i, op, a, b in ctx.diff_lines(lab_ops_h, lh, lm)[:10]:
        ctx.proof["broken"].append({"theorem": "correspondence C04 resolveLabel vs findLabelIndex", "why": "op %r impl=%r model=%r" % (op, a, b)})
    tie["label_ops"] = len(lab_ops_h)
    tie["label_resolved"] = sum(1 for x in lh if x.startswith("some"))

    # ---------------------------------------------------------------- block type index: the reference encoder's s33 = the proved model's
    bts = [0, 1, 62, 63, 64, 65, 71, 100, 126, 127, 128, 129, 8190, 8191, 8192, 8193, 1048575, 1048576, (1 << 32) - 1]
    bo = run_chunks(ctx, model, ["bt %d" % i for i in bts], nproc=1)
    for i, l in zip(bts, bo):
        if l.split() != [W.sleb(i).hex(), W.uleb(i).hex()]:
            ctx.proof["broken"].append({"theorem": "correspondence C04 reference s33/u32 encoder vs Lean encS/encU", "why": "%d: %r" % (i, l)})
    tie["blocktype_encodings_checked"] = len(bts)

    # ---------------------------------------------------------------- the stored WABT outputs
    wabt = {"files": 0, "reference_reader_equal": 0, "wa_sections_equal": 0, "wa_bytes_equal": 0}
    td = os.path.join(vlib.REPO, "internal/wat/watutil/testdata")
    wfiles = [p for p in sorted(glob.glob(os.path.join(td, "*.wat"))) if os.path.exists(p + ".wasm")]
    wlines = ["dec " + open(p + ".wasm", "rb").read().hex() for p in wfiles]
    wd = run_chunks(ctx, model, wlines, nproc=2)
    bylabel = {r["label"]: r for r in recs}
    for p, l in zip(wfiles, wd):
        wabt["files"] += 1
        ref = open(p + ".wasm", "rb").read()
        gotw = W.parse_dump(l)
        r = bylabel.get("repo:" + os.path.relpath(p, vlib.REPO))
        if r is None:
            continue
        if r["exp"] is not None:
            e = dict(r["exp"])
            g = {k: v for k, v in gotw.items() if k != "names.other"}
            if e == g:
                wabt["reference_reader_equal"] += 1
            else:
                # my reference disagrees with WABT: the check's own reference is wrong here
                ctx.proof["broken"].append({"theorem": "reference reader vs stored WABT output", "why": "%s: %s" % (
                    os.path.basename(p), [(k, e.get(k), g.get(k)) for k in sorted(set(e) | set(g)) if e.get(k) != g.get(k)][:3])})
        if r["mod"] is not None:
            try:
                cm = W.encode_code_functions(r["mod"])
                cref = sections(ref).get("code")
                if cm == (W.split_code_section(cref) if cref else []):
                    wabt["reference_code_encoder_equal"] = wabt.get("reference_code_encoder_equal", 0) + 1
                else:
                    ctx.proof["broken"].append({"theorem": "reference code encoder vs stored WABT output", "why": os.path.basename(p)})
            except (W.WatError, ValueError, IndexError, KeyError, TypeError) as e:
                ctx.proof["broken"].append({"theorem": "reference code encoder vs stored WABT output", "why": "%s: %r" % (os.path.basename(p), e)})
        if r["st"] != "ok":
            continue
        s1, s2 = sections(r["w"]), sections(ref)
        same = True
        for sec in sorted(set(s1) | set(s2)):
            if sec.startswith("custom"):
                continue
            if s1.get(sec) != s2.get(sec):
                same = False
                if not r["viol"]:
                    viol(r, "wabt-corpus:" + sec, "section %s differs from the stored WABT output: %s vs %s" % (
                        sec, (s1.get(sec) or b"").hex()[:80] or "<absent>", (s2.get(sec) or b"").hex()[:80] or "<absent>"))
        wabt["wa_sections_equal"] += same
        wabt["wa_bytes_equal"] += r["w"] == ref
    timing["total"] = round(time.time() - t0, 1)
    ctx.notes.append("cumulative seconds per stage: %s" % timing)

    samples = []
    for r in oks[:: max(1, len(oks) // 10)][:10]:
        samples.append({"input": r["label"], "wasm_bytes": len(r["w"]), "secs": r.get("got", {}).get("secs"), "violations": r["viol"]})
    cov = {
        "evaluations": len([r for r in recs if r["exp"] is not None]),
        "distinct_nontrivial": len(nontrivial),
        "rule": "inputs = fixed probes + every .wat/.wat.ws under /repo + compiler output (api.BuildFile) + generated modules (main stream "
                "avoiding listed triggers; one labelled stream per trigger); an input is evaluated when the independent reader understands the "
                "text; distinct_nontrivial = distinct binaries produced by the real assembler whose decoded dump was compared with the text's",
        "samples": samples,
        "distribution": dist,
        "tie": tie,
        "wabt_corpus": wabt,
    }
    return ctx.finish("translation_validation", cov,
                      assumptions=["export order is compared as a multiset", "instruction bodies: independent Python encoder (validated against stored WABT outputs) + V8 validation"],
                      trusted_base=["independent Python WAT reader extract/c04_watread.py (validated against the stored WABT outputs on every run)",
                                    "V8 (node) as validator and custom-section extractor", "hand-written Lean codec Model/C04*.lean (decoder used for the dump)"])
