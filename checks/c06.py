"""C06 — dead-code stripping (--optimize / wa watstrip) preserves behaviour."""
import concurrent.futures as cf
import glob
import json
import os

from lib import vlib
from gen.c06_watgen import gen_module, import_matrix

PROP = "C06"
META = {
    "category": "proof",
    "text": "Lean theorems over a model of the pass (module = function names + body skeletons + roots; mark = fuelled worklist "
            "closure; strip keeps marked functions and marked function imports): roots kept, kept set call-closed, exactly the "
            "unreachable names removed, result well-formed, fuel = number of names suffices, and over an abstract call-graph "
            "interpreter (direct calls, call_indirect through a mutable funcref table, host imports) every root and every call "
            "sequence on roots runs identically in the stripped module. A second Lean definition transcribes the REAL pass "
            "(remove_unused.go); it is proved equal to the specified pass on modules whose roots are defined functions, exports are "
            "named and no table.set occurs, and decide-checked witnesses show where it breaks. The transcription is tied to "
            "_RemoveUnusedPass.DoPass by a correspondence run (repo WAT files, compiler output, generated modules); the property's "
            "own oracle (assemble + instantiate + call every export on wazero before/after WatStrip; removed set vs two independent "
            "reachability computations) runs on the real code.",
    "note": "Trusted: Lean kernel; the hand-written transcription's tie to the Go code is differential (correspondence), not a proof; "
            "the abstract interpreter stands for WebAssembly semantics (function bodies are arbitrary programs over an abstract "
            "state that may call by name, call through the table and copy table slots; loops only via recursion); the WAT "
            "parser/printer around the pass are exercised by the oracle only (C05's obligation).",
    "technique": "Lean 4 proof over hand-written model + differential correspondence with the real pass + behavioural oracle on wazero",
}
REQUIRED = ["walk_finds_nested_calls", "walk_never_stops", "mark_iff_reach", "fuel_sufficient", "roots_kept", "kept_call_closed",
            "kept_only_reachable", "removed_iff_unreachable", "strip_valid_refs", "strip_keeps_rest",
            "run_congr_closed", "strip_preserves", "strip_preserves_seq", "real_eq_spec",
            "real_drops_elem_only_import", "real_drops_exported_import", "real_panics_on_table_set",
            "real_ignores_empty_export_name"]

# streams of generated modules: (label, features, share of the volume)
STREAMS = [
    ("main", (), 0.52),
    ("table_set_dead", ("table_set_dead",), 0.06),
    ("tabfunc", ("tabfunc", "table_set"), 0.04),
    # the rest contain one trigger of a defect recorded for the pinned tree each
    ("start", ("start",), 0.06),
    ("noninline", ("noninline",), 0.06),
    ("import_root", ("import_root",), 0.07),
    ("table_set", ("table_set",), 0.06),
    ("empty_export", ("empty_export",), 0.04),
    ("unnamed", ("unnamed",), 0.04),
    ("numeric", ("numeric", "noninline"), 0.05),
]

WA_EXAMPLES = ["waroot/examples/brainfuck.wa", "waroot/examples/copy.wa", "waroot/examples/eq.wa",
               "waroot/examples/interface_named.wa", "waroot/examples/hello/hello.wa", "waroot/examples/fib/fib.wa"]


# probe modules: which Variant (Model/C06.lean) does the current remove_unused.go implement?
PROBES = [
    # importRoots: an import referenced only from elem is kept
    ('(module (import "env" "h" (func $h)) (table 1 funcref) (func $f (export "f")) (elem (i32.const 0) $h))',
     lambda kept: "$h" in kept.split()),
    # tableSetLookup: table.set $t marks the function called $t
    ('(module (table $t 1 funcref) (func $t) (func $f (export "f") i32.const 0 i32.const 0 table.get $t table.set $t))',
     lambda kept: "$t" in kept.split()),
    # skipUnnamedExports: (export "" (func $f)) does not keep $f
    ('(module (func $f) (export "" (func $f)))',
     lambda kept: "$f" not in kept.split()),
    # nilPanics: a call to a name that is not a function crashes the pass
    ('(module (func $f (export "f") call $nope))',
     lambda kept: kept.startswith("PANIC")),
]


def d(names):
    return " ".join("$" + n for n in names)


def kept_line(funcs, imps):
    return ("F " + d(funcs) + " I " + d(imps)).strip().replace("  ", " ")


def norm(s):
    return " ".join((s or "").split())


def parse_kept(s):
    """'F $a $b I $x' -> (['$a','$b'], ['$x'])"""
    t = (s or "").split()
    if not t or t[0] != "F" or "I" not in t:
        return None
    i = t.index("I")
    return t[1:i], t[i + 1:]


def run_batch(ctx, h, ops, timeout):
    rc, out, err = ctx.run_bin(h, ("-timeout", str(timeout)), "\n".join(ops) + "\n", timeout=timeout * 4 + 120)
    res = []
    for ln in out.splitlines():
        try:
            res.append(json.loads(ln))
        except ValueError:
            res.append({"status": "harness-garbage", "detail": ln[:200]})
    while len(res) < len(ops):
        res.append({"status": "timeout" if res else "harness-died", "detail": (err or "")[-300:]})
    return res[:len(ops)]


def classify(item, o):
    """The property's own predicate on the real code's answers for one input module.
    Returns (violations [(key, what)], notes [str], trivial: bool)."""
    flags = set(o.get("flags") or [])
    viol, notes = [], []
    what0 = "%s: " % item["label"]
    if o.get("orig_asm") != "ok":
        return viol, ["input-does-not-assemble"], True
    kept = o.get("kept", "")
    causes = []
    # --- the pass itself
    if kept.startswith("PANIC"):
        key = "pass:table.set-nil-deref" if "table.set" in flags else "pass:panic"
        causes.append((key, what0 + "DoPass panics (%s) on a module Wat2Wasm accepts; flags=%s" % (kept[6:80], sorted(flags))))
    else:
        refs = o.get("refs") or []
        if refs:
            kinds = {r.split(":")[0] for r in refs}
            if "call" in kinds:
                key = "pass:call-target-removed"      # a printed `call $g` whose $g the pass deleted
            elif flags & {"numeric-elem", "numeric-export"} and not flags & {"import-as-elem", "import-as-export", "import-as-start"}:
                key = "pass:numeric-funcidx-not-root"
            elif flags & {"import-as-elem", "import-as-export", "import-as-start"}:
                key = "pass:import-root-dropped"
            elif "empty-export-name" in flags and kinds == {"export"}:
                key = "pass:empty-export-name-not-root"
            else:
                key = "pass:dangling-ref"
            causes.append((key, what0 + "DoPass output references functions it removed: %s" % refs[:4]))
        pk, ik = parse_kept(kept), parse_kept(o.get("indep", ""))
        exp = item.get("expect")
        ek = parse_kept(exp) if exp else None
        ref = ek if ek is not None else ik          # generator's graph when there is one (handles numeric refs)
        if pk and ref:
            lost = [n for n in ref[0] + ref[1] if n not in pk[0] + pk[1]]
            extra = [n for n in pk[0] + pk[1] if n not in ref[0] + ref[1]]
            if lost and not refs:
                if "empty-export-name" in flags:
                    key = "pass:empty-export-name-not-root"
                elif flags & {"numeric-elem", "numeric-export"}:
                    key = "pass:numeric-funcidx-not-root"
                else:
                    key = "pass:reachable-removed"
                causes.append((key, what0 + "reachable functions removed: %s" % lost[:5]))
            if extra:
                notes.append("over-kept")
                if not ("table.set" in flags):
                    causes.append(("pass:unreachable-kept", what0 + "unreachable functions kept: %s" % extra[:5]))
        if ek is not None and ik is not None and not (flags & {"numeric-elem", "numeric-export"}) and not item.get("unnamed"):
            if ek != ik:
                notes.append("INDEP-DISAGREE")    # the two independent reachability computations differ: check bug
    # --- parse . pass . print
    st = o.get("strip", "")
    if st != "ok" and not kept.startswith("PANIC"):
        if "import-table" in flags and "TODO" in st:
            key = "printer:table-import-todo"
        else:
            key = "printer:unnamed-func-panic" if "unnamed-func" in flags else "strip:" + st.split(":")[0]
        causes.append((key, what0 + "WatStrip fails after the pass succeeded: %s" % st[:120]))
    for t in o.get("text") or []:
        if t == "start":
            causes.append(("printer:start-dropped", what0 + "the text WatStrip returns has no start function (input has one)"))
        elif t.startswith("pass-changed-"):
            causes.append(("pass:changed-" + t[13:], what0 + "DoPass changed a part of the module that is not a function or function import: %s (memory/global/table imports, start, exports, elem, memory, table, globals, data, types must come out as they went in)" % t[13:]))
        elif t == "func-exports":
            causes.append(("printer:noninline-func-export-dropped", what0 + "function exports written as (export \"n\" (func $f)) are missing from the text WatStrip returns"))
        else:
            causes.append(("strip:%s-changed" % t, what0 + "field %s differs between DoPass's module / the input and the re-parsed WatStrip text" % t))
    # --- binary level / behaviour: attributed to the causes above when there are any
    sym = []
    if st == "ok":
        if o.get("strip_asm") != "ok":
            sym.append(("strip:does-not-assemble", "stripped text rejected by Wat2Wasm: %s" % o.get("strip_asm", "")[:120]))
        elif o.get("orig_inst") == "ok":
            if o.get("strip_inst") != "ok":
                sym.append(("strip:does-not-instantiate", "stripped module fails to instantiate: %s" % o.get("strip_inst", "")[:120]))
            if o.get("exports_lost") or o.get("exports_new"):
                sym.append(("strip:export-set-changed", "exports lost %s / new %s" % (o.get("exports_lost"), o.get("exports_new"))))
            if o.get("diffs"):
                sym.append(("behaviour:differs", "call results differ: %s" % o["diffs"][:2]))
        else:
            notes.append("orig-not-instantiable")
    if causes:
        viol += causes
    elif sym and flags & {"numeric-elem", "numeric-export"}:
        viol.append(("pass:numeric-funcidx-not-root", what0 + "numeric function indices are neither roots nor renumbered: " + "; ".join(w for _, w in sym)[:300]))
    else:
        viol += [(k, what0 + w) for k, w in sym]
    trivial = o.get("nfuncs", 0) == 0
    return viol, notes, trivial


def run(ctx):
    import time
    t0 = time.time()
    h = ctx.build_harness("c06")
    t1 = time.time()
    ctx.prove(required=REQUIRED)
    model = ctx.build_model("c06")
    t2 = time.time()
    quick = ctx.tier == "quick"
    rng = ctx.rng
    items = []          # dict: label, op, stream, expect?, wat?

    # ---------------- inputs
    if ctx.replay:
        rp = json.load(open(ctx.replay))
        rp = rp.get("replay", rp)
        if "wat" in rp:
            items.append({"label": "replay", "stream": "replay", "op": "hex %s %d" % (rp["wat"].encode().hex(), rp.get("seed", 1)),
                          "wat": rp["wat"], "expect": rp.get("expect"), "batch": True})
        elif "op" in rp:
            items.append({"label": "replay", "stream": "replay", "op": rp["op"], "batch": False})
    else:
        # corpus: fixed regression inputs (minimised modules for every recorded cause + clean ones)
        for p in sorted(glob.glob(os.path.join(vlib.VERIF, "corpus", "C06", "*.wat"))):
            items.append({"label": "corpus/" + os.path.basename(p), "stream": "corpus", "op": "file %s %d" % (p, 7), "batch": False})
        # every WAT file of the repository
        found = []
        for root, dirs, files in os.walk(vlib.REPO):
            dirs[:] = [x for x in dirs if x not in (".git", "node_modules")]
            for f in files:
                if f.endswith(".wat") or f.endswith(".wat.ws"):
                    found.append(os.path.join(root, f))
        for p in sorted(found):
            items.append({"label": os.path.relpath(p, vlib.REPO), "stream": "repo", "op": "file %s %d" % (p, 3), "batch": False})
        # compiler output
        was = [os.path.join(vlib.REPO, p) for p in WA_EXAMPLES if os.path.exists(os.path.join(vlib.REPO, p))]
        was += sorted(glob.glob(os.path.join(vlib.VERIF, "corpus", "C06", "*.wa")))
        if quick:
            was = was[:2] + was[len(WA_EXAMPLES):][:2]
        for p in was:
            items.append({"label": "wa:" + os.path.basename(p), "stream": "compiler", "op": "wa %s %d" % (p, 5), "batch": False})
        try:
            from gen import progs
            for k in range(2 if quick else 16):
                pr = progs.gen_program(rng, size="small" if quick else rng.choice(["small", "medium"]))
                fn = os.path.join(ctx.tmp, "gen%d.wa.go" % k)
                open(fn, "w").write(pr.render_go())
                items.append({"label": "wa:generated-%d" % k, "stream": "compiler", "op": "wa %s %d" % (fn, 5), "batch": False})
        except Exception as e:        # the shared generator is optional
            ctx.notes.append("gen.progs unavailable: %r" % (e,))
        # deterministic matrix: imports of every kind (func/memory/global[/table]), named and unnamed, live and
        # dead, in all orders, with and without unnamed defined functions; run next to provider modules
        for lab, wat in import_matrix(False):
            items.append({"label": "imports/" + lab, "stream": "imports", "wat": wat,
                          "op": "hex %s %d" % (wat.encode().hex(), 3), "batch": True})
        tm = import_matrix(True)
        for lab, wat in tm[::max(1, len(tm) // (12 if quick else 60))]:
            items.append({"label": "table_import/" + lab, "stream": "table_import", "wat": wat,
                          "op": "hex %s %d" % (wat.encode().hex(), 3), "batch": True})
        # generated modules
        total = 420 if quick else 9000
        for label, feats, share in STREAMS:
            for k in range(max(4, int(total * share))):
                size = rng.choice([2, 3, 5, 8, 12] if quick else [2, 3, 5, 8, 12, 20, 40])
                wat, meta = gen_module(rng, feats, size)
                items.append({"label": "gen/%s/%d" % (label, k), "stream": label, "wat": wat,
                              "op": "hex %s %d" % (wat.encode().hex(), rng.getrandbits(31)),
                              "expect": kept_line(meta["expect_funcs"], meta["expect_imports"]),
                              "unnamed": meta["unnamed"], "meta": meta, "batch": True})

    # ---------------- run the real code
    outs = [None] * len(items)
    batch = [i for i, it in enumerate(items) if it["batch"]]
    single = [i for i, it in enumerate(items) if not it["batch"]]
    nw = 6 if quick else 14
    chunks = [batch[k::nw] for k in range(nw) if batch[k::nw]]
    with cf.ThreadPoolExecutor(nw) as ex:
        futs = {}
        for ch in chunks:
            futs[ex.submit(run_batch, ctx, h, [items[i]["op"] for i in ch], 120)] = ch
        for i in single:
            futs[ex.submit(run_batch, ctx, h, [items[i]["op"]], 40 if quick else 240)] = [i]
        for fu in cf.as_completed(futs):
            for i, o in zip(futs[fu], fu.result()):
                outs[i] = o

    t3 = time.time()
    # ---------------- which variant of the pass is this?  (probes through the real pass)
    pouts = run_batch(ctx, h, ["hex %s 1" % w.encode().hex() for w, _ in PROBES], 60)
    bits = []
    for (w, pred), po in zip(PROBES, pouts):
        if po.get("status") != "ok" or "kept" not in po:
            raise vlib.InfraError("variant probe failed: %s -> %s" % (w, po))
        bits.append(1 if pred(po["kept"]) else 0)
    vprefix = "V %d %d %d %d " % tuple(bits)
    variant = dict(zip(["importRoots", "tableSetLookup", "skipUnnamedExports", "nilPanics"], bits))
    ctx.notes.append("measured variant of remove_unused.go: %s (%s)" % (variant, "pinned" if bits == [0, 1, 1, 1] else "fixed" if bits == [1, 0, 0, 0] else "other"))
    # ---------------- the Lean model on the same graphs
    mouts = {}
    gi = [i for i, o in enumerate(outs) if o and o.get("status") == "ok" and o.get("graph")]
    if model and gi:
        rc, mo, me = ctx.run_bin(model, input_text="\n".join(vprefix + outs[i]["graph"] for i in gi) + "\n", timeout=900)
        ml = mo.splitlines()
        if len(ml) != len(gi):
            ctx.proof["broken"].append({"theorem": "correspondence C06", "why": "model driver returned %d lines for %d graphs: %s" % (len(ml), len(gi), me[-300:])})
        for i, l in zip(gi, ml):
            mouts[i] = l

    # ---------------- verdicts
    dist = {}
    nontrivial = set()
    samples = []
    stats = {"modules": 0, "calls": 0, "traps": 0, "host_calls": 0, "functions": 0, "removed": 0, "timeouts": 0,
             "not_modules": 0, "wasm_bytes_before": 0, "wasm_bytes_after": 0}
    ops_c, impl_c, model_c = [], [], []
    for i, it in enumerate(items):
        o = outs[i] or {"status": "missing"}
        stt = o.get("status")
        if stt != "ok":
            dist["input:" + str(stt)] = dist.get("input:" + str(stt), 0) + 1
            if stt in ("parse-error", "read-error", "build-error"):
                stats["not_modules"] += 1
                if it["stream"] not in ("repo", "compiler"):     # generated text must parse
                    ctx.proof["broken"].append({"theorem": "generator C06", "why": "%s: %s %s" % (it["label"], stt, o.get("detail"))})
            elif stt == "timeout":
                stats["timeouts"] += 1
            else:
                ctx.proof["broken"].append({"theorem": "harness C06", "why": "%s: %s %s" % (it["label"], stt, o.get("detail"))})
            continue
        if o.get("pending"):
            stats["timeouts"] += 1
        stats["modules"] += 1
        stats["calls"] += o.get("calls", 0)
        stats["traps"] += o.get("traps", 0)
        stats["host_calls"] += o.get("hostlog", 0)
        stats["functions"] += o.get("nfuncs", 0) + o.get("nimports", 0)
        stats["wasm_bytes_before"] += o.get("size_orig", 0)
        stats["wasm_bytes_after"] += o.get("size_strip", 0)
        pk = parse_kept(o.get("kept", ""))
        if pk:
            stats["removed"] += o.get("nfuncs", 0) + o.get("nimports", 0) - len(pk[0]) - len(pk[1])
        viol, notes, trivial = classify(it, o)
        replay = {"label": it["label"], "op": it["op"] if len(it["op"]) < 400 else it["op"][:60] + "...",
                  "flags": o.get("flags"), "kept": o.get("kept", "")[:400], "indep": o.get("indep", "")[:400],
                  "strip": o.get("strip"), "strip_asm": o.get("strip_asm"), "diffs": o.get("diffs"),
                  "refs": o.get("refs"), "text": o.get("text")}
        if "wat" in it:
            replay["wat"] = it["wat"]
            replay["expect"] = it.get("expect")
        for key, what in viol:
            ctx.violation(key, what, replay)
        if "INDEP-DISAGREE" in notes:
            ctx.proof["broken"].append({"theorem": "oracle C06 (independent reachability)", "why": "%s: generator expects %r, harness computes %r" % (it["label"], it.get("expect"), o.get("indep"))})
        cls = "%s:%s" % (it["stream"], ",".join(sorted({k for k, _ in viol})) or "held")
        dist[cls] = dist.get(cls, 0) + 1
        for n in notes:
            dist["note:" + n] = dist.get("note:" + n, 0) + 1
        if not trivial:
            nontrivial.add((it["stream"], o.get("graph")))
        if len(samples) < 14 and (i % max(1, len(items) // 14) == 0):
            samples.append({"input": it["label"], "functions": o.get("nfuncs"), "imports": o.get("nimports"), "kept": o.get("kept", "")[:160],
                            "calls": o.get("calls"), "sample_call": o.get("sample"), "verdict": cls})
        # correspondence: real pass vs the Lean transcription; specified pass vs independent reachability
        ml = mouts.get(i)
        if ml is None:
            continue
        parts = [p.strip() for p in ml.split(";;")]
        if len(parts) != 3 or not parts[0].startswith("R ") or not parts[1].startswith("S "):
            ctx.proof["broken"].append({"theorem": "correspondence C06", "why": "%s: model driver answered %r" % (it["label"], ml[:200])})
            continue
        mreal, mspec, msub = parts[0][2:], parts[1][2:], parts[2]
        impl = "PANIC" if o.get("kept", "").startswith("PANIC") else norm(o.get("kept"))
        ops_c.append(it["label"] + " [real pass]")
        impl_c.append(impl)
        model_c.append(norm(mreal))
        if mspec != "notwf":
            ops_c.append(it["label"] + " [specified pass vs independent reachability]")
            impl_c.append(norm(o.get("indep")))
            model_c.append(norm(mspec))
            if msub == "sub=1":       # real_eq_spec, observed
                ops_c.append(it["label"] + " [real = specified on RealSubset]")
                impl_c.append(impl)
                model_c.append(norm(mspec))
    for i, op, a, b in ctx.diff_lines(ops_c, impl_c, model_c)[:20]:
        ctx.proof["broken"].append({"theorem": "correspondence C06 model vs remove_unused.go", "why": "%s: impl=%r model=%r" % (op, a[:300], b[:300])})

    ctx.notes.append("timing: harness build %.0fs, lake (proofs, audit, driver) %.0fs, real code runs %.0fs, model+verdicts %.0fs"
                     % (t1 - t0, t2 - t1, t3 - t2, time.time() - t3))
    cov = {
        "evaluations": stats["modules"],
        "distinct_nontrivial": len(nontrivial),
        "rule": "one evaluation = one module put through the real pass, the Lean transcription, two independent reachability computations and "
                "(when it assembles and instantiates) the before/after execution of every exported function on wazero; distinct_nontrivial "
                "counts distinct (stream, call-graph line) pairs with at least one defined function",
        "samples": samples,
        "distribution": dict(sorted(dist.items())),
        "volumes": stats,
        "variant_of_real_pass": variant,
    }
    return ctx.finish("proof", cov,
                      assumptions=["function names are distinct and every referenced name is defined (WF) — Wat2Wasm rejects the others; inputs outside WF are only compared model-vs-code",
                                   "behaviour theorem is over the abstract interpreter of Model/C06.lean; the wazero runs check it on concrete modules"],
                      trusted_base=["hand-written Lean transcription of remove_unused.go (Model/C06.lean: realStrip) tied by the correspondence run (harness/c06)",
                                    "harness/c06's own AST traversal producing the call-graph line; python generator's graph (gen/c06_watgen.py) as second reachability oracle",
                                    "vendored wazero interpreter as execution oracle; stub host functions"])
