"""C16 — Well-typed programs compile to valid WebAssembly without internal errors."""
import concurrent.futures as cf, os, re, subprocess
from lib import vlib
from extract import c01_rows
from gen import matrix, matrix2, matrix3

PROP = "C16"
META = {
    "category": "exploration",
    "text": "Proved core + enumerated/generated search. Proved in Lean: the validation algorithm for the straight-line operator subset is sound "
            "(validated code never reaches an ill-typed configuration: validate_sound), the semantics used by C01's proofs is the same relation with "
            "trap/stuck merged (exec_eq_execR), and every row of the emit table REGENERATED from the real emitter validates with the operand and result "
            "types its key demands (253 theorems by kernel `decide`). The property's full quantifier (every well-typed program) is explored: an enumerated "
            "feature matrix (17 value types x 20 usage contexts, 240 ordered function-signature pairs used as function values/closures, 36 ordered pairs of defer kinds, 52 control-flow shapes: self-loops, empty bodies, back edges from every position, labelled break/continue, switch, short-circuit conditions, range loops) plus generated programs are compiled in a child process by the real pipeline and the binary "
            "is validated by V8 (node) — an independent validator.",
    "note": "Trusted: Lean kernel; V8's validator; Go's type checker as the well-typedness oracle for single-source programs. Not verified: that compile.go/"
            "compile_func.go emit valid code for every construct — explored only.",
    "technique": "Lean 4 proof (validator soundness; per-row validation by decide over regenerated table) + enumerated feature matrix compiled and validated by V8",
}


def classify(msg):
    m = msg.strip().splitlines()
    s = m[-1] if m else ""
    if "typecheck-or-build-error" in msg:
        return "typecheck"
    if "wat2wasm-error" in msg:
        return "wat2wasm"
    if "PANIC" in msg or "panic" in msg:
        return "panic"
    if re.search(r"\.go:\d+: ", msg):
        return "fatal"
    return "other"


def replay(ctx, warun):
    import json
    r = json.load(open(ctx.replay))["replay"]
    f = os.path.join(ctx.tmp, "replay.wa.go")
    open(f, "w").write(r["program"])
    o = os.path.join(ctx.tmp, "replay.wasm")
    p = subprocess.run([warun, "wasm", f, o], stdout=subprocess.PIPE, stderr=subprocess.STDOUT, text=True, timeout=120)
    print("replay %s: build rc=%d %s" % (r.get("tag"), p.returncode, p.stdout.strip()[-400:]))
    if p.returncode == 0:
        v = subprocess.run(["node", os.path.join(vlib.VERIF, "tools", "validate.js"), o], stdout=subprocess.PIPE, text=True).stdout
        print("  V8:", v.strip())
        return 0 if " valid " in v else 1
    return 1


def run(ctx):
    tabbin = ctx.build_harness("c01tab")
    warun = ctx.build_harness("warun")
    if ctx.replay:
        return replay(ctx, warun)
    with vlib.Lock("gen.c01rows"):
        rows = c01_rows.emit_rows(ctx, tabbin)
        names = c01_rows.write_lean(rows, os.path.join(vlib.LEAN, "WaVerif", "Gen", "C01Rows.lean"))
        expected = set(re.findall(r"theorem (\w+)_valid", open(os.path.join(vlib.LEAN, "WaVerif", "Props", "C16Rows.lean")).read()))
        if set(names) != expected:
            ctx.proof["broken"].append({"theorem": "emit-table row set", "why": "rows differ from the rows the theorems cover: missing=%s new=%s" % (
                sorted(expected - set(names))[:8], sorted(set(names) - expected)[:8])})
        rejected = [r["name"] for r in rows if "rejected" in r]
        ctx.prove("WaVerif.Props.C16Rows")
        ctx.prove("WaVerif.Props.C16", required=["validate_sound", "exec_eq_execR", "stepR_sound"])
    for nm in rejected:
        r = [x for x in rows if x["name"] == nm][0]
        ctx.violation("emit-row-rejected:%s" % nm, "the emitter ends in a fatal internal error for the type-correct operator row %s: %s" % (" ".join(r["req"]), r["rejected"]),
                      {"row": r["req"], "message": r["rejected"]})
    # programs: enumerated matrix (+ generated ones when the shared generator is available)
    progs = [("matrix:%s/%s" % k, src) for k, src in matrix.all_programs()]
    progs += [("matrix:%s/%s" % k, src) for k, src in matrix2.all_programs()]
    progs += [("matrix:%s/%s" % k, src) for k, src in matrix3.all_programs()]      # control-flow shapes
    try:
        from gen import progs as genprogs
        n = 30 if ctx.tier == "quick" else 400
        for i in range(n):
            p = genprogs.gen_program(ctx.rng, size=["small", "medium", "large"][i % 3], stream="safe")
            progs.append(("gen:%d" % i, p.render_go()))
    except Exception as e:
        ctx.notes.append("shared program generator not available: %r" % (e,))
    outdir = os.path.join(ctx.tmp, "wasm")
    os.makedirs(outdir)

    def build(a):
        i, (tag, src) = a
        f = os.path.join(outdir, "p%d.wa.go" % i)
        open(f, "w").write(src)
        o = os.path.join(outdir, "p%d.wasm" % i)
        try:
            p = subprocess.run([warun, "wasm", f, o], stdout=subprocess.PIPE, stderr=subprocess.STDOUT, text=True, timeout=120)
            return tag, src, p.returncode, p.stdout, o
        except subprocess.TimeoutExpired:
            return tag, src, -9, "timeout", o
    with cf.ThreadPoolExecutor(16) as ex:
        built = list(ex.map(build, enumerate(progs)))
    dist = {"programs": len(progs), "compiled": 0, "rejected_by_typechecker": 0, "internal_error": 0, "invalid_wasm": 0, "valid": 0}
    okfiles = []
    samples = []
    for tag, src, rc, out, o in built:
        if rc == 0 and os.path.exists(o):
            dist["compiled"] += 1
            okfiles.append((tag, src, o))
            continue
        kind = classify(out)
        if kind == "typecheck":
            # Wa's checker rejects a program Go accepts: outside C16's quantifier (type-checker-accepted programs); counted, not a violation
            dist["rejected_by_typechecker"] += 1
            ctx.notes.append("%s rejected by Wa's front end: %s" % (tag, out.strip().splitlines()[-1][:160] if out.strip() else ""))
            continue
        dist["internal_error"] += 1
        feature = tag.split(":")[1] if tag.startswith("matrix:") else "generated"
        ctx.violation("compile-%s:%s" % (kind, feature), "well-typed program fails to compile (%s): %s" % (kind, (out.strip().splitlines() or [""])[-1][:300]),
                      {"tag": tag, "program": src, "output": out[-2000:]})
    # V8 validation in batches
    for i in range(0, len(okfiles), 50):
        batch = okfiles[i:i + 50]
        p = subprocess.run(["node", os.path.join(vlib.VERIF, "tools", "validate.js")] + [b[2] for b in batch],
                           stdout=subprocess.PIPE, stderr=subprocess.STDOUT, text=True, timeout=600)
        verdict = {}
        for line in p.stdout.splitlines():
            f = line.split(" ", 2)
            if len(f) >= 2:
                verdict[f[0]] = (f[1], f[2] if len(f) > 2 else "")
        for tag, src, o in batch:
            v, msg = verdict.get(o, ("error", "no verdict from node: " + p.stdout[-300:]))
            if v == "valid":
                dist["valid"] += 1
                if len(samples) < 5:
                    samples.append({"tag": tag, "verdict": "compiled, V8-valid", "wasm_bytes": os.path.getsize(o)})
            else:
                dist["invalid_wasm"] += 1
                feature = tag.split(":")[1] if tag.startswith("matrix:") else "generated"
                ctx.violation("invalid-wasm:%s" % feature, "compiled module fails WebAssembly validation in V8: %s" % msg[:300],
                              {"tag": tag, "program": src, "v8": msg})
    cov = {"evaluations": len(progs), "distinct_nontrivial": len(set(p[1] for p in progs)),
           "rule": "feature matrix = every (value type, usage context) pair of gen/matrix.py, enumerated completely; plus seeded generated programs; "
                   "distinct = distinct program texts (each exercises a different type/context pair)",
           "samples": samples, "distribution": dist, "exhaustive": False}
    return ctx.finish("exploration", cov,
                      assumptions=["programs accepted by Go's type checker and by Wa's front end are the well-typed programs considered"],
                      trusted_base=["V8 WebAssembly.validate", "extract/c01_rows.py"])
