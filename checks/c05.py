"""C05 — WAT printer output re-parses to the same module."""
import concurrent.futures as cf
import glob
import json
import os
import re
import struct

from gen import c05_watgen
from lib import vlib

PROP = "C05"
META = {
    "category": "translation_validation",
    "text": "Lean theorems parse_print / print_idempotent over a model of the printer's OUTPUT GRAMMAR (tokens carrying their values; "
            "module fields in the printer's order; flat instruction lists) show that this grammar is unambiguous for a parser built like "
            "the real one. The full statement (every module; binary equality after re-assembly) is decided per input by translation "
            "validation on the real code: Wat2Wasm(print(parse src)) == Wat2Wasm(src) byte for byte, print(parse(print)) == print, V8 "
            "validates the printed module's binary and reports equal import/export lists. The model is tied to the real printer per input: "
            "the real AST is dumped, printed by the Lean model, and compared token by token (real scanner's tokens) with printer.Fprint's text; "
            "the Lean parser is also run on the real printer's token stream.",
    "note": "Proved only for the model grammar (module fields + flat instructions; nesting of block/if/end, the character level — number "
            "spelling, string escapes, white space — and float formatting are NOT in the Lean model: oracle only). Trusted: the real scanner "
            "as tokenizer for the tie, Python section splitter, V8. The memory-access alignment defaults are regenerated from the parser and "
            "printer sources on every run.",
    "technique": "Lean 4 proof over hand-written grammar model + per-input token-level correspondence + translation validation (byte equality, idempotence, V8)",
}
REQUIRED = ["unflatten_flatten", "parse_print", "print_idempotent", "parse_wellformed", "print_parse_fixpoint"]

TRIGGERS = ["export-func-separate", "start", "data-name", "i64.store-align2", "unnamed-func", "export-name-escape",
            "import-name-escape", "import-param-names", "type-param-names"]


# --------------------------------------------------------------------------------------------------
# alignment table regenerated from the sources
def mnemonic(tokname):
    # INS_I32_LOAD8_S -> i32.load8_s
    s = tokname[len("INS_"):].lower()
    a, b = s.split("_", 1)
    return a + "." + b


def extract_align(repo):
    psrc = open(os.path.join(repo, "internal/wat/parser/module_func_instruction.go")).read()
    qsrc = open(os.path.join(repo, "internal/wat/printer/printer_funcs.go")).read()
    pdef, pomit = {}, {}
    for m in re.finditer(r"func \(p \*parser\) parseIns_\w+\(\)[^\n]*\{(.*?)\n\}", psrc, re.S):
        body = m.group(1)
        t = re.search(r"acceptToken\(token\.(INS_\w+)\)", body)
        a = re.search(r"i\.Align = (\d+)", body)
        if t and a:
            pdef[mnemonic(t.group(1))] = int(a.group(1))
    for m in re.finditer(r"case token\.(INS_\w+):\n(.*?)(?=\n\tcase token\.|\n\t\}\n\})", qsrc, re.S):
        a = re.search(r"\.Align; x != (\d+)", m.group(2))
        if a:
            pomit[mnemonic(m.group(1))] = int(a.group(1))
    return pdef, pomit


# --------------------------------------------------------------------------------------------------
# wasm section splitter (python, independent of the repo)
def uleb(b, i):
    r = s = 0
    while True:
        c = b[i]
        i += 1
        r |= (c & 0x7f) << s
        s += 7
        if c < 0x80:
            return r, i


SECNAME = {0: "custom", 1: "type", 2: "import", 3: "function", 4: "table", 5: "memory", 6: "global", 7: "export", 8: "start",
           9: "element", 10: "code", 11: "data", 12: "datacount"}


def sections(b):
    """-> dict name -> bytes (custom sections keyed 'custom:<name>')"""
    out = {}
    if b[:8] != b"\x00asm\x01\x00\x00\x00":
        return {"bad-header": b}
    i = 8
    while i < len(b):
        sid = b[i]
        n, j = uleb(b, i + 1)
        body = b[j:j + n]
        if sid == 0:
            ln, k = uleb(body, 0)
            key = "custom:" + body[k:k + ln].decode("utf-8", "replace")
        else:
            key = SECNAME.get(sid, "sec%d" % sid)
        out[key] = out.get(key, b"") + body
        i = j + n
    return out


def dec(v):
    """field value -> (kind, payload) with kind in ok/ERR/PANIC"""
    for pre in ("ERR:", "PANIC:"):
        if v.startswith(pre):
            h = v[len(pre):]
            return pre[:-1], (bytes.fromhex(h).decode("utf-8", "replace") if h != "-" else "")
    return "ok", (b"" if v == "-" else bytes.fromhex(v))


def parse_line(l):
    d = {}
    for kv in l.split(" "):
        k, _, v = kv.partition("=")
        d[k] = v
    return d


def float_norm(words):
    """real scanner tokens: the literal after f32.const/f64.const -> f<w>:<bits> (what the model prints)"""
    out = []
    prev = ""
    for w in words:
        if prev in ("kf32.const", "kf64.const") and w[:1] in ("n", "x"):
            try:
                v = float(w[1:])
                if prev == "kf32.const":
                    w = "f32:%d" % struct.unpack("<I", struct.pack("<f", v))[0]
                else:
                    w = "f64:%d" % struct.unpack("<Q", struct.pack("<d", v))[0]
            except (ValueError, OverflowError):
                pass
        elif w[:1] == "n" and w[1:3] in ("0x", "0X"):
            try:
                w = "n%d" % int(w[1:], 16)
            except ValueError:          # not a number after all (e.g. the bare word 0x of a mis-printed identifier)
                pass
        prev = w
        out.append(w)
    return out


def reparse_cause(msg, text):
    """root cause of 'printed text does not parse': look at the printed module field the error points into"""
    for ln in text.split("\n\t(export \"")[1:]:
        # a separate export field whose quoted name is not a well-formed string literal on one line
        if not re.match(r"([^\"\\\n]|\\[nrtv\\\"]|\\[0-9a-fA-F]{2})*\" \((func|global|memory|table) [^ ()]+\)\)(\n|$)", ln):
            return "export-name:unescaped"
    m = re.search(r":(\d+):(\d+):", msg)
    line = ""
    if m:
        ls = text.split("\n")
        k = int(m.group(1)) - 1
        if 0 <= k < len(ls):
            off = sum(len(x) + 1 for x in ls[:k]) + int(m.group(2)) - 1
            starts = [x.start() for x in re.finditer(r"\((data|export|import|func|global|memory|table|type|elem|start)\b", text[:off + 12]) if x.start() <= off]
            # the field (indentation level 1) that contains the error position
            starts = [x for x in starts if x == 0 or text[x - 1] == "\t" and (x < 2 or text[x - 2] != "\t")]
            line = text[starts[-1]:starts[-1] + 200].split("\n")[0] if starts else ls[k].strip()
    if re.match(r"\(data\$", line):
        return "data-name:no-space"
    if re.match(r"\(export \"", line):
        return "export-name:unescaped"
    if re.match(r"\(import ", line):
        return "import-name:go-quoting"
    if re.match(r"\(func \d", line) or re.search(r"\((param|local) \d+ ", line) or re.match(r"\((global|memory|table|type) \d+[a-zA-Z_.$]", line):
        # names consisting ONLY of digits are indistinguishable from indices once the scanner has stripped the `$`
        # (recorded finding); a name that merely starts with a digit must keep its `$` (repaired in /repo: e4be0b8)
        names = re.findall(r"\((?:func|global|memory|table|type|param|local) (\d[^ ()]*)", line)
        if names and all(n.isdigit() for n in names):
            return "ident:all-digit-name-printed-as-index"
        return "ident:digit-prefix-printed-as-index"
    w = re.match(r"\(?([A-Za-z_.0-9]+)", line)
    return "reparse-fails:other:" + (w.group(1) if w else "?")


def gen_inputs(ctx):
    """-> list of (label, op, arg, meta)"""
    rng = ctx.rng
    ins = []
    cdir = os.path.join(vlib.VERIF, "corpus", "C05")
    for p in sorted(glob.glob(os.path.join(cdir, "*.wat"))):
        ins.append(("corpus:" + os.path.basename(p), "file", p, {"stream": "corpus"}))
    for name, text in sorted(c05_watgen.FIXED.items()):
        ins.append(("fixed:" + name, "hex", text.encode().hex(), {"stream": "fixed", "text": text}))
    repo = vlib.REPO
    files = []
    for root, dirs, fs in os.walk(repo):
        dirs[:] = [d for d in dirs if d != ".git"]
        for f in fs:
            if f.endswith(".wat") or f.endswith(".wat.ws"):
                files.append(os.path.join(root, f))
    for p in sorted(files):
        ins.append(("repo:" + os.path.relpath(p, repo), "file", p, {"stream": "repo"}))
        # the runtime's .wat.ws files (and malloc.wat) are module FRAGMENTS: wrapped in (module …) they exercise the
        # printer on the hand-written runtime code (they do not assemble on their own: idempotence + model tie only)
        src = open(p, "rb").read()
        if not re.search(rb"\(\s*module\b", src):
            ins.append(("wrapped:" + os.path.relpath(p, repo), "hex", (b"(module\n" + src + b"\n)\n").hex(), {"stream": "repo-fragment-wrapped"}))
    was = ["waroot/examples/hello/hello.wa", "waroot/examples/brainfuck.wa", "waroot/examples/copy.wa", "waroot/examples/struct.wa",
           "waroot/examples/eq.wa", "waroot/examples/strbytes.wa", "waroot/examples/short-var.wa", "waroot/examples/interface_named.wa"]
    if ctx.tier != "quick":
        was += sorted(os.path.relpath(p, repo) for p in glob.glob(os.path.join(repo, "waroot/examples/*.wa")) +
                      glob.glob(os.path.join(repo, "waroot/examples/*/*.wa")) + glob.glob(os.path.join(repo, "waroot/tests/*.wa")))
    seen = set()
    for w in was:
        p = os.path.join(repo, w)
        if w in seen or not os.path.exists(p):
            continue
        seen.add(w)
        ins.append(("wa:" + w, "wa", p, {"stream": "compiler"}))
    n_main = 160 if ctx.tier == "quick" else 2500
    for i in range(n_main):
        m = c05_watgen.gen_module(rng, size=1 + i % 3)
        ins.append(("gen:%d" % i, "hex", m.text.encode().hex(), {"stream": "generated", "text": m.text, "features": sorted(m.features)}))
    n_trig = 6 if ctx.tier == "quick" else 60
    for t in TRIGGERS:
        for i in range(n_trig):
            m = c05_watgen.gen_module(rng, size=1 + i % 2, triggers=(t,))
            ins.append(("trig:%s:%d" % (t, i), "hex", m.text.encode().hex(),
                        {"stream": "trigger:" + t, "text": m.text, "features": sorted(m.features)}))
    return ins


def run_chunks(ctx, binp, lines, nproc=8, timeout=900):
    """run a stateless line-protocol binary over `lines` in parallel chunks, keeping order"""
    if not lines:
        return []
    k = max(1, (len(lines) + nproc - 1) // nproc)
    chunks = [lines[i:i + k] for i in range(0, len(lines), k)]
    with cf.ThreadPoolExecutor(nproc) as ex:
        outs = list(ex.map(lambda c: ctx.run_bin(binp, input_text="\n".join(c) + "\n", timeout=timeout)[1].splitlines(), chunks))
    res = []
    for c, o in zip(chunks, outs):
        o = o + ["<missing>"] * (len(c) - len(o))
        res += o[:len(c)]
    return res


def run(ctx):
    import time
    t0 = time.time()
    timing = {}
    h = ctx.build_harness("c05")
    timing["build_harness"] = round(time.time() - t0, 1)
    pdef, pomit = extract_align(vlib.REPO)
    ctx.prove(required=REQUIRED)
    model = ctx.build_model("c05")
    timing["lean"] = round(time.time() - t0, 1)

    inputs = gen_inputs(ctx)
    # spread the expensive compiler inputs over the chunks: interleave
    order = sorted(range(len(inputs)), key=lambda i: (i % 8, i))
    lines = ["%s %s" % (inputs[i][1], inputs[i][2]) for i in order]
    outs_perm = run_chunks(ctx, h, lines)
    outs = [None] * len(inputs)
    for pos, i in enumerate(order):
        outs[i] = outs_perm[pos]

    timing["harness_run"] = round(time.time() - t0, 1)
    dist = {"streams": {}, "status": {}, "features": {}, "outside_model": {}, "not_assemblable": 0}
    recs = []
    for (label, op, arg, meta), l in zip(inputs, outs):
        d = parse_line(l) if l and not l.startswith(("PANIC", "<missing>")) else {"st": "harness-failure", "detail": l}
        st = d.get("st", "?")
        dist["status"][st] = dist["status"].get(st, 0) + 1
        dist["streams"][meta["stream"]] = dist["streams"].get(meta["stream"], 0) + 1
        if st == "harness-failure":
            ctx.violation("harness:" + str(l)[:40], "%s: harness output %r" % (label, str(l)[:200]), {"input": label, "op": op, "arg": arg[:2000]})
            continue
        if st != "ok":
            # not a module the parser accepts: outside the property's quantifier — except for the deterministic probes,
            # which are valid by construction and must not silently drop out of the run
            if meta["stream"] in ("fixed", "corpus"):
                ctx.violation("probe-rejected-by-parser", "%s: a fixed probe is no longer accepted by the parser (%s %s)" % (
                    label, st, dec("ERR:" + d["detail"][4:])[1] if d.get("detail", "").startswith("ERR:") else d.get("detail", "")[:80]),
                    {"input": label, "wat": meta.get("text", arg)[:4000]})
            continue
        r = {"label": label, "meta": meta, "d": d, "cls": set(d["cls"].split(",")) - {"-"}, "viol": []}
        for c in r["cls"]:
            dist["features"][c] = dist["features"].get(c, 0) + 1
        recs.append(r)

    def replay_of(r):
        rp = {"input": r["label"], "stream": r["meta"]["stream"], "sha": r["d"].get("sha")}
        if "text" in r["meta"]:
            rp["wat"] = r["meta"]["text"]
        return rp

    def viol(r, key, what):
        r["viol"].append(key)
        ctx.violation(key, "%s: %s" % (r["label"], what), replay_of(r))

    # ------------------------------------------------------------------ oracle on the real code
    node_lines, node_ix = [], []
    for r in recs:
        d = r["d"]
        pk, ptext = dec(d["print"])
        k1, w1 = dec(d["w1"])
        r["w1ok"] = k1 == "ok"
        if pk != "ok":
            why = "unnamed-func" if ("func-unnamed" in r["cls"] or "import-func-unnamed" in r["cls"]) else (
                "import-table" if "import-table" in r["cls"] else "other")
            viol(r, "print-panic:" + why, "printer.Fprint panics: %s" % ptext)
            continue
        r["text"] = ptext.decode("utf-8", "replace")
        if d.get("fmt") != "eq":
            viol(r, "watfmt-differs-from-fprint", "watfmt.Format(src) != printer.Fprint(parse(src)) (%s)" % d.get("fmt"))
        # idempotence
        if d["p2"] != "eq":
            k2, p2 = dec(d["p2"])
            if k2 != "ok":
                viol(r, reparse_cause(p2, r["text"]), "printed text is rejected by the parser: %s" % p2)
            else:
                a, b = r["text"].split("\n"), p2.decode("utf-8", "replace").split("\n")
                first = next((x for x, y in zip(a, b) if x != y), a[len(b)] if len(a) > len(b) else "")
                cause = "memarg:i64.store-align2-dropped" if ("i64.store-align2" in r["cls"] and "i64.store" in first) else \
                        ("import-name:go-quoting" if first.strip().startswith("(import") else "idempotence:" + (re.match(r"\(?([A-Za-z_.0-9]+)", first.strip()) or re.match("()", "")).group(1))
                viol(r, cause, "print(parse(print)) differs from print at line %r" % first.strip()[:160])
        if not r["w1ok"]:
            dist["not_assemblable"] += 1
            if r["label"].split(":", 1)[-1].replace(".wat", "") in ("float-consts", "data-lengths-block", "data-lengths-64k", "plain"):
                viol(r, "probe-rejected-by-assembler", "a fixed probe no longer assembles: %s" % (w1 if isinstance(w1, str) else ""))
            continue
        if d["w2"] == "=":
            r["w2"] = w1
        else:
            k2, w2 = dec(d["w2"])
            if k2 != "ok":
                if d["p2"] == "eq" or dec(d["p2"])[0] == "ok":
                    viol(r, "reassemble-fails:" + reparse_cause(w2, r["text"]), "Wat2Wasm(printed text) fails: %s" % w2)
                # (a parse failure was already reported above as reparse-fails)
                continue
            r["w2"] = w2
            s1, s2 = sections(w1), sections(w2)
            for sec in sorted(set(s1) | set(s2)):
                if s1.get(sec) == s2.get(sec):
                    continue
                cls = r["cls"]
                if sec == "export" and "export-separate-F" in cls:
                    key = "export:func-non-inline-dropped"
                elif sec == "start" and sec not in s2:
                    key = "start:not-printed"
                elif sec == "code" and "i64.store-align2" in cls:
                    key = "memarg:i64.store-align2-dropped"
                elif sec == "import" and "import-name-special" in cls:
                    key = "import-name:go-quoting"
                elif sec == "custom:name" and ("import-param-names" in cls or "type-param-names" in cls):
                    key = "names:import-or-type-param-names-dropped"
                else:
                    key = "binary-differs:" + sec
                viol(r, key, "Wat2Wasm(print(parse src)) differs from Wat2Wasm(src) in section %s: %s vs %s" % (
                    sec, (s1.get(sec) or b"").hex()[:80] or "<absent>", (s2.get(sec) or b"").hex()[:80] or "<absent>"))
        node_ix.append(r)
        node_lines.append(w1.hex() or "-")
        node_lines.append(r["w2"].hex() or "-")

    # V8: the printed module's binary validates and has the same import/export lists
    js = os.path.join(vlib.VERIF, "extract", "c04_wasminfo.js")
    nvalid = 0
    if node_lines:
        k = max(2, ((len(node_lines) // 2 + 5) // 6) * 2)
        chunks = [node_lines[i:i + k] for i in range(0, len(node_lines), k)]
        with cf.ThreadPoolExecutor(6) as ex:
            res = list(ex.map(lambda c: vlib.subprocess.run(["node", js], input="\n".join(c) + "\n", stdout=vlib.subprocess.PIPE,
                                                           text=True, timeout=900).stdout.splitlines(), chunks))
        flat = [x for c in res for x in c]
        if len(flat) != len(node_lines):
            raise vlib.InfraError("node helper returned %d lines for %d inputs" % (len(flat), len(node_lines)))
        for i, r in enumerate(node_ix):
            a, b = json.loads(flat[2 * i]), json.loads(flat[2 * i + 1])
            if not a["valid"]:
                r["src_invalid"] = a["err"]          # C04's business (assembler output invalid); not a printer matter
                continue
            if not b["valid"]:
                viol(r, "printed-module-invalid", "V8 rejects Wat2Wasm(printed text): %s" % b["err"])
                continue
            nvalid += 1
            if (a["exports"], a["imports"]) != (b["exports"], b["imports"]) and not r["viol"]:
                viol(r, "node:export-import-lists-differ", "exports/imports %s vs %s" % ((a["exports"], a["imports"]), (b["exports"], b["imports"])))

    timing["oracle_node"] = round(time.time() - t0, 1)
    # ------------------------------------------------------------------ tie with the Lean model
    tie = {"compared": 0, "equal": 0, "attributed_to_violation": 0, "model_parse_of_real_output_ok": 0, "rt_selfcheck_ok": 0}
    if model:
        cfg = "cfg align " + " ".join("%s:%d:%d" % (k, pdef[k], pomit.get(k, 0)) for k in sorted(pdef))
        mods = [r for r in recs if "text" in r]
        tok_lines = ["tokens " + (r["text"].encode().hex() or "-") for r in mods]
        real_toks = run_chunks(ctx, h, tok_lines)
        mlines, owners = [], []
        for r, rt in zip(mods, real_toks):
            dump = dec(r["d"]["ast"])[1].decode()
            r["real_tokens"] = float_norm(rt.split())
            mlines.append("mod " + dump)
            mlines.append("toks " + " ".join(r["real_tokens"]))
            owners.append(r)
        # the driver is stateful (cfg line first): every chunk starts with the cfg line
        k = max(2, ((len(mlines) // 2 + 7) // 8) * 2)
        chunks = [mlines[i:i + k] for i in range(0, len(mlines), k)]
        with cf.ThreadPoolExecutor(8) as ex:
            res = list(ex.map(lambda c: ctx.run_bin(model, input_text=cfg + "\n" + "\n".join(c) + "\n", timeout=900)[1].splitlines()[1:], chunks))
        flat = [x for c, o in zip(chunks, res) for x in (o + ["<missing>"] * (len(c) - len(o)))[:len(c)]]
        ctx.corr["lines"] += len(mlines)
        for i, r in enumerate(owners):
            a, b = flat[2 * i], flat[2 * i + 1]
            if a.startswith("outside"):
                dist["outside_model"][a] = dist["outside_model"].get(a, 0) + 1
                continue
            if not a.startswith("ok "):
                ctx.corr["diffs"] += 1
                ctx.proof["broken"].append({"theorem": "correspondence C05 (dump reader)", "why": "%s: model driver says %r" % (r["label"], a[:200])})
                continue
            head, _, toks = a.partition(" | ")
            tie["compared"] += 1
            if "rt=1" in head:
                tie["rt_selfcheck_ok"] += 1
            else:
                ctx.corr["diffs"] += 1
                ctx.proof["broken"].append({"theorem": "parse_print (executed)", "why": "%s: model parse(print m) does not give m back" % r["label"]})
            mt = toks.split()
            if mt == r["real_tokens"]:
                tie["equal"] += 1
                # the model's parser on the REAL printer's tokens gives a module that prints the same
                if b == "parsed " + toks:
                    tie["model_parse_of_real_output_ok"] += 1
                else:
                    ctx.corr["diffs"] += 1
                    ctx.proof["broken"].append({"theorem": "correspondence C05 model parser on real output",
                                                "why": "%s: %r" % (r["label"], b[:200])})
            elif r["viol"]:
                tie["attributed_to_violation"] += 1      # the oracle decided: the real printer's output is wrong here
            else:
                ctx.corr["diffs"] += 1
                j = next((x for x in range(min(len(mt), len(r["real_tokens"]))) if mt[x] != r["real_tokens"][x]), min(len(mt), len(r["real_tokens"])))
                ctx.proof["broken"].append({"theorem": "correspondence C05 model print vs printer.Fprint (tokens)",
                                            "why": "%s: token %d: model %r real %r" % (r["label"], j, mt[j - 2:j + 3], r["real_tokens"][j - 2:j + 3])})

    timing["tie"] = round(time.time() - t0, 1)
    ctx.notes.append("cumulative seconds per stage: %s" % timing)
    nontrivial = set()
    for r in recs:
        if r.get("w1ok"):
            nontrivial.add(r["d"]["sha"])
    samples = []
    for r in recs[:: max(1, len(recs) // 10)][:10]:
        samples.append({"input": r["label"], "bytes": int(r["d"]["n"]), "features": sorted(r["cls"])[:12], "violations": r["viol"]})
    cov = {
        "evaluations": len(recs),
        "distinct_nontrivial": len(nontrivial),
        "rule": "inputs = corpus + fixed probes + every .wat/.wat.ws under /repo + WAT produced by the real compiler (api.BuildFile) for Wa "
                "programs + generated modules (main stream avoiding listed triggers, and one labelled stream per trigger); an input counts when "
                "the real parser accepts it; distinct_nontrivial = distinct source texts (sha1) that the real assembler also accepts, i.e. for "
                "which the byte-equality oracle was evaluated",
        "samples": samples,
        "distribution": dist,
        "model_tie": tie,
        "node_validated_printed_binaries": nvalid,
        "align_table": {k: [pdef[k], pomit.get(k)] for k in sorted(pdef)},
    }
    return ctx.finish("translation_validation", cov,
                      assumptions=["the real scanner is used as the tokenizer of the printed text for the model tie",
                                   "modules the real parser rejects are outside the quantifier; modules the real assembler rejects are checked for idempotence only"],
                      trusted_base=["hand-written Lean grammar model WaVerif/Model/C05.lean tied per input by token comparison (harness/c05, Driver/C05.lean)",
                                    "python wasm section splitter in checks/c05.py; V8 (node) as validator"])
