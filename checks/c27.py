"""C27 — Compilation is deterministic (same sources + configuration => byte-identical WAT and wasm)."""
import concurrent.futures as cf
import glob, json, os, re, time
from lib import vlib

PROP = "C27"
META = {
    "category": "exploration",
    "text": "Three layers. (1) Lean proof of the ABSTRACTION the compiler relies on: output = emit(sortBy key (collect members)) is the same for "
            "every permutation of a duplicate-free member list (sort_perm_invariant, compile_independent_of_iteration_order, instantiated for Go's "
            "byte-wise string order), and set insertion / boolean or / counting / any commutative fold are order-insensitive; with the negative "
            "witnesses (an unsorted collecting loop IS order dependent). (2) REGENERATED static facts: extract/c27_sites.go (go/types) lists every "
            "`range` over a map in every package on the build pipelines (compiler_wat, wir, wir/wat, loader, parser, ast, ssa, types, wat/*, watutil/watstrip, wat2c, watfmt, wasm/*, appbuild, config, waroot/src) with a syntactic class (sorted-after / "
            "order-insensitive / unreachable / other); the table goes into Gen/C27Sites.lean and the kernel re-checks that every site is of a "
            "proved shape or carries a verdict of the committed audit (extract/c27_sites_expected.json); a new or reclassified unsorted site "
            "breaks the obligation. (3) Search on the real code: every program of a corpus is built N times in one process (Go randomises each "
            "map range) and once in each of N processes (different hash seeds, different build orders), WAT text, wasm binary and the further artefacts are "
            "byte-compared — in the default configuration (api.BuildFile) AND under the configurations of `wa build` that change the pipeline: -O "
            "(watstrip.WatStrip), each target OS (js, wasm4, arduino, unknown, linux; wasm4/arduino apps are always stripped), wat2c output, JS binding. The full statement "
            "(every program, every schedule) is decided by exploration only: the link from 'all sites accounted' to 'the compiler is the model' "
            "is an audit, not a proof.",
    "note": "Trusted: Lean kernel; extract/c27_sites.go (classification is syntactic and conservative: anything unrecognised is 'other'); the human "
            "audit of the 'other' sites recorded in extract/c27_sites_expected.json (reading, one line each); nondeterminism that does not come "
            "from map iteration (goroutines, time, addresses) is only covered by the search. Modelled-not-verified: the whole compiler between "
            "the member loops and the text.",
    "technique": "Lean 4 proof of permutation-invariance of sort-then-emit and commutative folds + regenerated/audited table of map-range sites "
                 "+ repeated in-process and cross-process builds with byte comparison",
}
REQUIRED = ["sort_perm_invariant", "compile_independent_of_iteration_order", "compile_by_name_deterministic",
            "set_insertion_order_insensitive", "bool_or_order_insensitive", "count_order_insensitive",
            "commutative_fold_order_insensitive", "unsorted_pipeline_order_dependent", "nodup_keys_needed",
            "sort_is_sorted_perm", "sites_accounted_claim"]

EXPECT = os.path.join(vlib.VERIF, "extract", "c27_sites_expected.json")
GEN = os.path.join(vlib.LEAN, "WaVerif", "Gen", "C27Sites.lean")
CLS = {"sorted-after": "sortedAfter", "sorted-by-key": "sortedByKey", "order-insensitive": "orderInsensitive", "unreachable": "unreachable", "other": "other"}
AUDITS = {"injectiveKey", "commutative", "perElement", "sortedLater", "uniqueSearch", "totalOrder", "debugOnly", "errorPathOnly", "notOnBuildPath"}

# std packages compiled as a whole by a blank import (every member of every loaded package is compiled)
STD_SETS = [["fmt"], ["strings", "strconv"], ["bytes", "bufio"], ["sort", "errors"], ["math", "math/bits"], ["unicode", "unicode/utf8"],
            ["os", "io"], ["time"], ["regexp"], ["encoding/binary", "encoding/hex"], ["encoding/base64", "encoding/base32"],
            ["container/list", "container/heap", "container/ring"], ["hash/crc32", "hash/fnv", "hash/adler32"], ["image", "image/color"],
            ["crypto/md5", "encoding/pem"], ["text/template"], ["compress/snappy"], ["reflect"], ["math/rand", "math/cmplx"],
            ["archive/txtar", "unicode/utf16"], ["math/big"], ["encoding/qrcode", "math/gf256"], ["hash/crc64", "math/matrix", "math/vector"]]


def site_id(s):
    return "%s/%s:%s#%d" % (s["pkg"], s["file"], s["func"], s["ord"])


def lean_str(s):
    return '"' + s.replace("\\", "\\\\").replace('"', '\\"') + '"'


def regenerate(ctx):
    """run the extractor, compare with the audited expectation, write Gen/C27Sites.lean. Returns (sites, facts dict)."""
    exp = json.load(open(EXPECT))
    facts = {"sites": 0, "by_class": {}, "new_or_changed": [], "gone": [], "unaudited_other": []}
    if os.path.exists(GEN):
        os.remove(GEN)
    rc, out = vlib.sh(["go", "run", os.path.join(vlib.VERIF, "extract", "c27_sites.go"), vlib.REPO] + exp["packages"],
                      cwd=vlib.REPO, env=vlib.GOENV, timeout=1200)
    sites = None
    if rc == 0:
        try:
            sites = json.loads(out[out.index("["):])
        except Exception as e:                                   # noqa
            out += "\n(unparsable extractor output: %s)" % e
    rows = []
    if sites is None:
        ctx.proof["broken"].append({"theorem": "static facts C27 (extract/c27_sites.go)",
                                    "why": "the extractor failed on the current source: %s" % out[-800:]})
        claim = False
        sites = []
    else:
        claim = True
        seen = set()
        for s in sites:
            sid = site_id(s)
            seen.add(sid)
            e = exp["sites"].get(sid)
            facts["by_class"][s["class"]] = facts["by_class"].get(s["class"], 0) + 1
            same = e is not None and e["class"] == s["class"] and e["expr"] == s["expr"]
            if not same:
                facts["new_or_changed"].append({"site": sid, "line": s["line"], "expr": s["expr"], "class": s["class"], "detail": s["detail"],
                                                "expected": e})
            if s["class"] in ("other", "sorted-by-key"):
                audit = e.get("audit") if same else None
                if audit not in AUDITS:
                    audit = "unaudited"
                    claim = False
                    facts["unaudited_other"].append(sid)
                    ctx.proof["broken"].append({
                        "theorem": "static facts C27: map-range site not accounted",
                        "why": "%s line %d: `range %s` is %s and of class '%s' (%s): its iteration order may reach the output; "
                               "sort the collected keys by themselves (an injective key), or audit the site in extract/c27_sites_expected.json"
                               % (sid, s["line"], s["expr"], "NEW" if e is None else "CHANGED since the audit", s["class"], s["detail"])})
            else:
                audit = "byShape"
            rows.append("  ⟨%s, .%s, .%s⟩" % (lean_str(sid + " | range " + s["expr"]), CLS[s["class"]], audit))
        facts["gone"] = sorted(set(exp["sites"]) - seen)
        facts["sites"] = len(sites)
    tmp = GEN + ".tmp.%d" % os.getpid()
    with open(tmp, "w") as f:
        f.write("import WaVerif.Model.C27\n/-! GENERATED by checks/c27.py from extract/c27_sites.go + extract/c27_sites_expected.json on every run — do not edit. -/\n"
                "namespace WaVerif.C27\n\ndef sites : List Site := [\n" + ",\n".join(rows) + "\n]\n\n"
                "/-- what the generator computed: every site is of a proved shape or audited -/\n"
                "def claimAllAccounted : Bool := %s\n\nend WaVerif.C27\n" % ("true" if claim else "false"))
    os.replace(tmp, GEN)
    if facts["new_or_changed"]:
        ctx.notes.append("sites differing from the expectation file: %s" % json.dumps(facts["new_or_changed"])[:1500])
    if facts["gone"]:
        ctx.notes.append("sites of the expectation file no longer present: %s" % facts["gone"][:20])
    return sites, facts


# ------------------------------------------------------------------------------------------ corpus
# build configuration of an item (by item name); "" = default configuration through api.BuildFile.  See harness/c27 buildCfg.
SPEC = {}
# the configurations of `wa build` that change the pipeline (internal/app/appbuild): -O => watstrip.WatStrip, every target OS
# (base WAT, host imports, #wa:build selection; wasm4/arduino directories are always stripped), wat2c (arduino, --wat2c-native),
# the JS binding + index.html of the js target
FILE_CONFIGS = ["O", "os:js,O,jsb", "os:wasm4,O", "os:unknown,O", "os:arduino,O,c", "c", "os:wasm4", "os:linux"]
APP_CONFIGS = {"w4-": ["os:wasm4", "os:wasm4,O,c"], "arduino": ["os:arduino,c", "os:arduino,O"], "": ["O", "os:js,O,jsb"]}


def add_configs(ctx, items):
    """the same programs under the other build configurations (group 'config')"""
    quick = ctx.tier == "quick"
    out = []
    files = [it for it in items if it[1] == "file" and it[3] in ("corpus", "example")]
    files = files[:4] if quick else files
    for (name, kind, path, group) in files:
        for spec in (FILE_CONFIGS[:6] if quick else FILE_CONFIGS):
            n = "%s [%s]" % (name, spec)
            SPEC[n] = spec
            out.append((n, kind, path, "config"))
    if not quick:
        for (name, kind, path, group) in [it for it in items if it[3] in ("matrix", "gen", "std")]:
            n = "%s [O]" % name
            SPEC[n] = "O"
            out.append((n, kind, path, "config"))
    apps = sorted(os.path.dirname(p) for p in glob.glob(os.path.join(vlib.REPO, "waroot", "examples", "*", "wa.mod")))
    if quick:
        apps = [a for a in apps if os.path.basename(a) in ("w4-hello", "w4-snake", "arduino", "hello", "prime", "brainfuck")]
    for a in apps:
        b = os.path.basename(a)
        key = "w4-" if b.startswith("w4-") else ("arduino" if b.startswith("arduino") else "")
        for spec in APP_CONFIGS[key]:
            n = "app:%s [%s]" % (os.path.relpath(a, vlib.REPO), spec)
            SPEC[n] = spec
            out.append((n, "dir", a, "config"))
    return out


def item_line(it):
    sp = SPEC.get(it[0], "")
    return "%s %s%s" % (it[1], it[2], (" cfg=" + sp) if sp else "")


def build_corpus(ctx):
    """list of (name, kind, path, group)"""
    from gen import matrix
    quick = ctx.tier == "quick"
    d = os.path.join(ctx.tmp, "src")
    os.makedirs(d, exist_ok=True)
    items = []
    for p in sorted(glob.glob(os.path.join(vlib.VERIF, "corpus", "C27", "*"))):
        if p.endswith((".wa", ".wa.go", ".wz")):
            items.append((os.path.basename(p), "file", p, "corpus"))
    mat = matrix.all_programs()
    if quick:
        # one program per type and per context at least (stratified), rest random
        chosen, seen_t, seen_c = [], set(), set()
        order = list(mat)
        ctx.rng.shuffle(order)
        for (t, c), src in order:
            if t not in seen_t or c not in seen_c:
                chosen.append(((t, c), src)); seen_t.add(t); seen_c.add(c)
        mat = chosen[:26]
    for (t, c), src in mat:
        p = os.path.join(d, "m_%s_%s.wa.go" % (t, c))
        open(p, "w").write(src)
        items.append(("matrix:%s/%s" % (t, c), "file", p, "matrix"))
    ex = sorted(glob.glob(os.path.join(vlib.REPO, "waroot", "examples", "*.wa"))) + \
        sorted(glob.glob(os.path.join(vlib.REPO, "tests", "**", "*.wa"), recursive=True)) + \
        sorted(glob.glob(os.path.join(vlib.REPO, "waroot", "examples", "misc", "*.wa")))
    if quick:
        ex = ex[:5] + ctx.rng.sample(ex[5:], min(4, max(0, len(ex) - 5)))
    for p in ex:
        items.append(("example:" + os.path.relpath(p, vlib.REPO), "file", p, "example"))
    dirs = sorted(os.path.dirname(p) for p in glob.glob(os.path.join(vlib.REPO, "waroot", "examples", "*", "wa.mod")))
    if quick:
        dirs = [x for x in dirs if os.path.basename(x) in ("hello", "prime", "brainfuck")]
    for p in dirs:
        items.append(("app:" + os.path.relpath(p, vlib.REPO), "dir", p, "app"))
    sets = STD_SETS if not quick else ctx.rng.sample(STD_SETS, 7)
    for i, pk in enumerate(sets):
        src = "package main\n\n" + "".join('import _ "%s"\n' % x for x in pk) + "\nfunc main() {\n\tprintln(%d)\n}\n" % i
        p = os.path.join(d, "std_%s.wa.go" % "_".join(x.replace("/", "-") for x in pk))
        open(p, "w").write(src)
        items.append(("std:" + "+".join(pk), "file", p, "std"))
    try:
        from gen import progs
        n = 5 if quick else 60
        for i in range(n):
            pr = progs.gen_program(ctx.rng, "small" if i % 2 == 0 else "medium", stream="safe")
            p = os.path.join(d, "gen_%03d.wa.go" % i)
            open(p, "w").write(pr.render_go())
            items.append(("gen:%d" % i, "file", p, "gen"))
    except Exception as e:                                         # generator is optional
        ctx.notes.append("gen/progs not usable: %r" % (e,))
    return items + add_configs(ctx, items)


def run_lines(ctx, h, args, lines, timeout=3000):
    """feed `lines` to the harness; if the process dies (logger.Fatal = os.Exit inside the compiler) the line it died on
    is answered 'fatal' and the rest is re-run."""
    res = []
    todo = list(lines)
    guard = 0
    while todo and guard < 50:
        guard += 1
        try:
            rc, out, err = ctx.run_bin(h, args, "\n".join(todo) + "\n", timeout=timeout)
        except Exception as e:                                     # timeout
            res += ["fatal timeout"] * len(todo)
            break
        got = out.splitlines()
        got = got[:len(todo)]
        res += got
        if len(got) < len(todo):
            res.append("fatal exit=%s %s" % (rc, (err or "").strip().replace("\n", " | ")[-200:]))
            todo = todo[len(got) + 1:]
        else:
            todo = []
    return res


def unhex(s):
    return "" if s == "-" else bytes.fromhex(s).decode("utf-8", "replace")


def shape(line):
    """root-cause class of a differing WAT line: the kind of module field it belongs to ("(import", "(func", "(data", "(global", …),
    so that one cause (say an unsorted function loop) is one violation, not one per program"""
    m = re.match(r"\s*(\(\s*[a-z_.0-9]+|[a-z_.0-9]+)", line)
    return (m.group(1).replace(" ", "") if m else line.strip()[:20]) or "<empty>"


def run(ctx):
    tm = {}
    t = time.time()
    h = ctx.build_harness("c27")
    tm["build_s"] = round(time.time() - t, 1); t = time.time()
    sites, facts = regenerate(ctx)
    tm["extract_s"] = round(time.time() - t, 1); t = time.time()
    ctx.prove(required=REQUIRED)
    model = ctx.build_model("c27")
    tm["lean_s"] = round(time.time() - t, 1); t = time.time()

    quick = ctx.tier == "quick"
    N = 6 if quick else 16
    if ctx.replay:
        rp = json.load(open(ctx.replay))["replay"]
        d = os.path.join(ctx.tmp, "src"); os.makedirs(d, exist_ok=True)
        items = []
        SPEC[rp["program"]] = rp.get("config", "")
        if rp.get("kind") == "dir":
            items.append((rp["program"], "dir", rp["path"], "replay"))
        elif "source" in rp:
            p = os.path.join(d, rp.get("file_name", "replay.wa.go"))
            open(p, "w").write(rp["source"])
            items.append((rp["program"], "file", p, "replay"))
        N = int(rp.get("builds", N))
    else:
        items = build_corpus(ctx)
    lines = [item_line(it) for it in items]

    # ---- N builds in ONE process (chunks in parallel), and one build in each of N processes
    workers = 12
    chunks = [list(range(i, len(items), workers)) for i in range(workers)]
    chunks = [c for c in chunks if c]
    inproc = [None] * len(items)
    cross = [[None] * N for _ in items]
    with cf.ThreadPoolExecutor(16) as ex:
        f_in = {ex.submit(run_lines, ctx, h, ["multi", str(N)], [lines[i] for i in c]): c for c in chunks}
        # process j builds the corpus in a DIFFERENT order (rotation; the odd ones reversed as well): a program's predecessors in
        # the process differ from process to process and from the in-process run, so any process-global counter / cache that
        # leaks from one compilation into the next shows up as a digest difference (process 0 and the first build of a
        # chunk process give the "fresh process" result for the first program of their order)
        orders = []
        for j in range(N):
            k = (j * len(items)) // N
            o = list(range(k, len(items))) + list(range(0, k))
            if j % 2 == 1:
                o.reverse()
            orders.append(o)
        f_x = {ex.submit(run_lines, ctx, h, ["multi", "1"], [lines[i] for i in orders[j]]): j for j in range(N)}
        for fu, c in f_in.items():
            for i, r in zip(c, fu.result()):
                inproc[i] = r
        for fu, j in f_x.items():
            r = fu.result()
            for pos, i in enumerate(orders[j]):
                cross[i][j] = r[pos] if pos < len(r) else "fatal missing"
    tm["search_s"] = round(time.time() - t, 1); t = time.time()

    dist = {"programs": len(items), "builds_per_program": 2 * N, "same": 0, "build_error_same_everywhere": 0, "fatal": 0, "by_group": {}}
    samples, nontrivial = [], set()
    builds = 0
    for i, (name, kind, path, group) in enumerate(items):
        dist["by_group"][group] = dist["by_group"].get(group, 0) + 1
        r = inproc[i] or "fatal missing"
        f = r.split()
        allr = [r] + cross[i]
        builds += 2 * N
        if any(x.startswith(("fatal", "PANIC")) for x in allr):
            dist["fatal"] += 1            # compiler exit/panic on this program: C16's concern; determinism not observable
            if len({x.split()[0] for x in allr}) > 1:
                ctx.violation("nondeterministic-outcome:fatal-vs-ok", "%s: some builds die, others do not: %s" % (name, sorted(set(x[:60] for x in allr))[:4]),
                              replay_of(name, kind, path, N, {"results": allr[:8]}))
            continue
        src = open(path).read() if kind == "file" else None
        if f[0] == "DIFF":
            what = f[1]
            a, b = (unhex(f[4]), unhex(f[5])) if len(f) > 5 else ("", "")
            key = "in-process:%s-differs:%s" % (what, shape(a) if what in ("wat", "aux") else what)
            if SPEC.get(name):
                key += ":config-" + ("strip" if "O" in SPEC[name].split(",") or "wasm4" in SPEC[name] or "arduino" in SPEC[name] else "target")
            ctx.violation(key, "%s: build 0 and build %s in ONE process (same configuration) differ in the %s; first differing line %s:\n    < %s\n    > %s"
                          % (name, f[2], what, f[3], a[:200], b[:200]),
                          replay_of(name, kind, path, N, {"mode": "in-process", "what": what, "build": f[2], "line": f[3], "a": a, "b": b}))
            continue
        # cross-process comparison on digests
        digs = {}
        for j, x in enumerate(cross[i]):
            digs.setdefault(" ".join(x.split()[:4]) if x.startswith("same") else " ".join(x.split()[:2]), []).append(j)
        mine = " ".join(f[:4]) if f[0] == "same" else " ".join(f[:2])
        digs.setdefault(mine, []).append("in-process")
        if len(digs) > 1:
            det = cross_detail(ctx, h, kind, path, SPEC.get(name, ""))
            key = "cross-process:%s" % (det.get("key") or "digest-differs")
            ctx.violation(key, "%s: builds in different processes differ (%d distinct results over %d processes)%s"
                          % (name, len(digs), N, det.get("text", "")),
                          replay_of(name, kind, path, N, {"mode": "cross-process", "digests": {k: v for k, v in digs.items()}, "detail": det}))
            continue
        if f[0] == "same":
            dist["same"] += 1
            nontrivial.add((group, f[1]))
        else:
            dist["build_error_same_everywhere"] += 1
        if len(samples) < 12 and i % max(1, len(items) // 12) == 0:
            samples.append({"program": name, "result": r[:120], "processes": N})

    # ---- correspondence: real iteration orders of the real member map -> Lean model -> real emission order
    corr_n = 0
    if model and not ctx.replay:
        files = [p for (_, k, p, g) in items if k == "file" and g == "corpus"] + \
            [p for (_, k, p, g) in items if k == "file" and g in ("example", "gen", "matrix")]
        files = files[:24] if quick else files[:120]
        mres = run_lines(ctx, h, ["members", "4"], files)
        ops, want = [], []
        for p, r in zip(files, mres):
            if not r.startswith("members "):
                continue
            _, orders, _, wat, _, globs = r.split()
            for o in orders.split("|"):
                ops.append("sort " + o)
                want.append((p, o, wat, globs))
        _, mo, _ = ctx.run_bin(model, input_text="\n".join(ops) + "\n")
        mo = mo.splitlines()
        ctx.corr["lines"] += len(ops)
        per = {}
        for (p, o, wat, globs), m in zip(want, mo + ["<missing>"] * (len(want) - len(mo))):
            corr_n += 1
            bad = False
            for kind, em in (("functions", wat), ("package-level variables", globs)):
                if em == "-":
                    continue
                emitted = em.split(",")
                proj = ",".join(x for x in m.split(",") if x in set(emitted))
                if proj != em:
                    ctx.corr["diffs"] += 1
                    bad = True
                    ctx.proof["broken"].append({"theorem": "correspondence C27 model vs compile.go (emission order of %s)" % kind,
                                                "why": "%s: the %s of the main package appear in the WAT in the order %s, the model (sort.Strings order of the member names) says %s"
                                                       % (os.path.basename(p), kind, [unhex(x) for x in emitted][:24], [unhex(x) for x in proj.split(",") if x][:24])})
            if bad:
                break
            per.setdefault(p, set()).add(m)
            nontrivial.add(("order", o))
        for p, ms in per.items():
            if len(ms) != 1:
                ctx.proof["broken"].append({"theorem": "correspondence C27 (model gives different sorted lists for two real iteration orders)", "why": p})
    tm["corr_s"] = round(time.time() - t, 1)

    dist["distinct_real_iteration_orders_fed_to_model"] = len({k for k in nontrivial if k[0] == "order"})
    cov = {
        "evaluations": builds + corr_n,
        "distinct_nontrivial": len({k for k in nontrivial if k[0] != "order"}),
        "rule": "one evaluation = one complete build (api.BuildFile / LoadProgram+Compile, then watutil.Wat2Wasm); every program is built %d times in one "
                "process and once in each of %d processes and all WAT texts and wasm binaries must be byte-identical; distinct_nontrivial counts "
                "programs with pairwise distinct WAT digests whose %d builds all succeeded and agreed; plus %d real member-map iteration orders "
                "run through the Lean model and compared with the real emission order" % (N, N, 2 * N, corr_n),
        "samples": samples,
        "distribution": dist,
        "static_facts": {k: facts[k] for k in ("sites", "by_class", "unaudited_other", "gone")},
        "static_facts_changed": facts["new_or_changed"][:20],
        "timings_s": tm,
    }
    return ctx.finish("exploration", cov,
                      assumptions=["map iteration order and the per-process hash seed are the nondeterminism sources modelled; the Lean theorems are about the abstract pipeline, "
                                   "the tie to the source is the regenerated site table + the committed audit of the 'other' sites",
                                   "programs on which the compiler exits or panics identically in every build are counted as 'fatal' and carry no determinism evidence"],
                      trusted_base=["extract/c27_sites.go (go/types classification of map ranges) -> Gen/C27Sites.lean",
                                    "extract/c27_sites_expected.json (human audit of the sites of class 'other')",
                                    "harness/c27 (digest comparison), Go runtime's map-order randomisation as the schedule generator"])


def replay_of(name, kind, path, n, extra):
    r = {"program": name, "kind": kind, "builds": n, "config": SPEC.get(name, "")}
    if kind == "file":
        r["file_name"] = os.path.basename(path)
        try:
            r["source"] = open(path).read()
        except Exception:
            pass
    else:
        r["path"] = path
    r.update(extra)
    return r


def cross_detail(ctx, h, kind, path, spec=""):
    """dump the build in up to 10 fresh processes until two differ; report the first differing WAT line"""
    first = None
    for k in range(10):
        pre = os.path.join(ctx.tmp, "dump%d" % k)
        ctx.run_bin(h, ["dump", kind, path, pre] + (["cfg=" + spec] if spec else []), timeout=600)
        try:
            wat = open(pre + ".wat", "rb").read()
            wasm = open(pre + ".wasm", "rb").read()
        except Exception:
            continue
        if first is None:
            first = (wat, wasm)
            continue
        if wat != first[0]:
            la, lb = first[0].decode("utf-8", "replace").split("\n"), wat.decode("utf-8", "replace").split("\n")
            for i in range(max(len(la), len(lb))):
                x = la[i] if i < len(la) else "<eof>"
                y = lb[i] if i < len(lb) else "<eof>"
                if x != y:
                    return {"key": "wat-differs:" + shape(x), "line": i + 1, "a": x[:300], "b": y[:300],
                            "text": "; first differing WAT line %d:\n    < %s\n    > %s" % (i + 1, x[:200], y[:200])}
        if wasm != first[1]:
            return {"key": "wasm-differs-wat-equal", "text": "; WAT equal but wasm binaries differ"}
    return {"key": "history-dependent", "text": "; ten builds in FRESH processes agree with each other, so the result depends on what the same process "
            "compiled before (the processes build the corpus in different orders): process-global state leaks from one compilation into the next"}
