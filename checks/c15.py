"""C15 — Constant folding agrees with run-time evaluation and exact arithmetic."""
import concurrent.futures as cf, os, subprocess
from lib import vlib
from lib.vlib import GOENV

PROP = "C15"
META = {
    "category": "proof",
    "text": "Lean theorems over a model of internal/constant's integer operations (BinaryOp/UnaryOp/Shift/Compare/ToInt/Int64Val/Uint64Val, "
            "both the int64 fast paths with their wrap-around guards and the math/big paths) and of the checker's representableConst / "
            "binary / shift / unary / conversion rules: the model operations equal exact Int arithmetic (const_int_exact*), "
            "representableConst is exactly the type's range for every basic integer kind (representable_iff_range), the checker reports "
            "overflow exactly when the exact value is out of range (overflow_iff*), and — the bridge to Base/GoInt.lean — whenever the "
            "operands and the exact result are representable in T, Go's run-time operator on the bit-vector encodings yields the encoding "
            "of the exact result, for EVERY width and both signednesses (fold_eq_runtime_*). The one place where the full statement is false "
            "of the pinned code (MinInt64 / -1 in the int64 fast path) is proved false with a witness and replayed on the real code. "
            "The model is hand-written; it is tied to /repo by a correspondence run against the real constant package, the real type "
            "checker and the real compiler's output, with python big integers, math/big, go/constant and go/types as independent references.",
    "note": "Trusted: Lean kernel; Base/GoInt.lean as the specification of Go's run-time integer operators (validated here against the real "
            "Wa run time and `go run`); the hand-written model's tie to value.go / expr.go is the differential correspondence run, not a proof. "
            "Modelled-not-verified: float and complex constants have NO Lean theorem — float32/float64 typed constant expressions are covered by "
            "correspondence only (stage E: exact-rational oracle with rounding to the type after every typed step, go/types, and fold vs run time vs go run "
            "on bit patterns); complex constants only explored against go/constant; the path from the checker's "
            "constant value to the emitted instruction (ssa.Const -> getValue -> wir const / data segment) is covered by execution of generated "
            "programs only; string/bool constants are out of scope.",
    "technique": "Lean 4 proof over hand-written model + differential correspondence (constant package, type checker, compiled programs) "
                 "with python / math/big / go/constant / go/types references",
}
REQUIRED = ["const_int_exact", "const_int_exact_partial", "const_int_exact_quo_minint_wrong", "shift_exact", "unary_exact", "compare_exact",
            "toInt_exact_iff", "int64Val_exact_iff", "uint64Val_exact_iff",
            "representable_iff_range", "overflow_iff", "overflow_iff_shift", "overflow_iff_unary", "checkBinary_accepts_unrepresentable_quo_minint",
            "fold_eq_runtime_bin", "fold_eq_runtime_shl", "fold_eq_runtime_shr", "fold_eq_runtime_cmp", "fold_eq_runtime_neg",
            "fold_eq_runtime_not", "fold_eq_runtime_conv", "dec_enc", "spaceship_exact", "fold_eq_runtime_ship"]

WORD = 4                      # Wa: int / uint / uintptr are 32 bits
KINDS = ["int", "int8", "int16", "int32", "int64", "uint", "uint8", "uint16", "uint32", "uint64", "uintptr", "rune"]
SIGNEDK = {"int", "int8", "int16", "int32", "int64", "rune"}
WA_NAME = {"int8": "__wa_int8", "int16": "__wa_int16"}          # hidden names of the 8/16-bit signed kinds in Wa's universe
RUNK_BOTH = ["uint8", "uint16", "int32", "uint32", "int64", "uint64", "rune"]   # kinds the wat back end supports, same width in Go
RUNK_WA = ["int", "uint"]                                               # 32-bit in Wa only
BOPS = ["add", "sub", "mul", "quo", "rem", "and", "or", "xor", "andnot"]
SYM = {"add": "+", "sub": "-", "mul": "*", "quo": "/", "rem": "%", "and": "&", "or": "|", "xor": "^", "andnot": "&^",
       "shl": "<<", "shr": ">>", "eq": "==", "ne": "!=", "lt": "<", "le": "<=", "gt": ">", "ge": ">="}
CMPS = ["eq", "ne", "lt", "le", "gt", "ge"]
USYM = {"add": "+", "sub": "-", "xor": "^"}
SHIFT_BOUND = 1074


def kbits(k, word=WORD):
    return {"int": word * 8, "uint": word * 8, "uintptr": word * 8, "int8": 8, "uint8": 8, "int16": 16, "uint16": 16,
            "int32": 32, "uint32": 32, "int64": 64, "uint64": 64, "rune": 32}[k]


def krange(k, word=WORD):
    b = kbits(k, word)
    return (-(1 << (b - 1)), (1 << (b - 1)) - 1) if k in SIGNEDK else (0, (1 << b) - 1)


def rep(k, v, word=WORD):
    if k == "untyped":
        return True
    lo, hi = krange(k, word)
    return lo <= v <= hi


# ------------------------------------------------------------------ exact arithmetic (python ints; reference 1)
def tdiv(a, b):
    q = abs(a) // abs(b)
    return q if (a < 0) == (b < 0) else -q


def exact_bin(op, x, y):
    if op == "add":
        return x + y
    if op == "sub":
        return x - y
    if op == "mul":
        return x * y
    if op == "quo":
        return None if y == 0 else tdiv(x, y)
    if op == "rem":
        return None if y == 0 else x - y * tdiv(x, y)
    if op == "and":
        return x & y
    if op == "or":
        return x | y
    if op == "xor":
        return x ^ y
    if op == "andnot":
        return x & ~y
    raise ValueError(op)


def exact_cmp(c, x, y):
    return {"eq": x == y, "ne": x != y, "lt": x < y, "le": x <= y, "gt": x > y, "ge": x >= y}[c]


def exact_un(op, y, prec):
    if op == "add":
        return y
    if op == "sub":
        return -y
    z = ~y
    return z % (1 << prec) if prec > 0 else z


def pylit(s):
    """value of a Go integer literal (valid syntax only), else None"""
    t = s.replace("_", "")
    if not t.isascii():
        return None
    try:
        if t[:2] in ("0x", "0X"):
            return int(t[2:], 16)
        if t[:2] in ("0b", "0B"):
            return int(t[2:], 2)
        if t[:2] in ("0o", "0O"):
            return int(t[2:], 8)
        if len(t) > 1 and t[0] == "0":
            return int(t[1:], 8)
        return int(t, 10)
    except ValueError:
        return None


# ------------------------------------------------------------------ value pools
def value_pool(rng, nrand):
    vals = {0, 1, -1, 2, -2, 3, 7, -7, 10, 100, -100, 255, 256}
    for k in (7, 8, 15, 16, 31, 32, 33, 62, 63, 64, 65):          # boundaries of every basic type +-2
        for d in (-2, -1, 0, 1, 2):
            vals.add((1 << k) + d)
            vals.add(-(1 << k) + d)
    for k in (20, 40, 48, 56, 96, 127, 128, 150, 199, 200):        # powers of two +-1, up to 2^200
        for d in (-1, 0, 1):
            vals.add((1 << k) + d)
            vals.add(-(1 << k) + d)
    for _ in range(nrand):
        w = rng.choice([3, 8, 16, 31, 32, 33, 62, 63, 64, 65, 100, 128, 200])
        v = rng.getrandbits(w)
        vals.add(v if rng.random() < 0.6 else -v)
    return sorted(vals)


def kind_pool(rng, k, n):
    lo, hi = krange(k)
    vals = {0, 1, 2, 3, 5, 7, lo, lo + 1, hi, hi - 1, hi + 1, lo - 1, hi // 2, hi // 2 + 1, -1, -2}
    b = kbits(k)
    for _ in range(n):
        vals.add(rng.randint(lo, hi))
        vals.add(rng.randint(lo - 3, hi + 3))
        vals.add(rng.choice([1, -1]) * (1 << rng.randrange(0, b + 1)) + rng.choice([-1, 0, 1]))
        vals.add(rng.randint(-20, 20))
    return sorted(vals)


def vclass(v):
    return (v < 0, v == 0, min(abs(v).bit_length(), 201))


# ------------------------------------------------------------------ stage A: the constant package
def gen_const_ops(ctx):
    rng = ctx.rng
    quick = ctx.tier == "quick"
    pool = value_pool(rng, 60 if quick else 600)
    ops = []
    npairs = 260 if quick else 6000
    for op in BOPS:
        pairs = set()
        # guaranteed corner pairs
        for x in (0, 1, -1, (1 << 63) - 1, -(1 << 63), (1 << 62), -(1 << 62) - 1, (1 << 31), -(1 << 31) - 1, 1 << 64, (1 << 200) + 1, -(1 << 200)):
            for y in (0, 1, -1, 2, -(1 << 63), (1 << 63) - 1, (1 << 31) - 1, 1 << 200, -(1 << 100) - 1):
                pairs.add((x, y))
        while len(pairs) < npairs:
            pairs.add((rng.choice(pool), rng.choice(pool)))
        for x, y in sorted(pairs):
            ops.append(("bin", op, x, y))
    for op in ("add", "sub", "xor"):
        for y in pool:
            for prec in ((0,) if op != "xor" else (0, 8, 16, 32, 64)):
                ops.append(("un", op, y, prec))
    shifts = [0, 1, 7, 8, 31, 32, 33, 62, 63, 64, 65, 100, 200, 1074]
    for op in ("shl", "shr"):
        for x in pool[:: (3 if quick else 1)]:
            for s in (shifts if not quick else rng.sample(shifts, 6) + [0, 64]):
                ops.append(("shift", op, x, s))
    for c in CMPS:
        for _ in range(120 if quick else 2000):
            x = rng.choice(pool)
            y = rng.choice([x, x + 1, x - 1, rng.choice(pool)])
            ops.append(("cmp", c, x, y))
    for _ in range(300 if quick else 4000):
        d = rng.choice([0, 1, -1, 2, 3, -3, 7, 1 << 31, 1 << 64, rng.choice(pool)])
        q = rng.choice(pool)
        n = q * d + rng.choice([0, 0, 0, 1, -1, 2]) if d != 0 else q
        ops.append(("ratint", n, d))
    for v in pool:
        ops.append(("i64val", v))
        ops.append(("u64val", v))
        ops.append(("bitlen", v))
        ops.append(("sign", v))
    for k in [k for k in KINDS if k != "rune"] + ["untyped"]:        # rune is the int32 kind under another name
        for word in (4, 8):
            vs = set()
            for kk in (7, 8, 15, 16, 31, 32, 63, 64):
                for d in (-1, 0, 1):
                    vs.add((1 << kk) + d)
                    vs.add(-(1 << kk) + d)
            vs.update([0, -1, 1, 1 << 100, -(1 << 100)])
            vs.update(rng.sample(pool, 12 if quick else 80))
            for v in sorted(vs):
                ops.append(("repr", k, word, v))
    # literals: valid spellings of pool values + a malformed stream
    for v in [abs(x) for x in pool[:: (4 if quick else 1)]]:
        forms = ["%d" % v, "0x%x" % v, "0X%X" % v, "0o%o" % v, "0%o" % v if v else "0", "0b%s" % bin(v)[2:], "0B%s" % bin(v)[2:]]
        f = rng.choice(forms)
        if len(f) > 3 and rng.random() < 0.4:
            i = rng.randrange(2 if f[:2].lower() in ("0x", "0o", "0b") else 1, len(f))
            f = f[:i] + "_" + f[i:]
        ops.append(("lit", f))
    for bad in ["08", "09", "0x", "0b", "0b2", "0o8", "0xg", "1a", "0o", "00", "007", "0_7", "1__0", "0x_", "_1", "1_", "0b_1", "0O17", "0o_17", "١"]:
        ops.append(("lit", bad))
    # the Wa-only three-way comparison on Int constants: boundary pairs of every width, int64 differences that wrap, big values
    sp = set()
    for w in (8, 16, 32, 64):
        for x in (-(1 << (w - 1)), (1 << (w - 1)) - 1, (1 << w) - 1, 0, 1, -1, -(1 << (w - 1)) - 1, 1 << w):
            for y in (-(1 << (w - 1)), (1 << (w - 1)) - 1, (1 << w) - 1, 0, 1, -1, x, x + 1, x - 1):
                sp.add((x, y))
    for x in (1 << 100, -(1 << 100), (1 << 200) + 1):
        for y in (x, x - 1, -x, 0, 1 << 63, -(1 << 63)):
            sp.add((x, y)); sp.add((y, x))
    for _ in range(150 if quick else 3000):
        x = rng.choice(pool)
        sp.add((x, rng.choice([x, x + 1, x - 1, rng.choice(pool), -x])))
    for x, y in sorted(sp):
        ops.append(("ship", x, y))
    # floats: <=> and comparisons of (untyped, exact) float constants
    fl = ["0.1", "0.2", "0.25", "1", "1.0", "-1", "1e400", "1e399", "-1e400", "1e-400", "0", "0.0", "16777217", "16777216.5", "0.30000000000000004", "0.3", "3", "1e5000", "9.99e4999"]
    for _ in range(60 if quick else 600):
        a_, b_ = rng.choice(fl), rng.choice(fl)
        ops.append(("fship", a_, b_))
        ops.append(("fcmp", rng.choice(CMPS), a_, b_))
    # strings and bools
    strs = ["", "a", "ab", "abc", "abd", "B", "aB", "z", "hello", "hellp", "\xe5\x87\xb9", "a b", "abcabcabcabcabcabcabcabcabcabcabcabcabc"]
    hx = lambda t: (t.encode("latin-1") if any(ord(c) > 127 for c in t) else t.encode()).hex() or "-"
    for _ in range(80 if quick else 800):
        a_, b_ = rng.choice(strs), rng.choice(strs)
        ops.append(("sship", hx(a_), hx(b_)))
        ops.append(("scmp", rng.choice(CMPS), hx(a_), hx(b_)))
        ops.append(("sbin", "add", hx(a_), hx(b_)))
    for t in strs:
        ops.append(("slen", hx(t)))
    for x in ("true", "false"):
        ops.append(("bnot", x))
        for y in ("true", "false"):
            for o in ("land", "lor", "eq", "ne"):
                ops.append(("bbin", o, x, y))
    return ops


def parse_op(line):
    f = line.split()
    return tuple(int(a) if (a.lstrip("-").isdigit() and f[0] != "lit") else a for a in f)


def corpus_ops():
    out = []
    d = os.path.join(vlib.VERIF, "corpus", "C15")
    if os.path.isdir(d):
        for fn in sorted(os.listdir(d)):
            if fn.endswith(".txt"):
                for l in open(os.path.join(d, fn)):
                    l = l.strip()
                    if l and not l.startswith("#"):
                        out.append(parse_op(l))
    return out


MODEL_OPS = ("bin", "un", "shift", "cmp", "ratint", "i64val", "u64val", "bitlen", "sign", "lit", "repr", "ship")


def const_expected(op):
    """the property's own predicate: what exact arithmetic says the real function must return (None = no requirement)"""
    k = op[0]
    if k == "bin":
        r = exact_bin(op[1], op[2], op[3])
        return "panic" if r is None else "ok %d" % r
    if k == "un":
        return "ok %d" % exact_un(op[1], op[2], op[3])
    if k == "shift":
        return "ok %d" % (op[2] << op[3] if op[1] == "shl" else op[2] >> op[3])
    if k == "cmp":
        return "true" if exact_cmp(op[1], op[2], op[3]) else "false"
    if k == "ratint":
        n, d = op[1], op[2]
        if d == 0:
            return "panic"
        return "ok %d" % (n // d) if n % d == 0 else "unknown"
    if k == "i64val":
        return "exact %d" % op[1] if -(1 << 63) <= op[1] < (1 << 63) else "inexact"
    if k == "u64val":
        return "exact %d" % op[1] if 0 <= op[1] < (1 << 64) else "inexact"
    if k == "bitlen":
        return "%d" % abs(op[1]).bit_length()
    if k == "sign":
        return "%d" % ((op[1] > 0) - (op[1] < 0))
    if k == "repr":
        return "true" if rep(op[1], op[3], op[2]) else "false"
    if k == "ship":
        return "%d" % ((op[1] > op[2]) - (op[1] < op[2]))
    if k in ("fship", "fcmp"):
        x, y = Fraction(op[-2]), Fraction(op[-1])
        if k == "fship":
            return "%d" % ((x > y) - (x < y))
        return "true" if exact_cmp(op[1], x, y) else "false"
    if k in ("sship", "scmp", "sbin", "slen"):
        ub = lambda h: b"" if h == "-" else bytes.fromhex(str(h))
        if k == "slen":
            return "%d" % len(ub(op[1]))
        x, y = ub(op[-2]), ub(op[-1])
        if k == "sship":
            return "%d" % ((x > y) - (x < y))
        if k == "scmp":
            return "true" if exact_cmp(op[1], x, y) else "false"
        return "s:" + ((x + y).hex() or "-")
    if k == "bbin":
        x, y = op[2] == "true", op[3] == "true"
        return "true" if {"land": x and y, "lor": x or y, "eq": x == y, "ne": x != y}[op[1]] else "false"
    if k == "bnot":
        return "false" if op[1] == "true" else "true"
    if k == "lit":
        v = pylit(op[1])
        ok_syntax = v is not None and "__" not in op[1] and not op[1].endswith("_") and not op[1].startswith("_") \
            and not (len(op[1]) > 2 and op[1][:2].lower() in ("0x", "0b", "0o") and False)
        return ("ok %d" % v) if ok_syntax else None        # malformed literals: compared with the model only
    return None


def opline(op):
    return " ".join(str(a) for a in op)


# ------------------------------------------------------------------ stage B: declarations for the type checker
def lit_text(rng, v):
    if v < 0:
        return "(-%s)" % lit_text(rng, -v)
    r = rng.random()
    if r < 0.15:
        return "0x%x" % v
    if r < 0.2 and v > 999:
        s = "%d" % v
        return s[:-3] + "_" + s[-3:]
    return "%d" % v


def named_prelude(lang, kinds=None):
    """`type N_k k` for every basic kind (the named-type rendering of the generated texts)"""
    out = []
    for k in (kinds or KINDS):
        out.append("type N_%s %s" % (k, WA_NAME.get(k, k) if lang == "wa" else k))
    return "\n".join(out) + "\n"


def subst_kinds(t, lang, named, kinds=None):
    for k in (kinds or KINDS + ["float32", "float64", "string", "bool"]):
        t = t.replace("@" + k + "@", ("N_" + k) if named else (WA_NAME.get(k, k) if lang == "wa" else k))
    return t


class Decl:
    """one generated constant declaration: model op, python verdict, text for Wa and for Go.
    named: operands / declared type are NAMED types `N_k` over the basic kind; waonly: uses a Wa-only operator (`<=>`)"""
    __slots__ = ("shape", "args", "expect", "text", "run", "named", "waonly")

    def __init__(self, shape, args, expect, text, run=None, named=False, waonly=False):
        self.shape, self.args, self.expect, self.text, self.run, self.named, self.waonly = shape, args, expect, text, run, named, waonly

    def as_named(self):
        return Decl(self.shape, self.args, self.expect, self.text, self.run, True, self.waonly)

    def model_op(self, qw):
        # the Lean model has no separate rune kind: rune is int32
        return "%s %s %d %s" % (qw, self.shape, WORD, " ".join("int32" if a == "rune" else str(a) for a in self.args))

    def render(self, i, lang, var=False):
        t = subst_kinds(self.text, lang, self.named)
        name = ("v%d" if var else "c%d") % i
        kw = "var" if var else "const"
        return t.replace("@DECL@", "%s %s" % (kw, name))


def hits_minq(d):
    """does evaluating the declaration pass through the single point MinInt64 / -1 (finding binaryop:int64-quo-minint-by-minus1)?"""
    M = -(1 << 63)
    if d.shape in ("dbint", "dbinu"):
        return d.args[1] == "quo" and d.args[2] == M and d.args[3] == -1
    if d.shape in ("dbin2t", "dbin2u"):
        _, op1, op2, x, y, z = d.args
        if op1 == "quo" and x == M and y == -1:
            return True
        r1 = exact_bin(op1, x, y)
        return op2 == "quo" and r1 == M and z == -1
    return False


def T(k):
    return "@%s@" % k


def oracle_bint(k, op, x, y):
    if not rep(k, x) or not rep(k, y):
        return "reject"
    r = exact_bin(op, x, y)
    if r is None or not rep(k, r):
        return "reject"
    return "ok:%d" % r


def gen_decls(ctx):
    rng = ctx.rng
    quick = ctx.tier == "quick"
    n = 3 if quick else 14
    decls = []
    for k in KINDS:
        pool = kind_pool(rng, k, 10 if quick else 60)
        lo, hi = krange(k)
        inr = [v for v in pool if lo <= v <= hi]
        b = kbits(k)
        # typed binary: const c = K(x) op K(y)
        for op in BOPS:
            pairs = set()
            corner = [(hi, 1), (lo, 1), (lo, -1), (hi, hi), (lo, lo), (hi, 0), (0, hi), (lo, hi), (hi, lo), (hi + 1, 0), (0, lo - 1), (1, 0), (0, 0), (hi, -1), (hi, 2)]
            for x, y in corner:
                pairs.add((x, y))
            while len(pairs) < len(corner) + n * 5:
                x = rng.choice(inr if rng.random() < 0.9 else pool)
                y = rng.choice(inr if rng.random() < 0.9 else pool)
                if rng.random() < 0.3:
                    y = rng.choice([0, 1, -1, 2, 3, x])
                pairs.add((x, y))
            for x, y in sorted(pairs):
                if k not in SIGNEDK and (x < 0 or y < 0) and rng.random() < 0.7:
                    continue
                decls.append(Decl("dbint", (k, op, x, y), oracle_bint(k, op, x, y),
                                  "@DECL@ = %s(%s) %s %s(%s)" % (T(k), lit_text(rng, x), SYM[op], T(k), lit_text(rng, y)),
                                  run=("bin", k, op, x, y)))
            # untyped operands: const c K = x op y  (exact, then one check)
            for _ in range(n * 3):
                x = rng.choice(pool + [1 << 100, -(1 << 70), (1 << 64) + 1])
                y = rng.choice(pool + [1 << 100, (1 << 100) - 1, 3])
                r = exact_bin(op, x, y)
                exp = "reject" if r is None or not rep(k, r) else "ok:%d" % r
                decls.append(Decl("dbinu", (k, op, x, y), exp, "@DECL@ %s = %s %s %s" % (T(k), lit_text(rng, x), SYM[op], lit_text(rng, y))))
        # two-level expressions: typed intermediates are checked, untyped intermediates are exact and unbounded
        for _ in range(n * 8):
            op1, op2 = rng.choice(BOPS), rng.choice(BOPS)
            x, y, z = rng.choice(inr), rng.choice(inr + [0, 1, 2]), rng.choice(inr + [0, 1, 2, hi, lo])
            r1 = exact_bin(op1, x, y)
            exp = "reject"
            if r1 is not None and rep(k, r1):
                r2 = exact_bin(op2, r1, z)
                if r2 is not None and rep(k, r2):
                    exp = "ok:%d" % r2
            decls.append(Decl("dbin2t", (k, op1, op2, x, y, z), exp, "@DECL@ = (%s(%s) %s %s(%s)) %s %s(%s)" % (
                T(k), lit_text(rng, x), SYM[op1], T(k), lit_text(rng, y), SYM[op2], T(k), lit_text(rng, z))))
            x, y, z = rng.choice(pool + [1 << 100]), rng.choice(pool + [1 << 90, 3]), rng.choice(pool + [1 << 100, (1 << 100) - 1, 1 << 90, 5])
            r1 = exact_bin(op1, x, y)
            r2 = None if r1 is None else exact_bin(op2, r1, z)
            exp = "reject" if r2 is None or not rep(k, r2) else "ok:%d" % r2
            decls.append(Decl("dbin2u", (k, op1, op2, x, y, z), exp, "@DECL@ %s = (%s %s %s) %s %s" % (
                T(k), lit_text(rng, x), SYM[op1], lit_text(rng, y), SYM[op2], lit_text(rng, z))))
        # shifts
        for op in ("shl", "shr"):
            for _ in range(n * 6):
                x = rng.choice(inr + [1, 1, -1 if lo < 0 else 1, hi, lo])
                s = rng.choice([0, 1, 2, 7, 8, b - 2, b - 1, b, b + 1, 31, 32, 33, 63, 64, 65, 200, SHIFT_BOUND, SHIFT_BOUND + 1, -1, 5000, 1 << 32, 1 << 64])
                if rep(k, x) and 0 <= s <= SHIFT_BOUND and rep(k, x << s if op == "shl" else x >> s):
                    exp = "ok:%d" % (x << s if op == "shl" else x >> s)
                else:
                    exp = "reject"
                decls.append(Decl("dsht", (k, op, x, s), exp, "@DECL@ = %s(%s) %s %s" % (T(k), lit_text(rng, x), SYM[op], lit_text(rng, s)),
                                  run=("shift", k, op, x, s)))
                x = rng.choice(pool + [1 << 100, -(1 << 100) - 1, 1])
                s = rng.choice([0, 1, 8, 31, 32, 63, 64, 100, 200, SHIFT_BOUND, SHIFT_BOUND + 1, -1])
                if 0 <= s <= SHIFT_BOUND and rep(k, x << s if op == "shl" else x >> s):
                    exp = "ok:%d" % (x << s if op == "shl" else x >> s)
                else:
                    exp = "reject"
                decls.append(Decl("dshu", (k, op, x, s), exp, "@DECL@ %s = %s %s %s" % (T(k), lit_text(rng, x), SYM[op], lit_text(rng, s))))
        # unary
        for op in ("add", "sub", "xor"):
            for x in sorted(set([lo, hi, 0, 1, lo + 1, hi - 1, hi + 1, lo - 1] + rng.sample(pool, min(len(pool), n * 2)))):
                prec = b if k not in SIGNEDK else 0
                r = exact_un(op, x, prec)
                exp = "ok:%d" % r if rep(k, x) and rep(k, r) else "reject"
                decls.append(Decl("dunt", (k, op, x), exp, "@DECL@ = %s%s(%s)" % (USYM[op], T(k), lit_text(rng, x)), run=("un", k, op, x)))
                r = exact_un(op, x, 0)
                exp = "ok:%d" % r if rep(k, r) else "reject"
                decls.append(Decl("dunu", (k, op, x), exp, "@DECL@ %s = %s%s" % (T(k), USYM[op], lit_text(rng, x))))
        # conversions K2(K(x))
        for k2 in KINDS:
            for x in sorted(set([lo, hi, 0, hi + 1, lo - 1] + rng.sample(pool, min(len(pool), n)))):
                exp = "ok:%d" % x if rep(k, x) and rep(k2, x) else "reject"
                decls.append(Decl("dconv", (k, k2, x), exp, "@DECL@ = %s(%s(%s))" % (T(k2), T(k), lit_text(rng, x)), run=("conv", k, k2, x)))
        # the Wa-only three-way comparison: const c = K(x) <=> K(y)  (an int constant -1/0/1; not Go: no go/types reference)
        spairs = set([(lo, 1), (1, lo), (lo, hi), (hi, lo), (lo, lo), (hi, hi), (0, 0), (-1 if lo < 0 else 1, 1), (hi, hi - 1), (lo, lo + 1), (hi + 1, 0), (0, lo - 1),
                      (lo, -1 if lo < 0 else 0), (hi, 0), (0, hi), (lo, 0)])
        while len(spairs) < 16 + n * 4:
            x = rng.choice(inr if rng.random() < 0.9 else pool)
            spairs.add((x, rng.choice([x, x + 1, x - 1, rng.choice(inr)])))
        for x, y in sorted(spairs):
            exp = ("ok:%d" % ((x > y) - (x < y))) if rep(k, x) and rep(k, y) else "reject"
            decls.append(Decl("dship", (k, x, y), exp, "@DECL@ = %s(%s) <=> %s(%s)" % (T(k), lit_text(rng, x), T(k), lit_text(rng, y)),
                              run=("ship", k, x, y), waonly=True))
        # comparisons
        for c in CMPS:
            for _ in range(n * 2):
                x = rng.choice(inr if rng.random() < 0.9 else pool)
                y = rng.choice([x, x + 1, x - 1, rng.choice(inr)])
                exp = ("ok:%s" % ("true" if exact_cmp(c, x, y) else "false")) if rep(k, x) and rep(k, y) else "reject"
                decls.append(Decl("dcmp", (k, c, x, y), exp, "@DECL@ = %s(%s) %s %s(%s)" % (T(k), lit_text(rng, x), SYM[c], T(k), lit_text(rng, y)),
                                  run=("cmp", k, c, x, y)))
        # untyped rational quotient assigned to an integer type: const c K = n / d.0
        for _ in range(n * 4):
            d = rng.choice([0, 1, -1, 2, 3, 7, -4, 1 << 20])
            q = rng.choice(pool)
            nn = q * d + rng.choice([0, 0, 0, 1, -1]) if d else q
            exp = "ok:%d" % (nn // d) if d != 0 and nn % d == 0 and rep(k, nn // d) else "reject"
            dt = "%d.0" % d if d >= 0 else "(-%d.0)" % -d
            decls.append(Decl("drat", (k, nn, d), exp, "@DECL@ %s = %s / %s" % (T(k), lit_text(rng, nn), dt)))
    rng.shuffle(decls)
    return decls


def write_decl_files(ctx, decls, per_file=250):
    """returns [(indices, paths)]; declarations are grouped by (named, waonly) so that one file has one rendering mode"""
    files = []
    groups = {}
    for i, d in enumerate(decls):
        groups.setdefault((d.named, d.waonly), []).append(i)
    for (named, waonly), idx in sorted(groups.items()):
        for fi in range(0, len(idx), per_file):
            chunk = idx[fi:fi + per_file]
            usevar = [(j % 7 == 3) for j in range(len(chunk))]
            paths = {}
            for lang in (("wa",) if waonly else ("wa", "go")):
                src = "package main\n\n" + (named_prelude(lang) + "\n" if named else "") + \
                      "\n".join(decls[i].render(j, lang, usevar[j]) for j, i in enumerate(chunk)) + "\n\nfunc main() {}\n"
                d = os.path.join(ctx.tmp, "decl_%d%d_%d_%s" % (named, waonly, fi, lang))
                os.makedirs(d, exist_ok=True)
                p = os.path.join(d, "main.wa.go" if lang == "wa" else "main.go")
                with open(p, "w") as f:
                    f.write(src)
                paths[lang] = p
            files.append((chunk, paths))
    return files


# ------------------------------------------------------------------ stage C: fold vs run time on the real compiler
def fn_name(run):
    kind = run[0]
    if kind == "conv":
        return "cv_%s_%s" % (run[1], run[2])
    if kind == "ship":
        return "ship_%s" % run[1]
    return "%s_%s_%s" % (kind, run[2], run[1])


def fn_src(run):
    kind, k = run[0], T(run[1])
    if kind == "bin":
        return "func %s(x, y %s) %s { return x %s y }" % (fn_name(run), k, k, SYM[run[2]])
    if kind == "shift":
        return "func %s(x %s, s uint32) %s { return x %s s }" % (fn_name(run), k, k, SYM[run[2]])
    if kind == "un":
        return "func %s(x %s) %s { return %sx }" % (fn_name(run), k, k, USYM[run[2]])
    if kind == "cmp":
        return "func %s(x, y %s) bool { return x %s y }" % (fn_name(run), k, SYM[run[2]])
    if kind == "ship":
        return "func %s(x, y %s) int { return x <=> y }" % (fn_name(run), k)
    if kind == "conv":
        return "func %s(x %s) %s { return %s(x) }" % (fn_name(run), k, T(run[2]), T(run[2]))
    raise ValueError(kind)


def plain(v):
    return "%d" % v


def run_exprs(run):
    """(constant expression text, call text), type names as @k@ markers"""
    kind, k = run[0], T(run[1])
    if kind == "bin":
        _, _, op, x, y = run
        return "%s(%s) %s %s(%s)" % (k, plain(x), SYM[op], k, plain(y)), "%s(%s, %s)" % (fn_name(run), plain(x), plain(y))
    if kind == "shift":
        _, _, op, x, s = run
        return "%s(%s) %s %d" % (k, plain(x), SYM[op], s), "%s(%s, %d)" % (fn_name(run), plain(x), s)
    if kind == "un":
        _, _, op, x = run
        return "%s%s(%s)" % (USYM[op], k, plain(x)), "%s(%s)" % (fn_name(run), plain(x))
    if kind == "cmp":
        _, _, c, x, y = run
        return "%s(%s) %s %s(%s)" % (k, plain(x), SYM[c], k, plain(y)), "%s(%s, %s)" % (fn_name(run), plain(x), plain(y))
    if kind == "ship":
        _, _, x, y = run
        return "%s(%s) <=> %s(%s)" % (k, plain(x), k, plain(y)), "%s(%s, %s)" % (fn_name(run), plain(x), plain(y))
    if kind == "conv":
        _, _, k2, x = run
        return "%s(%s(%s))" % (T(k2), k, plain(x)), "%s(%s)" % (fn_name(run), plain(x))
    raise ValueError(kind)


def run_kinds(run):
    return [run[1]] + ([run[2]] if run[0] == "conv" else [])


def run_rkind(run):
    """kind of the expression's value: bool for comparisons, int for <=>, the target for conversions"""
    return {"cmp": "bool", "ship": "int"}.get(run[0]) or (run[2] if run[0] == "conv" else run[1])


def lean_run_op(run):
    kind, k = run[0], run[1]
    ts = "%d %s" % (kbits(k), "s" if k in SIGNEDK else "u")
    if kind == "bin":
        return "qw0 rbin %s %s %d %d" % (ts, run[2], run[3], run[4])
    if kind == "shift":
        return "qw0 rshift %s %s %d %d" % (ts, run[2], run[3], run[4])
    if kind == "un":
        return "qw0 run %s %s %d" % (ts, run[2], run[3])
    if kind == "cmp":
        return "qw0 rcmp %s %s %d %d" % (ts, run[2], run[3], run[4])
    if kind == "ship":
        return "qw0 rship %s %d %d" % (ts, run[2], run[3])
    if kind == "conv":
        k2 = run[2]
        return "qw0 rconv %s %d %s %d" % (ts, kbits(k2), "s" if k2 in SIGNEDK else "u", run[3])
    raise ValueError(kind)


def pr_helper(k, named):
    """pr_k: takes the value AT ITS OWN (named) type — so a constant argument is materialised by the back end as a constant of
    the named type — and returns a printable basic value (rune as int64: Wa prints a rune as a character)"""
    ret = "int64" if k == "rune" else k
    return "func pr_%s(x %s) %s { return %s(x) }" % (k, ("N_" + k) if named else k, ret, ret)


def build_run_program(cases, named=False):
    """cases: list of (run, expected string).  One output line per case: <folded> <run-time> <global>.
    named=True: every operand/parameter/global has the named type N_k, and the three values are observed through pr_k."""
    fns, seen, kinds, rk = [], set(), [], []
    for run, _ in cases:
        nm = fn_name(run)
        if nm not in seen:
            seen.add(nm)
            fns.append(fn_src(run))
        for k in run_kinds(run):
            if k not in kinds:
                kinds.append(k)
        r = run_rkind(run)
        if r in KINDS and r not in rk and (named or r == "rune") and run[0] not in ("cmp", "ship"):
            rk.append(r)

    def obs(run, e):
        r = run_rkind(run)
        return "pr_%s(%s)" % (r, e) if r in rk and run[0] not in ("cmp", "ship") else e
    glob, body = [], []
    for i, (run, _) in enumerate(cases):
        ce, call = run_exprs(run)
        glob.append("var g%d = %s" % (i, ce))
        body.append("\tprintln(%s, %s, %s)" % (obs(run, ce), obs(run, call), obs(run, "g%d" % i)))
    src = "package main\n\n" + (named_prelude("wa", kinds) + "\n" if named else "") + "\n".join(pr_helper(k, named) for k in rk) + "\n" + \
          "\n".join(fns) + "\n\n" + "\n".join(glob) + "\n\nfunc main() {\n" + "\n".join(body) + "\n}\n"
    return subst_kinds(src, "go", named)


def run_wa(ctx, warun, src, tag):
    d = os.path.join(ctx.tmp, tag)
    os.makedirs(d, exist_ok=True)
    wf = os.path.join(d, "prog.wa.go")
    with open(wf, "w") as f:
        f.write(src)
    try:
        p = subprocess.run([warun, "run", wf], stdout=subprocess.PIPE, stderr=subprocess.PIPE, text=True, timeout=300)
        return ("ok" if p.returncode == 0 else "err:%d" % p.returncode), p.stdout.splitlines(), p.stderr[-600:]
    except subprocess.TimeoutExpired:
        return "timeout", [], ""


def run_go(ctx, src, tag):
    d = os.path.join(ctx.tmp, tag)
    os.makedirs(d, exist_ok=True)
    with open(os.path.join(d, "main.go"), "w") as f:
        f.write(src)
    env = dict(GOENV, GOFLAGS="-mod=mod", GO111MODULE="off", GOCACHE=os.environ.get("GOCACHE", os.path.expanduser("~/.cache/go-build")))
    try:
        p = vlib.go_run(d, env, 300)
        return ("ok" if p.returncode == 0 else "err:%d" % p.returncode), p.stderr.splitlines()      # println writes to stderr
    except subprocess.TimeoutExpired:
        return "timeout", []


def go_vet(ctx, src, tag):
    d = os.path.join(ctx.tmp, tag)
    os.makedirs(d, exist_ok=True)
    with open(os.path.join(d, "main.go"), "w") as f:
        f.write(src)
    env = dict(GOENV, GOFLAGS="-mod=mod", GO111MODULE="off", GOCACHE=os.environ.get("GOCACHE", os.path.expanduser("~/.cache/go-build")))
    p = subprocess.run(["go", "vet", "main.go"], cwd=d, stdout=subprocess.PIPE, stderr=subprocess.STDOUT, text=True, timeout=300, env=env)
    return p.returncode, p.stdout


def global_defect_key(k, v):
    """root-cause classes of the data-segment materialisation defect (wir aBasic.Bin)"""
    if k == "int64" and not (-32 <= v <= 31):
        return "global-init:int64:parseint-bitsize-6"
    if k == "uint64" and v >= (1 << 63):
        return "global-init:uint64:ge-2^63-parsed-as-0"
    return "global-init:%s:wrong-value" % k


# ------------------------------------------------------------------ stage D: float / complex exploration
def gen_float_ops(ctx):
    rng = ctx.rng
    lits = ["0.0", "1.0", "0.5", "0.1", "1e10", "1e100", "1e308", "1e309", "1e-320", "1e-400", "3.14159", "2.5", "1e400", "0x1p-1074", "0x1.fffffffffffffp1023",
            "16777217.0", "1.5i", "2i", "0.1i", "1e40", "3.4028235e38", "3.4028236e38", "1", "3", "7", "-2.5", "-1e308", "123456789012345678901234567890.0"]
    ops = []
    for _ in range(150 if ctx.tier == "quick" else 2000):
        ops.append("fbin %s %s %s" % (rng.choice(["add", "sub", "mul", "quo"]), rng.choice(lits), rng.choice(lits)))
    for l in lits:
        ops.append("fconv toint %s" % l)
        ops.append("fconv tofloat %s" % l)
    return ops



# ------------------------------------------------------------------ stage E: typed FLOAT constant expressions (no Lean theorem)
from fractions import Fraction
import struct

FFMT = {"float32": (24, -149, 128), "float64": (53, -1074, 1024)}     # precision, exponent of the smallest ulp, overflow threshold 2^emax
FOPS = {"add": "+", "sub": "-", "mul": "*", "quo": "/"}
FINTS = ["int32", "int64", "uint8", "uint32", "uint64"]
F32LITS = ["0.1", "0.2", "0.3", "0.7", "1", "2", "3", "7", "0.5", "1.5", "16777215", "16777216", "16777217", "16777219", "33554434", "8388608.5",
           "1e-45", "1.4e-45", "2.1e-45", "1e-40", "1.1754944e-38", "1.1754942e-38", "1e-30", "1e-50", "3.4028235e38", "3.4028234e38", "1e38", "2e38",
           "1e31", "1.1e31", "1e20", "123456789", "0.333333333333", "1e39", "4294967296", "9223372036854775807", "255", "256", "2.5", "2147483648", "2147483520"]
F64LITS = ["0.1", "0.2", "0.3", "0.7", "1", "2", "3", "7", "0.5", "1.5", "9007199254740992", "9007199254740993", "9007199254740995", "1e16", "1e300", "1e-300",
           "4.9e-324", "1e-320", "2.2250738585072014e-308", "1.7976931348623157e308", "1e308", "1e292", "1.0e-400", "1e309", "123456789.123456789",
           "16777217", "3.4028235e38", "3.4028236e38", "1e-45", "18446744073709551615", "9223372036854775807", "9223372036854775808", "255.5", "256", "2147483647"]


def fround(fr, kind):
    """round an exact rational to the nearest value of the IEEE format (ties to even); None = overflows"""
    p, emin, emax = FFMT[kind]
    if fr == 0:
        return Fraction(0)
    sg = -1 if fr < 0 else 1
    a = abs(fr)
    e = a.numerator.bit_length() - a.denominator.bit_length()
    while Fraction(2) ** e > a:
        e -= 1
    while Fraction(2) ** (e + 1) <= a:
        e += 1
    ue = max(e - (p - 1), emin)
    q = a / Fraction(2) ** ue
    n = q.numerator // q.denominator
    rem = q - n
    if rem > Fraction(1, 2) or (rem == Fraction(1, 2) and n % 2 == 1):
        n += 1
    r = n * Fraction(2) ** ue
    if r >= Fraction(2) ** emax:
        return None
    return sg * r


def fbits(fr, kind):
    if kind == "float32":
        return struct.unpack(">I", struct.pack(">f", float(fr)))[0]
    return struct.unpack(">Q", struct.pack(">d", float(fr)))[0]


def fexact_op(op, a, b):
    if op == "add":
        return a + b
    if op == "sub":
        return a - b
    if op == "mul":
        return a * b
    return None if b == 0 else a / b


def flit(v):
    """float spelling of a literal (so that untyped operands are untyped FLOAT constants)"""
    t = v.lstrip("-")
    if not any(c in t for c in ".e"):
        t += ".0"
    return "(-%s)" % t if v.startswith("-") else t


class FDecl:
    """a generated float constant declaration: text (same for Wa and Go), oracle verdict, run-time twin"""
    __slots__ = ("shape", "kind", "text", "expect", "fn", "call", "rkind", "key", "waonly")

    def __init__(self, shape, kind, text, expect, fn=None, call=None, rkind=None, waonly=False):
        self.shape, self.kind, self.text, self.expect, self.fn, self.call, self.rkind, self.waonly = shape, kind, text, expect, fn, call, rkind, waonly
        self.key = "%s:%s" % (shape, kind)


def gen_float_decls(ctx):
    rng = ctx.rng
    quick = ctx.tier == "quick"
    out = []

    def sgn(v):
        return "-" + v if rng.random() < 0.2 else v
    for kind, lits in (("float32", F32LITS), ("float64", F64LITS)):
        # typed chains ((K(a) op K(b)) op K(c)) [op K(d)]: rounded to K after every step
        corner = [(["add", "add"], ["16777216", "1", "1"]), (["add", "sub"], ["0.1", "0.2", "0.3"]), (["mul", "quo"], ["0.1", "3", "3"]),
                  (["add", "add"], ["9007199254740992", "1", "1"]), (["add", "sub"], ["3.4028235e38", "1e31", "1e31"]),
                  (["add", "sub"], ["3.4028235e38", "1.1e31", "1.1e31"]), (["mul", "mul"], ["1e-30", "1e-30", "1e30"]),
                  (["quo", "mul"], ["1", "3", "3"]), (["add", "add", "add"], ["16777216", "1", "1", "1"]), (["quo", "add"], ["1", "1e-50", "1"]),
                  (["mul", "quo"], ["1e38", "10", "10"]), (["mul", "quo"], ["1e300", "1e10", "1e10"]), (["sub", "mul"], ["1.5", "1.4e-45", "0.5"]),
                  (["add", "add"], ["0.1", "0.2", "0.3"]), (["mul", "add"], ["1.1754944e-38", "0.5", "1e-45"]), (["mul", "mul"], ["4.9e-324", "0.5", "2"])]
        n = (70 if quick else 900)
        seqs = [c for c in corner]
        while len(seqs) < len(corner) + n:
            k = rng.choice([2, 2, 2, 3])
            seqs.append(([rng.choice(list(FOPS)) for _ in range(k)], [sgn(rng.choice(lits)) for _ in range(k + 1)]))
        for ops, vals in seqs:
            acc, ok = None, True
            for i, v in enumerate(vals):
                x = fround(Fraction(v), kind)
                if x is None:
                    ok = False
                    break
                if i == 0:
                    acc = x
                else:
                    r = fexact_op(ops[i - 1], acc, x)
                    r = None if r is None else fround(r, kind)
                    if r is None:
                        ok = False
                        break
                    acc = r
            e = "%s(%s)" % (kind, vals[0])
            body = "a0"
            for i, op in enumerate(ops):
                e = "(%s %s %s(%s))" % (e, FOPS[op], kind, vals[i + 1])
                body = "(%s %s a%d)" % (body, FOPS[op], i + 1)
            nm = "fc_%s_%s" % (kind, "_".join(ops))
            fn = "func %s(%s %s) %s { return %s }" % (nm, ", ".join("a%d" % i for i in range(len(vals))), kind, kind, body)
            out.append(FDecl("fchain%d" % len(ops), kind, "@DECL@ = " + e, ("ok", acc) if ok else "reject",
                             fn=fn, call="%s(%s)" % (nm, ", ".join(vals)), rkind=kind))
            # the same operators on UNTYPED float constants: exact rational arithmetic, rounded once at the declaration
            acc, ok = Fraction(vals[0]), True
            e = flit(vals[0])
            for i, op in enumerate(ops):
                acc = fexact_op(op, acc, Fraction(vals[i + 1]))
                if acc is None:
                    ok = False
                    break
                e = "(%s %s %s)" % (e, FOPS[op], flit(vals[i + 1]))
            if ok:
                acc = fround(acc, kind)
            if rng.random() < 0.5:
                out.append(FDecl("fchainu%d" % len(ops), kind, "@DECL@ %s = %s" % (kind, e), ("ok", acc) if ok and acc is not None else "reject"))
        # the Wa-only three-way comparison of typed float constants (operands rounded to the type first)
        spairs = [("0.1", "0.1"), ("16777216", "16777217"), ("16777217", "16777216"), ("0.1", "0.2"), ("-0.1", "0.1"), ("1e-50", "0"), ("1e-45", "1.4e-45"),
                  ("9007199254740993", "9007199254740992"), ("3.4028235e38", "3.4028234e38"), ("1e39", "1"), ("1", "-1")]
        for _ in range(10 if quick else 200):
            a_ = sgn(rng.choice(lits))
            spairs.append((a_, rng.choice([a_, sgn(rng.choice(lits))])))
        for a_, b_ in spairs:
            x, y = fround(Fraction(a_), kind), fround(Fraction(b_), kind)
            okc = x is not None and y is not None
            out.append(FDecl("fship", kind, "@DECL@ = %s(%s) <=> %s(%s)" % (kind, a_, kind, b_), ("ok", Fraction((x > y) - (x < y))) if okc else "reject",
                             fn="func fs_%s(x, y %s) int { return x <=> y }" % (kind, kind), call="fs_%s(%s, %s)" % (kind, a_, b_), rkind="int", waonly=True))
        # conversions K2(K1(v)) of values that are not exact in the narrower type
        other = "float64" if kind == "float32" else "float32"
        for v in lits + ["-" + l for l in lits[:: 3]]:
            x = fround(Fraction(v), kind)
            # float -> other float
            y = None if x is None else fround(x, other)
            out.append(FDecl("fconv", "%s_%s" % (kind, other), "@DECL@ = %s(%s(%s))" % (other, kind, v), ("ok", y) if y is not None else "reject",
                             fn="func fcv_%s_%s(x %s) %s { return %s(x) }" % (kind, other, kind, other, other), call="fcv_%s_%s(%s)" % (kind, other, v), rkind=other))
            # float -> integer: only integral values in range are constants
            for ik in rng.sample(FINTS, 2):
                okc = x is not None and x.denominator == 1 and rep(ik, int(x))
                out.append(FDecl("fconv", "%s_%s" % (kind, ik), "@DECL@ = %s(%s(%s))" % (ik, kind, v), ("ok", Fraction(int(x))) if okc else "reject",
                                 fn="func fcv_%s_%s(x %s) %s { return %s(x) }" % (kind, ik, kind, ik, ik), call="fcv_%s_%s(%s)" % (kind, ik, v), rkind=ik))
        # integer -> float: rounding of integers that are not exact in the float type
        for ik in FINTS:
            lo, hi = krange(ik)
            for v in sorted(set([hi, hi - 1, lo, 16777217, 16777219, 33554435, 9007199254740993, 9007199254740995, 4294967295, 2147483647, 255, 0, 1,
                                 (1 << 63) + 1025, (1 << 63) - 513] + [rng.randint(lo, hi) for _ in range(4 if quick else 40)])):
                okc = rep(ik, v)
                y = fround(Fraction(v), kind) if okc else None
                out.append(FDecl("fconv", "%s_%s" % (ik, kind), "@DECL@ = %s(%s(%d))" % (kind, ik, v), ("ok", y) if y is not None else "reject",
                                 fn="func fcv_%s_%s(x %s) %s { return %s(x) }" % (ik, kind, ik, kind, kind), call="fcv_%s_%s(%d)" % (ik, kind, v), rkind=kind))
    rng.shuffle(out)
    return out


def fparse_verdict(v):
    """harness verdict -> ('ok', Fraction) | 'reject'"""
    if not v.startswith("ok:"):
        return "reject"
    t = v[3:]
    if t.startswith("f"):
        t = t[1:]
    try:
        return ("ok", Fraction(t))
    except (ValueError, ZeroDivisionError):
        return ("ok?", t)


FNK = ["float32", "float64", "int32", "int64", "uint8", "uint32", "uint64"]
FNK_RE = None


def fnamed(t):
    """the named-type rendering of a float-stage text: every basic kind k becomes N_k"""
    global FNK_RE
    import re
    if FNK_RE is None:
        FNK_RE = re.compile(r"\b(%s)\b" % "|".join(FNK))
    return FNK_RE.sub(lambda m: "N_" + m.group(1), t)


def fprelude(named):
    if not named:
        return ""
    return "\n".join("type N_%s %s" % (k, k) for k in FNK) + "\n" + "\n".join("func pr_%s(x N_%s) %s { return %s(x) }" % (k, k, k, k) for k in FNK) + "\n"


def fbits_expr(e, rkind, named=False):
    if named and rkind in FNK:
        e = "pr_%s(%s)" % (rkind, e)         # the constant is passed (and materialised) at its named type
    if rkind == "float32":
        return "math.Float32bits(%s)" % e
    if rkind == "float64":
        return "math.Float64bits(%s)" % e
    return e


def fexpect_print(val, rkind):
    if rkind in ("float32", "float64"):
        return str(fbits(val, rkind))
    return str(int(val))


def build_float_program(cases, named=False):
    tx = fnamed if named else (lambda t: t)
    fns, seen = [], set()
    for d in cases:
        if d.fn not in seen:
            seen.add(d.fn)
            fns.append(tx(d.fn))
    glob, body = [], []
    for i, d in enumerate(cases):
        ce = tx(d.text.replace("@DECL@ = ", ""))
        glob.append("var g%d = %s" % (i, ce))
        body.append("\tprintln(%s, %s, %s)" % (fbits_expr(ce, d.rkind, named), fbits_expr(tx(d.call), d.rkind, named), fbits_expr("g%d" % i, d.rkind, named)))
    return "package main\n\nimport \"math\"\n\nvar _ = math.Pi\n\n" + fprelude(named) + "\n".join(fns) + "\n\n" + "\n".join(glob) + "\n\nfunc main() {\n" + "\n".join(body) + "\n}\n"


def float_decl_file(dl, named):
    tx = fnamed if named else (lambda t: t)
    return "package main\n\n" + fprelude(named) + "\n".join(tx(d.text).replace("@DECL@", "const c%d" % i) for i, d in enumerate(dl)) + "\n\nfunc main() {}\n"



# ------------------------------------------------------------------ stage F: constants of every basic kind (also string / bool / rune), basic and NAMED
#                                                                       types, placed as call argument, global, struct field, array element, map key
PK_BOTH = ["uint8", "uint16", "int32", "uint32", "int64", "uint64", "rune", "float32", "float64", "string", "bool"]
PK_WA = ["int", "uint"]
PSTRS = ["a", "ab", "abc", "abd", "Wa", "hello", "z", "0", "abcabc", "B", "aB", "zz9"]
PCOLS = ["call-argument", "run-time", "global", "global-struct-field", "struct-field", "array-element", "map-key"]


def pobs(k, e):
    """printable observation of an expression of kind k (at its own type): floats as bit patterns"""
    e = "pr_%s(%s)" % (k, e)
    if k == "float32":
        return "math.Float32bits(%s)" % e
    if k == "float64":
        return "math.Float64bits(%s)" % e
    return e


def pexpect(k, v):
    if k in FFMT:
        return str(fbits(v, k))
    if k == "bool":
        return "true" if v else "false"
    return str(v)


class PCase:
    """value case (result of kind k, observed in every placement) or predicate case (bool / int result: folded, run time, global)"""
    __slots__ = ("k", "ce", "fn", "call", "val", "pred", "waonly", "tag")

    def __init__(self, k, ce, fn, call, val, pred=None, waonly=False, tag=""):
        self.k, self.ce, self.fn, self.call, self.val, self.pred, self.waonly, self.tag = k, ce, fn, call, val, pred, waonly, tag


def plit(k, v):
    if k == "string":
        return '"%s"' % v
    if k == "bool":
        return "true" if v else "false"
    return str(v)


def gen_place_cases(ctx):
    rng = ctx.rng
    quick = ctx.tier == "quick"
    nv, npd = (5, 6) if quick else (40, 40)
    out = []
    for k in PK_BOTH + PK_WA:
        K = T(k)
        wa = k in PK_WA
        vals = []
        if k in FFMT:
            lits = ["1", "3", "0.1", "0.2", "0.3", "16777217", "16777216", "9007199254740993", "1e10", "1e-10", "0.7", "2.5", "7", "-0.1", "123456789.125", "1e20"]
            tries = 0
            while len(vals) < nv and tries < 200:
                tries += 1
                op, a, b = rng.choice(list(FOPS)), rng.choice(lits), rng.choice(lits)
                if len(vals) == 0:
                    op, a, b = "quo", "1", "3"
                if len(vals) == 1:
                    op, a, b = "add", "16777216", "1"
                x, y = fround(Fraction(a), k), fround(Fraction(b), k)
                r = fexact_op(op, x, y)
                r = None if r is None else fround(r, k)
                if r is None or r == 0 or not (Fraction(1, 10 ** 25) < abs(r) < 10 ** 25) or r in [v[3] for v in vals]:
                    continue
                vals.append(("%s(%s) %s %s(%s)" % (K, a, FOPS[op], K, b), "func pf_%s_%s(x, y %s) %s { return x %s y }" % (k, op, K, K, FOPS[op]), "pf_%s_%s(%s, %s)" % (k, op, a, b), r))
        elif k == "string":
            seen = set()
            while len(vals) < nv:
                a, b = rng.choice(PSTRS), rng.choice(PSTRS)
                if a + b in seen:
                    continue
                seen.add(a + b)
                vals.append(('%s("%s") + %s("%s")' % (K, a, K, b), "func pf_string_add(x, y %s) %s { return x + y }" % (K, K), 'pf_string_add("%s", "%s")' % (a, b), a + b))
        elif k == "bool":
            for op, sym, f in (("land", "&&", lambda a, b: a and b), ("lor", "||", lambda a, b: a or b)):
                for a in (True, False):
                    for b in (True, False):
                        vals.append(("%s(%s) %s %s(%s)" % (K, plit(k, a), sym, K, plit(k, b)), "func pf_bool_%s(x, y %s) %s { return x %s y }" % (op, K, K, sym),
                                     "pf_bool_%s(%s, %s)" % (op, plit(k, a), plit(k, b)), f(a, b)))
            vals.append(("!%s(true)" % K, "func pf_bool_not(x %s) %s { return !x }" % (K, K), "pf_bool_not(true)", False))
            rng.shuffle(vals)
            vals = vals[:max(nv, 4)]
        else:
            lo, hi = krange(k)
            pool = [v for v in kind_pool(rng, k, 8) if lo <= v <= hi]
            tries = 0
            while len(vals) < nv and tries < 400:
                tries += 1
                op = rng.choice(["add", "sub", "mul", "and", "or", "xor", "quo", "rem", "neg", "not"])
                x, y = rng.choice(pool), rng.choice(pool)
                if op in ("neg", "not"):
                    r = exact_un("sub" if op == "neg" else "xor", x, 0 if k in SIGNEDK else kbits(k))
                    sy = "-" if op == "neg" else "^"
                    ce, fn, call = "%s%s(%d)" % (sy, K, x), "func pf_%s_%s(x %s) %s { return %sx }" % (k, op, K, K, sy), "pf_%s_%s(%d)" % (k, op, x)
                else:
                    r = exact_bin(op, x, y)
                    ce, fn, call = "%s(%d) %s %s(%d)" % (K, x, SYM[op], K, y), "func pf_%s_%s(x, y %s) %s { return x %s y }" % (k, op, K, K, SYM[op]), "pf_%s_%s(%d, %d)" % (k, op, x, y)
                if r is None or not rep(k, r) or r in [v[3] for v in vals]:
                    continue
                if op == "quo" and x == lo and y == -1:
                    continue
                vals.append((ce, fn, call, r))
        for ce, fn, call, r in vals:
            out.append(PCase(k, ce, fn, call, r, waonly=wa, tag="value"))
        # predicates: comparisons (bool), the Wa-only <=> (int), len of a constant string (int)
        if k == "bool":
            cands = [(c, a, b) for c in ("eq", "ne") for a in (True, False) for b in (True, False)]
        elif k == "string":
            cands = [(c, a, b) for c in CMPS + ["ship"] for a, b in [("ab", "ab"), ("ab", "abc"), ("abd", "abc"), ("B", "aB"), ("z", "abcabc")]]
        elif k in FFMT:
            cands = [(c, a, b) for c in CMPS + ["ship"] for a, b in [("0.1", "0.1"), ("16777217", "16777216"), ("-0.1", "0.1"), ("0.3", "0.2"), ("9007199254740993", "9007199254740992")]]
        else:
            lo, hi = krange(k)
            cands = [(c, a, b) for c in CMPS + ["ship"] for a, b in [(lo, 1), (1, lo), (hi, lo), (lo, hi), (hi, hi), (0, 1), (hi, hi - 1)]]
        rng.shuffle(cands)
        ships = [c for c in cands if c[0] == "ship"][:3]
        for c, a, b in [c for c in cands if c[0] != "ship"][:npd] + ships:
            if k in FFMT:
                x, y = fround(Fraction(a), k), fround(Fraction(b), k)
            else:
                x, y = a, b
            if c == "ship":
                out.append(PCase(k, "%s(%s) <=> %s(%s)" % (K, plit(k, a), K, plit(k, b)), "func pp_%s_ship(x, y %s) int { return x <=> y }" % (k, K),
                                 "pp_%s_ship(%s, %s)" % (k, plit(k, a), plit(k, b)), (x > y) - (x < y), pred="int", waonly=True, tag="ship"))
            else:
                out.append(PCase(k, "%s(%s) %s %s(%s)" % (K, plit(k, a), SYM[c], K, plit(k, b)), "func pp_%s_%s(x, y %s) bool { return x %s y }" % (k, c, K, SYM[c]),
                                 "pp_%s_%s(%s, %s)" % (k, c, plit(k, a), plit(k, b)), exact_cmp(c, x, y), pred="bool", waonly=wa, tag="cmp"))
        if k == "string":
            for a, b in [("ab", "cde"), ("hello", "Wa")]:
                out.append(PCase(k, 'len(%s("%s") + %s("%s"))' % (K, a, K, b), "func pp_string_len(x, y %s) int { return len(x + y) }" % K,
                                 'pp_string_len("%s", "%s")' % (a, b), len(a + b), pred="int", waonly=False, tag="len"))
    return out


def build_place_program(cases, named):
    """returns (source, expected output lines)"""
    kinds = []
    for c in cases:
        if c.k not in kinds:
            kinds.append(c.k)
    pre = []
    for k in kinds:
        if named:
            pre.append("type N_%s %s" % (k, k))
        pre.append("type S_%s struct {\n\ta @%s@\n\tb @%s@\n}" % (k, k, k))
        ret = "int64" if k == "rune" else k
        pre.append("func pr_%s(x @%s@) %s { return %s(x) }" % (k, k, ret, ret))
    fns, seen = [], set()
    for c in cases:
        if c.fn not in seen:
            seen.add(c.fn)
            fns.append(c.fn)
    glob, body, expect = [], [], []
    for i, c in enumerate(cases):
        K = "@%s@" % c.k
        if c.pred is None:
            glob.append("var g%d %s = %s" % (i, K, c.ce))
            glob.append("var gs%d = S_%s{%s, %s}" % (i, c.k, c.ce, c.ce))
            body.append("\ts%d := S_%s{%s, %s}" % (i, c.k, c.ce, c.ce))
            body.append("\ta%d := [2]%s{%s, %s}" % (i, K, c.ce, c.ce))
            body.append("\tm%d := map[%s]int32{%s: 7}" % (i, K, c.ce))
            body.append("\tprintln(%s, %s, %s, %s, %s, %s, m%d[%s])" % (pobs(c.k, c.ce), pobs(c.k, c.call), pobs(c.k, "g%d" % i), pobs(c.k, "gs%d.b" % i),
                                                                        pobs(c.k, "s%d.a" % i), pobs(c.k, "a%d[1]" % i), i, c.call))
            e = pexpect(c.k, c.val)
            expect.append(" ".join([e] * 6 + ["7"]))
        else:
            glob.append("var g%d = %s" % (i, c.ce))
            body.append("\tprintln(%s, %s, g%d)" % (c.ce, c.call, i))
            e = pexpect(c.pred, c.val)
            expect.append(" ".join([e] * 3))
    src = "package main\n\nimport \"math\"\n\nvar _ = math.Pi\n\n" + "\n".join(pre) + "\n" + "\n".join(fns) + "\n\n" + "\n".join(glob) + "\n\nfunc main() {\n" + "\n".join(body) + "\n}\n"
    return subst_kinds(src, "go", named, kinds), expect


# ------------------------------------------------------------------ the surface of the code under verification, re-extracted on every run
def extract_surface(repo):
    """what internal/constant exports and folds, which operator tokens the checker folds, which builtins yield constants,
    which basic kinds the back end materialises — read from the CURRENT source"""
    import re
    def rd(rel):                      # source without comments (commented-out cases are not part of the surface)
        t = open(os.path.join(repo, rel)).read()
        t = re.sub(r"/\*.*?\*/", "", t, flags=re.S)
        return re.sub(r"(?m)^\s*//.*$", "", t)
    val = rd("internal/constant/value.go")
    expr = rd("internal/types/expr.go")
    blt = rd("internal/types/builtins.go")
    cf_ = rd("internal/backends/compiler_wat/compile_func.go")
    surf = {}
    surf["constant-func"] = sorted(set(re.findall(r"^func ([A-Z]\w*)\(", val, re.M)))
    surf["constant-token"] = sorted(set(re.findall(r"\btoken\.([A-Z_]+)\b", val)))
    toks = set()
    for name in ("unaryOpPredicates", "binaryOpPredicates"):
        m = re.search(r"%s\s*=\s*opPredicates\{(.*?)\n\}" % name, expr, re.S)
        if m:
            toks.update(re.findall(r"token\.([A-Z_]+)", m.group(1)))
    for name in ("isShift", "isComparison"):
        m = re.search(r"func %s\(op token\.Token\) bool \{(.*?)\n\}" % name, expr, re.S)
        if m:
            toks.update(re.findall(r"token\.([A-Z_]+)", m.group(1)))
    surf["checker-token"] = sorted(toks)
    bl = set()
    parts = re.split(r"\n\tcase ((?:_\w+)(?:, _\w+)*):", blt)
    for i in range(1, len(parts) - 1, 2):
        if re.search(r"mode = constant_|x\.val = constant\.", parts[i + 1]):
            bl.update(x.strip() for x in parts[i].split(","))
    surf["constant-builtin"] = sorted(bl)
    m = re.search(r"func \(g \*functionGenerator\) getValue\(.*?\n\}\n", cf_, re.S)
    surf["getvalue-kind"] = sorted(set(re.findall(r"\btypes\.((?:Untyped)?(?:Bool|Uintptr|Uint\d*|Int\d*|Float\d*|Complex\d*|String|Rune))\b", m.group(0) if m else "")))
    return surf


# every item of the surface must be claimed by a generator stream below (or be explicitly out of this property's scope);
# an item that appears in the source and is not listed here breaks the tie (the check then reports no-failing-input-found)
SURFACE_COVERAGE = {
    "constant-func": {
        "BinaryOp": "A bin/sbin/bbin/fbin, B, E, F", "UnaryOp": "A un/bnot, B dunt/dunu, F", "Shift": "A shift, B dsht/dshu", "Compare": "A cmp/scmp/fcmp/bbin, B dcmp, F",
        "CompareSpaceShip": "A ship/fship/sship, B dship, C ship, E fship, F ship", "ToInt": "A ratint, B drat, D fconv, E fconv", "ToFloat": "D fconv, E",
        "Int64Val": "A i64val", "Uint64Val": "A u64val", "Float32Val": "D, E (roundFloat32)", "Float64Val": "D, E", "BitLen": "A bitlen", "Sign": "A sign",
        "MakeFromLiteral": "A lit, D", "MakeInt64": "A (operand construction), B dship", "MakeFloat64": "E (roundFloat32/64)", "MakeString": "A sbin/scmp, F",
        "MakeBool": "A bbin, F", "BoolVal": "F (bool constants through getValue)", "StringVal": "A slen/sbin, F", "MakeUnknown": "out of scope: no value",
        "ToComplex": "complex: explored only (D)", "MakeImag": "complex: explored only (D)", "Real": "complex: explored only (D)", "Imag": "complex: explored only (D)",
        # API not reached from the compiler (verified on every run: no use outside the package)
        "Val": "unused", "Make": "unused", "Bytes": "unused", "MakeFromBytes": "unused", "Num": "unused", "Denom": "unused", "MakeUint64": "unused"},
    "constant-token": {t: "A/B" for t in ["ADD", "SUB", "MUL", "QUO", "QUO_ASSIGN", "REM", "AND", "OR", "XOR", "AND_NOT", "SHL", "SHR", "EQL", "NEQ", "LSS", "LEQ", "GTR", "GEQ",
                                          "LAND", "LOR", "NOT", "INT", "FLOAT", "IMAG", "CHAR", "STRING", "Token"]},
    "checker-token": {t: "B/E/F" for t in ["ADD", "SUB", "MUL", "QUO", "REM", "AND", "OR", "XOR", "AND_NOT", "SHL", "SHR", "EQL", "NEQ", "LSS", "LEQ", "GTR", "GEQ",
                                           "LAND", "LOR", "NOT", "SPACESHIP"]},
    "constant-builtin": {"_Len": "F len(constant string)", "_Cap": "arrays: type-level constant, out of scope", "_Complex": "complex: explored only", "_Real": "complex: explored only",
                         "_Imag": "complex: explored only", "_unsafe_Alignof": "layout constant, out of scope (C-layout properties)",
                         "_unsafe_Offsetof": "layout constant, out of scope", "_unsafe_Sizeof": "layout constant, out of scope"},
    "getvalue-kind": {k: "C/E/F" for k in ["Bool", "UntypedBool", "Uint8", "Uint16", "Uint32", "Uintptr", "Uint", "Int32", "Int", "UntypedInt", "Int64", "Uint64",
                                           "Float32", "Float64", "UntypedFloat", "String", "UntypedString"]},
}
SURFACE_COVERAGE["getvalue-kind"].update({"Complex64": "complex: explored only", "Complex128": "complex: explored only"})


def check_surface(ctx, dist):
    import re
    surf = extract_surface(vlib.REPO)
    for cat, items in surf.items():
        dist["surface:" + cat] = len(items)
        if not items:
            ctx.proof["broken"].append({"theorem": "coverage tie C15 (%s)" % cat, "why": "could not extract the %s list from the source (layout changed): the generator's coverage claim is unchecked" % cat})
        for it in items:
            if it not in SURFACE_COVERAGE[cat]:
                ctx.proof["broken"].append({"theorem": "coverage tie C15 (%s)" % cat,
                                            "why": "%s `%s` exists in the source but no generator stream of checks/c15.py claims it" % (cat, it)})
    # functions claimed to be unreachable from the compiler must really be unused outside internal/constant
    unused = [f for f, why in SURFACE_COVERAGE["constant-func"].items() if why == "unused"]
    pat = re.compile(r"\bconstant\.(%s)\(" % "|".join(unused))
    for root, dirs, files in os.walk(vlib.REPO):
        dirs[:] = [d for d in dirs if d not in (".git", "3rdparty", "zz_verif")]
        if root.endswith(os.path.join("internal", "constant")):
            continue
        for fn in files:
            if fn.endswith(".go") and not fn.endswith("_test.go"):
                try:
                    txt = open(os.path.join(root, fn), errors="replace").read()
                except OSError:
                    continue
                for mm in pat.finditer(txt):
                    ctx.proof["broken"].append({"theorem": "coverage tie C15 (constant-func)",
                                                "why": "constant.%s is now used by %s but has no generator coverage" % (mm.group(1), os.path.relpath(os.path.join(root, fn), vlib.REPO))})
    return surf


# ------------------------------------------------------------------ the check
def replay(ctx, h, warun):
    """re-run one recorded failing input on the real code and report whether it still fails"""
    import json
    r = json.load(open(ctx.replay))
    rp = r.get("replay", r)
    if "op" in rp:
        _, out, _ = ctx.run_bin(h, input_text=rp["op"] + "\n")
        got = out.strip()
        exp = rp.get("exact") or const_expected(parse_op(rp["op"][2:]))
        print("replay op %r -> %r (exact %r)" % (rp["op"], got, exp))
        if got != exp:
            ctx.violation(r.get("key", "replay"), "replay: %s -> %s, exact %s" % (rp["op"], got, exp), rp)
    elif "decl" in rp:
        p = os.path.join(ctx.tmp, "replay.wa.go")
        with open(p, "w") as f:
            f.write("package main\n\n" + rp["decl"] + "\n\nfunc main() {}\n")
        _, out, _ = ctx.run_bin(h, input_text="w chk %s %d\n" % (p, WORD))
        got = out.strip()
        exp = rp.get("exact")
        print("replay decl %r -> %r (exact %r)" % (rp["decl"], got, exp))
        if (exp == "reject") != (not got.startswith("ok:")) or (got.startswith("ok:") and got != exp):
            ctx.violation(r.get("key", "replay"), "replay: `%s` -> %s, exact %s" % (rp["decl"], got, exp), rp)
    elif "program" in rp:
        wst, wl, werr = run_wa(ctx, warun, rp["program"], "replay")
        print("replay program -> %s %r" % (wst, wl[:5]))
        exp = rp.get("expected") or rp.get("exact")
        if wst != "ok" or (exp is not None and " ".join(wl).split() != str(exp).split()):
            ctx.violation(r.get("key", "replay"), "replay: program prints %r, expected %r" % (wl[:3], exp), rp)
    elif "expr" in rp:
        src = "package main\n\n%s\n\nfunc main() {\n\tprintln(%s, %s)\n}\n" % (rp.get("fn", ""), rp["expr"], rp.get("call", rp["expr"]))
        wst, wl, werr = run_wa(ctx, warun, src, "replay")
        print("replay expr -> %s %r" % (wst, wl[:2]))
        f = wl[0].split() if wl else []
        if wst != "ok" or len(f) != 2 or f[0] != f[1] or (rp.get("exact") and f[0] != rp["exact"]):
            ctx.violation(r.get("key", "replay"), "replay: `%s` prints %r (folded, run time); exact %s" % (rp["expr"], f, rp.get("exact")), rp)
    return ctx.finish("proof", {"evaluations": 1, "distinct_nontrivial": 1, "rule": "replay of one recorded input", "samples": [rp], "distribution": {}})


def run(ctx):
    h = ctx.build_harness("c15")
    warun = ctx.build_harness("warun")
    if ctx.replay:
        return replay(ctx, h, warun)
    ctx.prove(required=REQUIRED)
    m = ctx.build_model("c15")
    dist = {}
    import time
    tm = {"t": ctx.t0}

    def lap(name):
        now = time.time()
        dist["time_s:" + name] = round(now - tm["t"], 1)
        tm["t"] = now
    lap("build+prove")
    nontrivial = set()
    samples = []
    evaluations = 0

    def hrun(lines):
        _, out, err = ctx.run_bin(h, input_text="\n".join(lines) + "\n")
        o = out.splitlines()
        if len(o) != len(lines):
            raise vlib.InfraError("harness c15 returned %d lines for %d ops: %s" % (len(o), len(lines), err[-500:]))
        return o

    def mrun(lines):
        if not m:
            return None
        _, out, _ = ctx.run_bin(m, input_text="\n".join(lines) + "\n")
        return out.splitlines()

    # ---- which variant of the int64 quotient does the code have?  (Lean: const_int_exact_quo_minint_wrong)
    probe = hrun(["w bin quo -9223372036854775808 -1", "b bin quo -9223372036854775808 -1", "g bin quo -9223372036854775808 -1"])
    qw = "qw1" if probe[0] == "ok -9223372036854775808" else "qw0"
    dist["binaryop_variant"] = qw
    if probe[0] != probe[1]:
        ctx.violation("binaryop:int64-quo-minint-by-minus1",
                      "constant.BinaryOp(MinInt64, QUO_ASSIGN, -1) = %s; exact value (math/big) is %s" % (probe[0], probe[1]),
                      {"op": "w bin quo -9223372036854775808 -1", "impl": probe[0], "math/big": probe[1], "go/constant": probe[2]})

    # ---- tie: the functions / operator tokens / builtins / kinds present in the CURRENT source must all be claimed by a generator stream
    check_surface(ctx, dist)
    # ---- stage A: constant package vs exact arithmetic vs go/constant vs math/big vs Lean
    cops = corpus_ops() + gen_const_ops(ctx)
    wl = ["w " + opline(o) for o in cops]
    wout = hrun(wl)
    refl, refidx = [], []
    for i, o in enumerate(cops):
        if o[0] in ("bin", "un", "shift", "cmp", "ratint", "bitlen", "sign", "lit", "ship", "fship"):
            refl.append("b " + opline(o)); refidx.append((i, "math/big"))
        if o[0] not in ("repr", "ship", "fship", "sship", "slen"):        # `<=>` does not exist in go/constant
            refl.append("g " + opline(o)); refidx.append((i, "go/constant"))
    rout = hrun(refl)
    ref_disagree = {}
    for (i, who), r in zip(refidx, rout):
        exp = const_expected(cops[i])
        if exp is not None and r != exp:
            ref_disagree.setdefault(who, []).append("%s -> %s (exact: %s)" % (opline(cops[i]), r, exp))
    for who, l in ref_disagree.items():
        ctx.notes.append("reference %s differs from exact arithmetic on %d ops, e.g. %s" % (who, len(l), l[0]))
    dist["stageA_ops"] = len(cops)
    for o, r in zip(cops, wout):
        evaluations += 1
        dist["A:" + o[0]] = dist.get("A:" + o[0], 0) + 1
        exp = const_expected(o)
        ints = [a for a in o[1:] if isinstance(a, int)]
        nontrivial.add((o[0], o[1] if isinstance(o[1], str) else "", tuple(vclass(a) for a in ints[:2])))
        if exp is not None and r != exp:
            if o[0] == "bin" and o[1] == "quo" and o[2] == -(1 << 63) and o[3] == -1:
                key = "binaryop:int64-quo-minint-by-minus1"
            else:
                key = "constant:%s%s:not-exact" % (o[0], (":" + o[1]) if isinstance(o[1], str) and o[0] != "lit" else "")
            ctx.violation(key, "constant package: %s -> %s, exact arithmetic gives %s" % (opline(o), r, exp),
                          {"op": "w " + opline(o), "impl": r, "exact": exp})
    samples += [{"op": "w " + opline(o), "impl": r} for o, r in list(zip(cops, wout))[:: max(1, len(cops) // 6)]][:6]
    midx = [i for i, o in enumerate(cops) if o[0] in MODEL_OPS]          # string / bool / float ops have no Lean model
    mo = mrun([qw + " " + opline(cops[i]) for i in midx])
    if mo is not None:
        for i, op, a, b in ctx.diff_lines([wl[i] for i in midx], [wout[i] for i in midx], mo)[:20]:
            ctx.proof["broken"].append({"theorem": "correspondence C15 model vs internal/constant", "why": "op %r impl=%r model=%r" % (op, a, b)})

    lap("stageA")
    # ---- stage B: the checker's verdict on generated declarations
    decls = gen_decls(ctx)
    # the same declarations over NAMED types (`type N_k k`): verdicts and values must not depend on the type being named
    nnamed = 1500 if ctx.tier == "quick" else 12000
    decls += [decls[i].as_named() for i in ctx.rng.sample(range(len(decls)), min(nnamed, len(decls)))]
    files = write_decl_files(ctx, decls)
    lines = []
    for chunk, paths in files:
        lines.append("w chk %s %d" % (paths["wa"], WORD))
        if "go" in paths:
            lines.append("g chk %s %d" % (paths["go"], WORD))
    out = hrun(lines)
    wa_verdicts, go_verdicts = [None] * len(decls), [None] * len(decls)
    li = 0
    for chunk, paths in files:
        wo = out[li]; li += 1
        wv = wo.split()
        if len(wv) != len(chunk) or wo.startswith("parse-error"):
            ctx.violation("checker:generated-file-not-processed", "type-checking the generated declaration file did not yield one verdict per declaration: %s" % wo[:300],
                          {"file": open(paths["wa"]).read(), "impl": wo[:2000]})
            wv = ["missing"] * len(chunk)
        if "go" in paths:
            go_ = out[li]; li += 1
            gv = go_.split()
            if len(gv) != len(chunk):
                raise vlib.InfraError("go/types reference failed on generated file: %s" % go_[:500])
        else:
            gv = [None] * len(chunk)          # Wa-only operator: no Go reference
        for j, i in enumerate(chunk):
            wa_verdicts[i], go_verdicts[i] = wv[j], gv[j]
    dmodel = mrun([d.model_op(qw) for d in decls])
    dist["stageB_decls"] = len(decls)
    go_diff = 0
    accepted_runs = []
    for i, d in enumerate(decls):
        evaluations += 1
        wv, gv = wa_verdicts[i], go_verdicts[i]
        dist["B:" + d.shape] = dist.get("B:" + d.shape, 0) + 1
        if d.named:
            dist["B:named"] = dist.get("B:named", 0) + 1
        acc = wv.startswith("ok:")
        dist["B:accepted" if acc else "B:rejected:" + wv] = dist.get("B:accepted" if acc else "B:rejected:" + wv, 0) + 1
        ints = [a for a in d.args if isinstance(a, int)]
        nontrivial.add((d.shape, d.named) + tuple(a for a in d.args if isinstance(a, str)) + tuple(vclass(a) for a in ints[:2]) + (acc,))
        exp = d.expect
        if (exp == "reject") != (not acc) or (acc and wv != exp):
            minq = hits_minq(d)
            if minq:
                key = "binaryop:int64-quo-minint-by-minus1"
            elif acc and exp == "reject":
                key = "checker:%s:accepts-unrepresentable" % d.shape
            elif not acc:
                key = "checker:%s:rejects-representable" % d.shape
            else:
                key = "checker:%s:wrong-folded-value" % d.shape
            if d.named and not minq:
                key = "named-type:" + key
            ctx.violation(key, "declaration `%s`: checker says %s, exact arithmetic / representability says %s" % (d.render(0, "wa"), wv, exp),
                          {"decl": (named_prelude("wa") + "\n" if d.named else "") + d.render(0, "wa"), "impl": wv, "exact": exp, "go/types": gv})
        elif acc and d.run is not None:
            accepted_runs.append(d)
        if dmodel is not None and i < len(dmodel) and dmodel[i] != wv:
            ctx.proof["broken"].append({"theorem": "correspondence C15 checker model vs internal/types", "why": "decl %r impl=%r model=%r" % (d.render(0, "wa"), wv, dmodel[i])})
            ctx.corr["diffs"] += 1
        if gv is not None and (gv.startswith("ok:") != acc or (acc and gv != wv)):
            go_diff += 1
            if go_diff <= 3:
                ctx.notes.append("go/types disagrees with Wa's checker on `%s`: go=%s wa=%s (exact: %s)" % (d.render(0, "go"), gv, wv, exp))
    ctx.corr["lines"] += len(decls)
    dist["B:go_types_disagreements"] = go_diff
    samples += [{"decl": d.render(0, "wa"), "impl": wa_verdicts[i], "go/types": go_verdicts[i]} for i, d in list(enumerate(decls))[:: max(1, len(decls) // 6)]][:6]

    # the public driver entry point (api.LoadProgramFile) on a sample, one declaration per file
    napi = 40 if ctx.tier == "quick" else 300
    sample = ctx.rng.sample(range(len(decls)), min(napi, len(decls)))
    alines = []
    for j, i in enumerate(sample):
        p = os.path.join(ctx.tmp, "api%d.wa.go" % j)
        with open(p, "w") as f:
            f.write("package main\n\n" + (named_prelude("wa") + "\n" if decls[i].named else "") + decls[i].render(0, "wa") + "\n\nfunc main() {}\n")
        alines.append("w apichk " + p)
    for i, r in zip(sample, hrun(alines)):
        evaluations += 1
        wv = wa_verdicts[i]
        if (r == "ok") != wv.startswith("ok:") or (r != "ok" and r != wv):
            ctx.violation("checker:api-differs-from-types-package", "api.LoadProgramFile reports %s for `%s`, direct types.Config.Check reports %s" % (r, decls[i].render(0, "wa"), wv),
                          {"decl": decls[i].render(0, "wa"), "api": r, "types": wv})
    dist["B:api_LoadProgramFile"] = len(sample)
    # `go vet` itself on the Go text: all accepted declarations in one file must vet clean; a few rejected ones must be reported
    accd = [d for i, d in enumerate(decls) if not d.named and not d.waonly and wa_verdicts[i].startswith("ok:") and go_verdicts[i].startswith("ok:")][:120]
    wordk = ("int", "uint", "uintptr")        # `go vet` checks with the host's 64-bit int: only explicit widths are comparable
    rejd = [d for i, d in enumerate(decls) if not d.named and not d.waonly and not wa_verdicts[i].startswith("ok:") and not go_verdicts[i].startswith("ok:")
            and not any(a in wordk for a in d.args if isinstance(a, str))][:8]
    rc, o = go_vet(ctx, "package main\n\n" + "\n".join(d.render(i, "go") for i, d in enumerate(accd)) + "\n\nfunc main() {}\n", "vet_acc")
    if rc != 0:
        ctx.notes.append("go vet rejects declarations that go/types (harness) and Wa accept: %s" % o[-400:])
    dist["B:go_vet_accepted_file_rc"] = rc
    with cf.ThreadPoolExecutor(4) as ex:
        vres = list(ex.map(lambda a: go_vet(ctx, "package main\n\n" + a[1].render(0, "go") + "\n\nfunc main() {}\n", "vet_rej%d" % a[0]), enumerate(rejd[:4])))
    dist["B:go_vet_rejected_decls"] = len(vres)
    dist["B:go_vet_rejected_reported"] = sum(1 for rc, o in vres if rc != 0 and "main.go:3:" in o)
    if dist["B:go_vet_rejected_reported"] != len(vres):
        ctx.notes.append("go vet accepts a declaration that go/types (harness) and Wa reject: %s" % [o[-200:] for rc, o in vres if rc == 0][:1])
    lap("stageB")
    # ---- stage C: folded constant vs run-time evaluation vs global initialiser, on the real compiler
    def runnable(d):
        r = d.run
        ks = [r[1]] + ([r[2]] if r[0] == "conv" else [])
        if any(k not in RUNK_BOTH + RUNK_WA for k in ks):
            return False
        if r[0] == "shift" and not (0 <= r[4] < (64 if kbits(r[1]) == 64 else 32)):
            return False                 # counts >= register width: separate probe (C01's shift finding)
        return True
    cand = [d for d in accepted_runs if runnable(d)]
    ctx.rng.shuffle(cand)
    ncase = 700 if ctx.tier == "quick" else 6000
    # keep a balanced selection over (shape, kind)
    by = {}
    for d in cand:
        by.setdefault((d.run[0], d.run[1], d.named), []).append(d)
    sel = []
    while len(sel) < ncase and any(by.values()):
        for key in sorted(by):
            if by[key] and len(sel) < ncase:
                sel.append(by[key].pop())
    nch = 6 if ctx.tier == "quick" else 24
    progs = []
    grp = {}
    for d in sel:
        withgo = d.run[0] != "ship" and all(k in RUNK_BOTH for k in run_kinds(d.run))      # `<=>` is not Go; int/uint are 32-bit in Wa only
        grp.setdefault((d.named, withgo), []).append(d)
    for (named, withgo), g_ in sorted(grp.items()):
        k = max(1, min(nch, len(g_) // 40 or 1))
        for ci in range(k):
            ch = g_[ci::k]
            if ch:
                progs.append((ch, build_run_program([(d.run, d.expect) for d in ch], named), "%s%s%d" % ("n" if named else "b", "g" if withgo else "w", ci), withgo))

    def exec_prog(a):
        ch, src, tag, withgo = a
        w = run_wa(ctx, warun, src, "run_" + tag)
        g = run_go(ctx, src, "gorun_" + tag) if withgo else None
        return w, g
    with cf.ThreadPoolExecutor(12) as ex:
        res = list(ex.map(exec_prog, progs))
    lean_ops, lean_expect = [], []
    dist["stageC_cases"] = 0
    dist["C:global_wrong"] = 0
    for (ch, src, tag, withgo), ((wst, wlines, werr), g) in zip(progs, res):
        if g is not None and (g[0] != "ok" or len(g[1]) != len(ch)):
            raise vlib.InfraError("go run of fold-vs-runtime program %s failed: %s" % (tag, "\n".join(g[1])[-1500:]))
        if wst != "ok" or len(wlines) != len(ch):
            ctx.violation("fold-vs-runtime:wa-run-failed", "fold-vs-runtime program fails under Wa (%s) %s" % (wst, werr[-300:]),
                          {"program": src, "wa_status": wst, "wa_tail": wlines[-3:], "stderr": werr})
            continue
        for i, d in enumerate(ch):
            evaluations += 1
            dist["stageC_cases"] += 1
            dist["C:" + d.run[0] + ":" + d.run[1]] = dist.get("C:" + d.run[0] + ":" + d.run[1], 0) + 1
            if d.named:
                dist["C:named"] = dist.get("C:named", 0) + 1
            exact = d.expect[3:]
            f = wlines[i].split()
            ce, call = (subst_kinds(t, "go", d.named) for t in run_exprs(d.run))
            nk = "named-type:" if d.named else ""
            one = build_run_program([(d.run, d.expect)], d.named)
            if len(f) != 3:
                ctx.violation("fold-vs-runtime:bad-output", "case `%s` printed %r" % (ce, wlines[i]), {"expr": ce, "wa": wlines[i]})
                continue
            folded, rt, gl = f
            if folded != exact:
                ctx.violation(nk + "fold:%s:%s:wrong-value" % (d.run[0], d.run[1]), "the constant `%s` is %s in the compiled program; exact value %s" % (ce, folded, exact),
                              {"expr": ce, "wa_folded": folded, "exact": exact, "program": one, "expected": "%s %s %s" % (exact, exact, exact)})
            if rt != folded:
                ctx.violation(nk + "fold-vs-runtime:%s:%s" % (d.run[0], d.run[1] if d.run[0] != "bin" else d.run[2] + ":" + d.run[1]),
                              "`%s` folds to %s but %s computes %s at run time (exact %s)" % (ce, folded, call, rt, exact),
                              {"expr": ce, "call": call, "wa_folded": folded, "wa_runtime": rt, "exact": exact, "program": one, "expected": "%s %s %s" % (exact, exact, exact)})
            if gl != exact:
                dist["C:global_wrong"] += 1
                kres = run_rkind(d.run)
                ctx.violation(nk + global_defect_key(kres, int(exact) if exact not in ("true", "false") else 0),
                              "package-level `var g = %s` holds %s at run time; the constant's value is %s" % (ce, gl, exact),
                              {"program": one, "wa": gl, "exact": exact, "expected": "%s %s %s" % (exact, exact, exact)})
            if g is not None:
                gf = g[1][i].split()
                if gf != [exact, exact, exact]:
                    ctx.notes.append("go run disagrees with exact arithmetic on `%s`: %s" % (ce, g[1][i]))
            lean_ops.append(lean_run_op(d.run))
            lean_expect.append(rt if d.run[0] == "cmp" else "ok " + rt)
    if m and lean_ops:
        mo = mrun(lean_ops)
        for i, op, a, b in ctx.diff_lines(lean_ops, lean_expect, mo)[:10]:
            ctx.proof["broken"].append({"theorem": "correspondence C15: Base/GoInt run-time semantics vs compiled Wa program",
                                        "why": "%s: real run gives %s, Lean gives %s" % (op, a, b)})
    # probe: run-time shift counts >= register width (C01's finding shows here as fold != run time)
    pr = [("shift", "uint8", "shr", 200, 33), ("shift", "int32", "shr", -8, 33), ("shift", "int64", "shr", -8, 65), ("shift", "uint32", "shr", 4000000000, 40)]
    src = build_run_program([(r, "") for r in pr])
    wst, wlines, werr = run_wa(ctx, warun, src, "probe_shift")
    if wst == "ok" and len(wlines) == len(pr):
        for r, l in zip(pr, wlines):
            f = l.split()
            evaluations += 1
            if len(f) == 3 and f[0] != f[1]:
                ctx.violation("fold-vs-runtime:shift-count-ge-width", "`%s` folds to %s but the compiled shift computes %s (count >= register width; C01 shift-count-ge-width)" % (
                    subst_kinds(run_exprs(r)[0], "go", False), f[0], f[1]), {"expr": subst_kinds(run_exprs(r)[0], "go", False), "wa_folded": f[0], "wa_runtime": f[1],
                                                                               "program": build_run_program([(r, "")])})
    else:
        ctx.notes.append("shift probe program failed under Wa: %s %s" % (wst, werr[-200:]))
    # probe: global initialisers, the two root causes in wir aBasic.Bin, independent of the generated selection
    gp = ("package main\n\ntype P struct {\n\ta int64\n\tb uint64\n}\n\nvar a int64 = 1000\nvar b int64 = -33\nvar c uint64 = 9223372036854775808\nvar d uint64 = 9223372036854775807\n"
          "var e int32 = -2147483648\nvar r rune = -1\nvar u uint32 = 4294967295\nvar h uint16 = 65535\nvar q uint8 = 255\n"
          "var ga = [2]int64{1000, -1000}\nvar gp = P{1000, 18446744073709551615}\n\n"
          "func main() {\n\tprintln(a, b, c, d, e, int64(r), u, h, q, ga[0], ga[1], gp.a, gp.b)\n}\n")
    wst, wlines, werr = run_wa(ctx, warun, gp, "probe_global")
    evaluations += 1
    if wst == "ok" and wlines:
        got = wlines[0].split()
        want = ["1000", "-33", "9223372036854775808", "9223372036854775807", "-2147483648", "-1", "4294967295", "65535", "255",
                "1000", "-1000", "1000", "18446744073709551615"]
        pick = lambda l, idx: [l[i] if i < len(l) else None for i in idx]
        i64i, u64i, runei = [0, 1, 9, 10, 11], [2, 12], [5]
        rest = [i for i in range(len(want)) if i not in i64i + u64i + runei]
        if pick(got, i64i) != pick(want, i64i):
            ctx.violation("global-init:int64:parseint-bitsize-6", "package-level int64 initialisers (scalar 1000, -33; array {1000,-1000}; struct field 1000) print %s "
                          "(wir aBasic.Bin parses the int64 text with bitSize 6)" % pick(got, i64i), {"program": gp, "wa": wlines[0], "expected": " ".join(want)})
        if pick(got, u64i) != pick(want, u64i):
            ctx.violation("global-init:uint64:ge-2^63-parsed-as-0", "package-level uint64 initialisers >= 2^63 (scalar, struct field) print %s "
                          "(getValue renders the value as a negative int, Bin's ParseUint fails -> 0)" % pick(got, u64i), {"program": gp, "wa": wlines[0], "expected": " ".join(want)})
        if pick(got, runei) != pick(want, runei):
            ctx.violation("global-init:rune:negative-parsed-as-0", "package-level `var r rune = -1` prints %s (wir aBasic.Bin parses rune constants with ParseUint)" % pick(got, runei),
                          {"program": gp, "wa": wlines[0], "expected": " ".join(want)})
        if pick(got, rest) != pick(want, rest) or len(got) != len(want):
            ctx.violation("global-init:other:wrong-value", "global initialisers print %s, expected %s" % (got, want), {"program": gp, "wa": wlines[0]})
    else:
        ctx.violation("global-init:probe-failed", "global initialiser probe fails under Wa: %s %s" % (wst, werr[-200:]), {"program": gp})
    lap("stageC")
    # ---- stage D: float / complex constants — explored against go/constant only (no theorem)
    fops = gen_float_ops(ctx)
    fw = hrun(["w " + o for o in fops])
    fg = hrun(["g " + o for o in fops])
    fdiff = [(o, a, b) for o, a, b in zip(fops, fw, fg) if a != b]
    dist["D:float_ops"] = len(fops)
    dist["D:float_differences_vs_go_constant"] = len(fdiff)
    evaluations += len(fops)
    for o, a, b in fdiff[:5]:
        ctx.notes.append("float/complex exploration: %s -> wa %s, go/constant %s" % (o, a, b))

    lap("stageD")
    # ---- stage E: typed FLOAT constant expressions: checker value vs exact-rational oracle (rounded to the type after every
    #      typed step) vs go/types, and folded constant vs the same operators on parameters vs global vs `go run` (bit patterns)
    fdecls = gen_float_decls(ctx)
    dist["stageE_float_decls"] = len(fdecls)
    frun = []
    fgo_diff = 0
    # every declaration is checked in its basic rendering and in its NAMED rendering (type N_k k); `<=>` ones without a Go reference
    for named in (False, True):
        for waonly in (False, True):
            dl = [d for d in fdecls if d.waonly == waonly]
            if not dl:
                continue
            fsrc = float_decl_file(dl, named)
            fdir = os.path.join(ctx.tmp, "fdecl_%d%d" % (named, waonly))
            os.makedirs(fdir, exist_ok=True)
            fpw, fpg = os.path.join(fdir, "main.wa.go"), os.path.join(fdir, "main.go")
            for pth in (fpw, fpg):
                with open(pth, "w") as f:
                    f.write(fsrc)
            fo = hrun(["w chk %s %d" % (fpw, WORD)] + ([] if waonly else ["g chk %s %d" % (fpg, WORD)]))
            fwv = fo[0].split()
            fgv = [None] * len(dl) if waonly else fo[1].split()
            if len(fwv) != len(dl) or fo[0].startswith("parse-error"):
                ctx.violation("float:generated-file-not-processed", "type-checking the generated float declaration file did not yield one verdict per declaration: %s" % fo[0][:300],
                              {"file": fsrc, "impl": fo[0][:2000]})
                fwv = ["missing"] * len(dl)
            if len(fgv) != len(dl):
                raise vlib.InfraError("go/types reference failed on generated float file: %s" % fo[1][:500])
            nk = "named-type:" if named else ""
            for i, d in enumerate(dl):
                evaluations += 1
                got = fparse_verdict(fwv[i])
                gog = fparse_verdict(fgv[i]) if fgv[i] is not None else got
                dist["E:" + d.shape] = dist.get("E:" + d.shape, 0) + 1
                dist["E:accepted" if got != "reject" else "E:rejected"] = dist.get("E:accepted" if got != "reject" else "E:rejected", 0) + 1
                nontrivial.add(("float", named, d.key, d.text.split("=", 1)[1].strip()[:60]))
                decl = (fnamed(d.text) if named else d.text).replace("@DECL@", "const c0")
                if got != d.expect:
                    if got == "reject":
                        key = nk + "float:%s:rejects-representable" % d.key
                    elif d.expect == "reject":
                        key = nk + "float:%s:accepts-unrepresentable" % d.key
                    else:
                        key = nk + "float:%s:wrong-folded-value" % d.key
                    ctx.violation(key, "declaration `%s`: checker gives %s; exact rational arithmetic rounded to the type after every typed step gives %s (go/types: %s)" % (
                        decl, fwv[i], d.expect if d.expect == "reject" else "ok:%s" % d.expect[1], fgv[i]),
                        {"decl": fprelude(named) + decl, "impl": fwv[i], "exact": "reject" if d.expect == "reject" else "ok:%s" % d.expect[1], "go/types": fgv[i]})
                elif got != "reject" and d.fn is not None:
                    # float -> unsigned conversions of values >= half the unsigned range trapped in the compiled program
                    # (signed trunc instruction): probed separately below, a trap would take the whole program down
                    k1, _, k2 = d.kind.partition("_")
                    if d.shape == "fconv" and k1 in FFMT and k2 in ("uint32", "uint64") and d.expect[1] >= (1 << (kbits(k2) - 1)):
                        dist["E:float_to_unsigned_ge_half_range_excluded"] = dist.get("E:float_to_unsigned_ge_half_range_excluded", 0) + 1
                    else:
                        frun.append((d, named))
                if gog != got:
                    fgo_diff += 1
                    if fgo_diff <= 3:
                        ctx.notes.append("go/types disagrees with Wa's checker on float declaration `%s`: go=%s wa=%s" % (decl, fgv[i], fwv[i]))
            if not named and not waonly:
                samples += [{"decl": d.text.replace("@DECL@", "const c0"), "impl": fwv[i], "go/types": fgv[i]} for i, d in list(enumerate(dl))[:: max(1, len(dl) // 4)]][:4]
    dist["E:go_types_disagreements"] = fgo_diff
    ctx.rng.shuffle(frun)
    # extreme magnitudes get their own programs: if a constant is emitted as Inf the module does not assemble at all
    def extreme(d):
        return d.expect != "reject" and d.rkind in FFMT and d.expect[1] != 0 and not (Fraction(1, 10 ** 30) < abs(d.expect[1]) < 10 ** 30)
    fgroups = {}
    for d, named in frun:
        fgroups.setdefault((named, d.waonly, extreme(d)), []).append(d)
    fcap = 130 if ctx.tier == "quick" else 1000
    fprogs = []
    for (named, waonly, ext), g_ in sorted(fgroups.items()):
        g_ = g_[:fcap]
        nfp = max(1, len(g_) // 90)
        for i in range(nfp):
            ch = g_[i::nfp]
            if ch:
                fprogs.append((ch, build_float_program(ch, named), "f%d%d%d_%d" % (named, waonly, ext, i), named, not waonly))

    def exec_fprog(a):
        ch, src, tag, named, withgo = a
        return run_wa(ctx, warun, src, "frun_" + tag), (run_go(ctx, src, "fgorun_" + tag) if withgo else None)
    with cf.ThreadPoolExecutor(8) as ex:
        fres = list(ex.map(exec_fprog, fprogs))
    dist["stageE_fold_vs_runtime_cases"] = 0
    for (ch, src, tag, named, withgo), ((wst, wlines, werr), gres) in zip(fprogs, fres):
        nk = "named-type:" if named else ""
        tx = fnamed if named else (lambda t: t)
        if gres is not None and (gres[0] != "ok" or len(gres[1]) != len(ch)):
            raise vlib.InfraError("go run of float fold-vs-runtime program %s failed: %s" % (tag, "\n".join(gres[1])[-1500:]))
        glines = gres[1] if gres is not None else [None] * len(ch)
        if wst != "ok" or len(wlines) != len(ch):
            ctx.violation(nk + "float-fold-vs-runtime:wa-run-failed", "float fold-vs-runtime program (%s types) does not build/run under Wa (%s) %s%s" % (
                "named" if named else "basic", wst, werr[-300:], "" if gres is None else "; `go run` of the same text succeeds"),
                {"program": src, "wa_status": wst, "wa_tail": wlines[-3:], "stderr": werr})
            continue
        for d, wl_, gl_ in zip(ch, wlines, glines):
            evaluations += 1
            dist["stageE_fold_vs_runtime_cases"] += 1
            if named:
                dist["E:named_runtime_cases"] = dist.get("E:named_runtime_cases", 0) + 1
            ce = tx(d.text.replace("@DECL@ = ", ""))
            want = fexpect_print(d.expect[1], d.rkind)
            wf = wl_.split()
            gf = gl_.split() if gl_ is not None else None
            prog1 = build_float_program([d], named)
            exp3 = "%s %s %s" % (want, want, want)
            if len(wf) != 3:
                ctx.violation("float-fold-vs-runtime:bad-output", "case `%s` printed %r" % (ce, wl_), {"expr": ce, "wa": wl_})
                continue
            # a constant has no negative zero: compare the run-time value modulo the sign of zero
            negz = {"float32": str(1 << 31), "float64": str(1 << 63)}.get(d.rkind)
            norm = lambda t: "0" if (negz is not None and t == negz) else t
            if wf[0] != want:
                ctx.violation(nk + "float-fold:%s:wrong-value" % d.key, "the constant `%s` has bits %s in the compiled Wa program; exact value rounded per step has bits %s (go run: %s)" % (
                    ce, wf[0], want, gf[:1] if gf else None), {"expr": ce, "wa_folded": wf[0], "exact": want, "go": gl_, "program": prog1, "expected": exp3})
            if norm(wf[1]) != norm(wf[0]):
                ctx.violation(nk + "float-fold-vs-runtime:%s" % d.key, "`%s` folds to bits %s but %s computes bits %s at run time (exact: %s; go run: %s)" % (ce, wf[0], d.call, wf[1], want, gl_),
                              {"expr": ce, "call": d.call, "wa_folded": wf[0], "wa_runtime": wf[1], "exact": want, "go": gl_, "program": prog1, "expected": exp3})
            if wf[2] != wf[0]:
                ctx.violation(nk + "float-global-init:%s" % d.key, "package-level `var g = %s` holds bits %s; the folded constant has bits %s" % (ce, wf[2], wf[0]),
                              {"expr": ce, "wa_global": wf[2], "wa_folded": wf[0], "exact": want, "program": prog1, "expected": exp3})
            if gf is not None and wf != gf:
                if wf[1] != gf[1] and wf[0] == gf[0]:
                    ctx.violation("float-runtime-vs-go:%s" % d.key, "`%s`: Wa computes bits %s at run time, `go run` of the same text %s" % (d.call, wf[1], gf[1]),
                                  {"call": d.call, "wa": wl_, "go": gl_, "program": prog1})
                elif gf[0] != want:
                    ctx.notes.append("go run disagrees with the rational oracle on `%s`: %s (oracle %s)" % (ce, gl_, want))
    # probe: float -> unsigned integer conversion of an in-range value >= 2^(N-1)
    fprobe = [("float64", "uint64", "9223372036854775808"), ("float32", "uint32", "3000000000"), ("float64", "uint32", "4294967295"), ("float32", "uint64", "18446742974197923840")]

    def exec_probe(a):
        k1, k2, v = a
        src = "package main\n\nfunc cv(x %s) %s { return %s(x) }\n\nfunc main() {\n\tprintln(%s(%s(%s)), cv(%s))\n}\n" % (k1, k2, k2, k2, k1, v, v)
        return src, run_wa(ctx, warun, src, "fprobe_%s_%s" % (k1, k2))
    with cf.ThreadPoolExecutor(4) as ex:
        pres = list(ex.map(exec_probe, fprobe))
    for (k1, k2, v), (src, (wst, wl_, werr)) in zip(fprobe, pres):
        evaluations += 1
        want = str(int(fround(Fraction(v), k1)))
        got = wl_[0].split() if wl_ else []
        if wst != "ok" or got != [want, want]:
            ctx.violation("float-fold-vs-runtime:float-to-unsigned-ge-half-range",
                          "`%s(%s(%s))` folds to %s but the same conversion of a variable %s under Wa (EmitGenConvert uses the signed i32/i64.trunc_f* for unsigned targets)" % (
                              k2, k1, v, want, ("prints %s" % got) if wst == "ok" else "traps: %s" % " ".join(wl_[-3:] + [werr[-120:]])[:200]),
                          {"program": src, "wa_status": wst, "wa": wl_[:3], "expected": want + " " + want})
    lap("stageE")
    # ---- stage F: constants of EVERY basic kind (ints of each width, rune, f32, f64, string, bool), with basic and with NAMED types, observed as call
    #      argument, run-time result, global, global struct field, local struct field, array element and map key; comparisons, `<=>`, len
    pcases = gen_place_cases(ctx)
    dist["stageF_cases"] = len(pcases)
    pprogs = []
    for named in (False, True):
        for waonly in (False, True):
            g_ = [c for c in pcases if c.waonly == waonly]
            nparts = 2 if (ctx.tier == "quick" or waonly) else 8
            for pi in range(nparts if not waonly else 1):
                ch = g_[pi::(nparts if not waonly else 1)]
                if ch:
                    src, exp = build_place_program(ch, named)
                    pprogs.append((ch, src, exp, named, not waonly, "p%d%d_%d" % (named, waonly, pi)))

    def exec_pprog(a):
        ch, src, exp, named, withgo, tag = a
        return run_wa(ctx, warun, src, "prun_" + tag), (run_go(ctx, src, "pgorun_" + tag) if withgo else None)
    with cf.ThreadPoolExecutor(8) as ex:
        pres = list(ex.map(exec_pprog, pprogs))
    for (ch, src, exp, named, withgo, tag), ((wst, wlines, werr), gres) in zip(pprogs, pres):
        nk = "named-type:" if named else ""
        if gres is not None:
            if gres[0] != "ok" or len(gres[1]) != len(ch):
                raise vlib.InfraError("go run of placement program %s failed: %s" % (tag, "\n".join(gres[1])[-1500:]))
            for c, gl_, e in zip(ch, gres[1], exp):
                if gl_.split() != e.split():
                    ctx.notes.append("go run disagrees with the oracle on `%s`: %s (oracle %s)" % (subst_kinds(c.ce, "go", named), gl_, e))
        if wst != "ok" or len(wlines) != len(ch):
            ctx.violation(nk + "placement:wa-run-failed", "constant placement program (%s types) does not build/run under Wa (%s) %s%s" % (
                "named" if named else "basic", wst, werr[-300:], "" if gres is None else "; `go run` of the same text succeeds"),
                {"program": src, "wa_status": wst, "wa_tail": wlines[-3:], "stderr": werr, "expected": " ".join(exp)})
            continue
        for c, wl_, e in zip(ch, wlines, exp):
            evaluations += 1
            dist["F:" + c.tag + ":" + c.k] = dist.get("F:" + c.tag + ":" + c.k, 0) + 1
            nontrivial.add(("place", named, c.k, c.tag, c.ce[:50]))
            wf, ef = wl_.split(), e.split()
            if wf == ef:
                continue
            one, oexp = build_place_program([c], named)
            cols = PCOLS if c.pred is None else ["folded", "run-time", "global"]
            bad = [cols[j] for j in range(min(len(cols), len(ef))) if j >= len(wf) or wf[j] != ef[j]] or ["output-shape"]
            ctx.violation(nk + "placement:%s:%s:%s" % (c.tag, c.k, bad[0]), "`%s` (%s type): the compiled Wa program prints %s, expected %s — wrong at: %s" % (
                subst_kinds(c.ce, "go", named), "named" if named else "basic", wl_, e, ", ".join(bad)),
                {"program": one, "wa": wl_, "expected": " ".join(oexp), "wrong_columns": bad})
    lap("stageF")

    cov = {
        "evaluations": evaluations,
        "distinct_nontrivial": len(nontrivial),
        "rule": "stage A: real constant.BinaryOp/UnaryOp/Shift/Compare/ToInt/Int64Val/Uint64Val/BitLen/Sign/MakeFromLiteral and representableConst on boundary "
                "(every basic type's limits +-2, powers of two +-1 up to 2^200, random up to 200 bits, negatives, zero divisors) operands, each compared with python "
                "big-int arithmetic (oracle), math/big, go/constant and the Lean model; stage B: generated declarations (typed/untyped binary, shift, unary, conversion, "
                "comparison, rational quotient) at every integer kind through the real parser + types.Config.Check, a sample through api.LoadProgramFile, compared with the "
                "oracle (accepted iff every typed intermediate is representable; folded value exact), the Lean checker model, go/types and go vet; stage C: accepted typed "
                "expressions compiled by the real compiler: folded constant vs the same operator on function parameters vs a package-level initialiser vs exact value vs "
                "Base/GoInt semantics in Lean vs `go run`; stage D: float/complex ops of the constant package vs go/constant (exploration); stage E: typed float32/float64 constant expressions "
                "(chains of 2-3 operations where rounding after every typed step matters: ties at 2^24 / 2^53, 0.1+0.2, MaxFloat32 +- half ulp, overflow to Inf, "
                "subnormals, divisors that round to 0; untyped chains rounded once; f32<->f64, float->int, int->float conversions of inexact values): the checker's "
                "value vs an exact-rational oracle vs go/types, and the folded constant vs the same operators on parameters vs a global vs `go run`, floats printed as "
                "bit patterns only. Stages B, C and E render their declarations/programs both with basic types and with NAMED types (type N_k k, "
                "constants observed through a function taking the named type) and include the Wa-only `<=>`; stage F: constants of every basic kind incl. string, bool, "
                "rune with basic and named types as call argument / global / struct field / array element / map key, plus comparisons, `<=>` and len. A tie step "
                "re-extracts the exported functions and operator tokens of internal/constant, the checker's operator tokens, the constant-folding builtins and the "
                "back end's constant kinds from the current source and breaks if one of them is not claimed by a generator stream. distinct_nontrivial counts distinct "
                "(operation/shape, operator, kind, sign/zero/bit-length class of each operand, accepted?) tuples of stages A and B",
        "samples": samples,
        "distribution": dist,
    }
    return ctx.finish("proof", cov,
                      assumptions=["constant values are in the package's normal form (int64Val iff the value fits int64) — true of every public constructor used by the checker",
                                   "Wa's int/uint/uintptr are 32 bits (types.SizesFor(\"wasm\")); the model is also proved for 64-bit words",
                                   "float/complex constants are not modelled: explored against go/constant only"],
                      trusted_base=["hand-written Lean model WaVerif/Model/C15.lean tied by the correspondence run (harness/c15, hooks/internal__types/c15_repr.go)",
                                    "Base/GoInt.lean: Go run-time integer semantics (validated against the compiled Wa programs and go run)",
                                    "python big-int oracle in checks/c15.py; math/big, go/constant, go/types as cross-references"])
