"""C15 — Constant folding agrees with run-time evaluation and exact arithmetic."""
import concurrent.futures as cf, os, subprocess
from lib import vlib
from lib.vlib import GOENV

PROP = "C15"
META = {
    "category": "proof",
    "text": "Lean theorems over a model of internal/constant's integer operations (BinaryOp/UnaryOp/Shift/Compare/ToInt/Int64Val/Uint64Val, "
            "both the int64 fast paths with their wrap-around guards and the math/big paths) and of the checker's representableConst / "
            "binary / shift / unary / conversion rules: the model operations equal exact Int arithmetic (const_int_exact*), "
            "representableConst is exactly the type's range for every basic integer kind (representable_iff_range), the checker reports "
            "overflow exactly when the exact value is out of range (overflow_iff*), and — the bridge to Base/GoInt.lean — whenever the "
            "operands and the exact result are representable in T, Go's run-time operator on the bit-vector encodings yields the encoding "
            "of the exact result, for EVERY width and both signednesses (fold_eq_runtime_*). The one place where the full statement is false "
            "of the pinned code (MinInt64 / -1 in the int64 fast path) is proved false with a witness and replayed on the real code. "
            "The model is hand-written; it is tied to /repo by a correspondence run against the real constant package, the real type "
            "checker and the real compiler's output, with python big integers, math/big, go/constant and go/types as independent references.",
    "note": "Trusted: Lean kernel; Base/GoInt.lean as the specification of Go's run-time integer operators (validated here against the real "
            "Wa run time and `go run`); the hand-written model's tie to value.go / expr.go is the differential correspondence run, not a proof. "
            "Modelled-not-verified: float and complex constants have NO Lean theorem — float32/float64 typed constant expressions are covered by "
            "correspondence only (stage E: exact-rational oracle with rounding to the type after every typed step, go/types, and fold vs run time vs go run "
            "on bit patterns); complex constants only explored against go/constant; the path from the checker's "
            "constant value to the emitted instruction (ssa.Const -> getValue -> wir const / data segment) is covered by execution of generated "
            "programs only; string/bool constants are out of scope.",
    "technique": "Lean 4 proof over hand-written model + differential correspondence (constant package, type checker, compiled programs) "
                 "with python / math/big / go/constant / go/types references",
}
REQUIRED = ["const_int_exact", "const_int_exact_partial", "const_int_exact_quo_minint_wrong", "shift_exact", "unary_exact", "compare_exact",
            "toInt_exact_iff", "int64Val_exact_iff", "uint64Val_exact_iff",
            "representable_iff_range", "overflow_iff", "overflow_iff_shift", "overflow_iff_unary", "checkBinary_accepts_unrepresentable_quo_minint",
            "fold_eq_runtime_bin", "fold_eq_runtime_shl", "fold_eq_runtime_shr", "fold_eq_runtime_cmp", "fold_eq_runtime_neg",
            "fold_eq_runtime_not", "fold_eq_runtime_conv", "dec_enc"]

WORD = 4                      # Wa: int / uint / uintptr are 32 bits
KINDS = ["int", "int8", "int16", "int32", "int64", "uint", "uint8", "uint16", "uint32", "uint64", "uintptr"]
SIGNEDK = {"int", "int8", "int16", "int32", "int64"}
WA_NAME = {"int8": "__wa_int8", "int16": "__wa_int16"}          # hidden names of the 8/16-bit signed kinds in Wa's universe
RUNK_BOTH = ["uint8", "uint16", "int32", "uint32", "int64", "uint64"]   # kinds the wat back end supports, same width in Go
RUNK_WA = ["int", "uint"]                                               # 32-bit in Wa only
BOPS = ["add", "sub", "mul", "quo", "rem", "and", "or", "xor", "andnot"]
SYM = {"add": "+", "sub": "-", "mul": "*", "quo": "/", "rem": "%", "and": "&", "or": "|", "xor": "^", "andnot": "&^",
       "shl": "<<", "shr": ">>", "eq": "==", "ne": "!=", "lt": "<", "le": "<=", "gt": ">", "ge": ">="}
CMPS = ["eq", "ne", "lt", "le", "gt", "ge"]
USYM = {"add": "+", "sub": "-", "xor": "^"}
SHIFT_BOUND = 1074


def kbits(k, word=WORD):
    return {"int": word * 8, "uint": word * 8, "uintptr": word * 8, "int8": 8, "uint8": 8, "int16": 16, "uint16": 16,
            "int32": 32, "uint32": 32, "int64": 64, "uint64": 64}[k]


def krange(k, word=WORD):
    b = kbits(k, word)
    return (-(1 << (b - 1)), (1 << (b - 1)) - 1) if k in SIGNEDK else (0, (1 << b) - 1)


def rep(k, v, word=WORD):
    if k == "untyped":
        return True
    lo, hi = krange(k, word)
    return lo <= v <= hi


# ------------------------------------------------------------------ exact arithmetic (python ints; reference 1)
def tdiv(a, b):
    q = abs(a) // abs(b)
    return q if (a < 0) == (b < 0) else -q


def exact_bin(op, x, y):
    if op == "add":
        return x + y
    if op == "sub":
        return x - y
    if op == "mul":
        return x * y
    if op == "quo":
        return None if y == 0 else tdiv(x, y)
    if op == "rem":
        return None if y == 0 else x - y * tdiv(x, y)
    if op == "and":
        return x & y
    if op == "or":
        return x | y
    if op == "xor":
        return x ^ y
    if op == "andnot":
        return x & ~y
    raise ValueError(op)


def exact_cmp(c, x, y):
    return {"eq": x == y, "ne": x != y, "lt": x < y, "le": x <= y, "gt": x > y, "ge": x >= y}[c]


def exact_un(op, y, prec):
    if op == "add":
        return y
    if op == "sub":
        return -y
    z = ~y
    return z % (1 << prec) if prec > 0 else z


def pylit(s):
    """value of a Go integer literal (valid syntax only), else None"""
    t = s.replace("_", "")
    if not t.isascii():
        return None
    try:
        if t[:2] in ("0x", "0X"):
            return int(t[2:], 16)
        if t[:2] in ("0b", "0B"):
            return int(t[2:], 2)
        if t[:2] in ("0o", "0O"):
            return int(t[2:], 8)
        if len(t) > 1 and t[0] == "0":
            return int(t[1:], 8)
        return int(t, 10)
    except ValueError:
        return None


# ------------------------------------------------------------------ value pools
def value_pool(rng, nrand):
    vals = {0, 1, -1, 2, -2, 3, 7, -7, 10, 100, -100, 255, 256}
    for k in (7, 8, 15, 16, 31, 32, 33, 62, 63, 64, 65):          # boundaries of every basic type +-2
        for d in (-2, -1, 0, 1, 2):
            vals.add((1 << k) + d)
            vals.add(-(1 << k) + d)
    for k in (20, 40, 48, 56, 96, 127, 128, 150, 199, 200):        # powers of two +-1, up to 2^200
        for d in (-1, 0, 1):
            vals.add((1 << k) + d)
            vals.add(-(1 << k) + d)
    for _ in range(nrand):
        w = rng.choice([3, 8, 16, 31, 32, 33, 62, 63, 64, 65, 100, 128, 200])
        v = rng.getrandbits(w)
        vals.add(v if rng.random() < 0.6 else -v)
    return sorted(vals)


def kind_pool(rng, k, n):
    lo, hi = krange(k)
    vals = {0, 1, 2, 3, 5, 7, lo, lo + 1, hi, hi - 1, hi + 1, lo - 1, hi // 2, hi // 2 + 1, -1, -2}
    b = kbits(k)
    for _ in range(n):
        vals.add(rng.randint(lo, hi))
        vals.add(rng.randint(lo - 3, hi + 3))
        vals.add(rng.choice([1, -1]) * (1 << rng.randrange(0, b + 1)) + rng.choice([-1, 0, 1]))
        vals.add(rng.randint(-20, 20))
    return sorted(vals)


def vclass(v):
    return (v < 0, v == 0, min(abs(v).bit_length(), 201))


# ------------------------------------------------------------------ stage A: the constant package
def gen_const_ops(ctx):
    rng = ctx.rng
    quick = ctx.tier == "quick"
    pool = value_pool(rng, 60 if quick else 600)
    ops = []
    npairs = 260 if quick else 6000
    for op in BOPS:
        pairs = set()
        # guaranteed corner pairs
        for x in (0, 1, -1, (1 << 63) - 1, -(1 << 63), (1 << 62), -(1 << 62) - 1, (1 << 31), -(1 << 31) - 1, 1 << 64, (1 << 200) + 1, -(1 << 200)):
            for y in (0, 1, -1, 2, -(1 << 63), (1 << 63) - 1, (1 << 31) - 1, 1 << 200, -(1 << 100) - 1):
                pairs.add((x, y))
        while len(pairs) < npairs:
            pairs.add((rng.choice(pool), rng.choice(pool)))
        for x, y in sorted(pairs):
            ops.append(("bin", op, x, y))
    for op in ("add", "sub", "xor"):
        for y in pool:
            for prec in ((0,) if op != "xor" else (0, 8, 16, 32, 64)):
                ops.append(("un", op, y, prec))
    shifts = [0, 1, 7, 8, 31, 32, 33, 62, 63, 64, 65, 100, 200, 1074]
    for op in ("shl", "shr"):
        for x in pool[:: (3 if quick else 1)]:
            for s in (shifts if not quick else rng.sample(shifts, 6) + [0, 64]):
                ops.append(("shift", op, x, s))
    for c in CMPS:
        for _ in range(120 if quick else 2000):
            x = rng.choice(pool)
            y = rng.choice([x, x + 1, x - 1, rng.choice(pool)])
            ops.append(("cmp", c, x, y))
    for _ in range(300 if quick else 4000):
        d = rng.choice([0, 1, -1, 2, 3, -3, 7, 1 << 31, 1 << 64, rng.choice(pool)])
        q = rng.choice(pool)
        n = q * d + rng.choice([0, 0, 0, 1, -1, 2]) if d != 0 else q
        ops.append(("ratint", n, d))
    for v in pool:
        ops.append(("i64val", v))
        ops.append(("u64val", v))
        ops.append(("bitlen", v))
        ops.append(("sign", v))
    for k in KINDS + ["untyped"]:
        for word in (4, 8):
            vs = set()
            for kk in (7, 8, 15, 16, 31, 32, 63, 64):
                for d in (-1, 0, 1):
                    vs.add((1 << kk) + d)
                    vs.add(-(1 << kk) + d)
            vs.update([0, -1, 1, 1 << 100, -(1 << 100)])
            vs.update(rng.sample(pool, 12 if quick else 80))
            for v in sorted(vs):
                ops.append(("repr", k, word, v))
    # literals: valid spellings of pool values + a malformed stream
    for v in [abs(x) for x in pool[:: (4 if quick else 1)]]:
        forms = ["%d" % v, "0x%x" % v, "0X%X" % v, "0o%o" % v, "0%o" % v if v else "0", "0b%s" % bin(v)[2:], "0B%s" % bin(v)[2:]]
        f = rng.choice(forms)
        if len(f) > 3 and rng.random() < 0.4:
            i = rng.randrange(2 if f[:2].lower() in ("0x", "0o", "0b") else 1, len(f))
            f = f[:i] + "_" + f[i:]
        ops.append(("lit", f))
    for bad in ["08", "09", "0x", "0b", "0b2", "0o8", "0xg", "1a", "0o", "00", "007", "0_7", "1__0", "0x_", "_1", "1_", "0b_1", "0O17", "0o_17", "١"]:
        ops.append(("lit", bad))
    return ops


def parse_op(line):
    f = line.split()
    return tuple(int(a) if (a.lstrip("-").isdigit() and f[0] != "lit") else a for a in f)


def corpus_ops():
    out = []
    d = os.path.join(vlib.VERIF, "corpus", "C15")
    if os.path.isdir(d):
        for fn in sorted(os.listdir(d)):
            if fn.endswith(".txt"):
                for l in open(os.path.join(d, fn)):
                    l = l.strip()
                    if l and not l.startswith("#"):
                        out.append(parse_op(l))
    return out


def const_expected(op):
    """the property's own predicate: what exact arithmetic says the real function must return (None = no requirement)"""
    k = op[0]
    if k == "bin":
        r = exact_bin(op[1], op[2], op[3])
        return "panic" if r is None else "ok %d" % r
    if k == "un":
        return "ok %d" % exact_un(op[1], op[2], op[3])
    if k == "shift":
        return "ok %d" % (op[2] << op[3] if op[1] == "shl" else op[2] >> op[3])
    if k == "cmp":
        return "true" if exact_cmp(op[1], op[2], op[3]) else "false"
    if k == "ratint":
        n, d = op[1], op[2]
        if d == 0:
            return "panic"
        return "ok %d" % (n // d) if n % d == 0 else "unknown"
    if k == "i64val":
        return "exact %d" % op[1] if -(1 << 63) <= op[1] < (1 << 63) else "inexact"
    if k == "u64val":
        return "exact %d" % op[1] if 0 <= op[1] < (1 << 64) else "inexact"
    if k == "bitlen":
        return "%d" % abs(op[1]).bit_length()
    if k == "sign":
        return "%d" % ((op[1] > 0) - (op[1] < 0))
    if k == "repr":
        return "true" if rep(op[1], op[3], op[2]) else "false"
    if k == "lit":
        v = pylit(op[1])
        ok_syntax = v is not None and "__" not in op[1] and not op[1].endswith("_") and not op[1].startswith("_") \
            and not (len(op[1]) > 2 and op[1][:2].lower() in ("0x", "0b", "0o") and False)
        return ("ok %d" % v) if ok_syntax else None        # malformed literals: compared with the model only
    return None


def opline(op):
    return " ".join(str(a) for a in op)


# ------------------------------------------------------------------ stage B: declarations for the type checker
def lit_text(rng, v):
    if v < 0:
        return "(-%s)" % lit_text(rng, -v)
    r = rng.random()
    if r < 0.15:
        return "0x%x" % v
    if r < 0.2 and v > 999:
        s = "%d" % v
        return s[:-3] + "_" + s[-3:]
    return "%d" % v


class Decl:
    """one generated constant declaration: model op, python verdict, text for Wa and for Go"""
    __slots__ = ("shape", "args", "expect", "text", "run")

    def __init__(self, shape, args, expect, text, run=None):
        self.shape, self.args, self.expect, self.text, self.run = shape, args, expect, text, run

    def model_op(self, qw):
        return "%s %s %d %s" % (qw, self.shape, WORD, " ".join(str(a) for a in self.args))

    def render(self, i, lang, var=False):
        t = self.text
        for k in ("int8", "int16"):
            t = t.replace("@" + k + "@", WA_NAME[k] if lang == "wa" else k)
        for k in KINDS:
            t = t.replace("@" + k + "@", k)
        name = ("v%d" if var else "c%d") % i
        kw = "var" if var else "const"
        return t.replace("@DECL@", "%s %s" % (kw, name))


def hits_minq(d):
    """does evaluating the declaration pass through the single point MinInt64 / -1 (finding binaryop:int64-quo-minint-by-minus1)?"""
    M = -(1 << 63)
    if d.shape in ("dbint", "dbinu"):
        return d.args[1] == "quo" and d.args[2] == M and d.args[3] == -1
    if d.shape in ("dbin2t", "dbin2u"):
        _, op1, op2, x, y, z = d.args
        if op1 == "quo" and x == M and y == -1:
            return True
        r1 = exact_bin(op1, x, y)
        return op2 == "quo" and r1 == M and z == -1
    return False


def T(k):
    return "@%s@" % k


def oracle_bint(k, op, x, y):
    if not rep(k, x) or not rep(k, y):
        return "reject"
    r = exact_bin(op, x, y)
    if r is None or not rep(k, r):
        return "reject"
    return "ok:%d" % r


def gen_decls(ctx):
    rng = ctx.rng
    quick = ctx.tier == "quick"
    n = 3 if quick else 14
    decls = []
    for k in KINDS:
        pool = kind_pool(rng, k, 10 if quick else 60)
        lo, hi = krange(k)
        inr = [v for v in pool if lo <= v <= hi]
        b = kbits(k)
        # typed binary: const c = K(x) op K(y)
        for op in BOPS:
            pairs = set()
            corner = [(hi, 1), (lo, 1), (lo, -1), (hi, hi), (lo, lo), (hi, 0), (0, hi), (lo, hi), (hi, lo), (hi + 1, 0), (0, lo - 1), (1, 0), (0, 0), (hi, -1), (hi, 2)]
            for x, y in corner:
                pairs.add((x, y))
            while len(pairs) < len(corner) + n * 5:
                x = rng.choice(inr if rng.random() < 0.9 else pool)
                y = rng.choice(inr if rng.random() < 0.9 else pool)
                if rng.random() < 0.3:
                    y = rng.choice([0, 1, -1, 2, 3, x])
                pairs.add((x, y))
            for x, y in sorted(pairs):
                if k not in SIGNEDK and (x < 0 or y < 0) and rng.random() < 0.7:
                    continue
                decls.append(Decl("dbint", (k, op, x, y), oracle_bint(k, op, x, y),
                                  "@DECL@ = %s(%s) %s %s(%s)" % (T(k), lit_text(rng, x), SYM[op], T(k), lit_text(rng, y)),
                                  run=("bin", k, op, x, y)))
            # untyped operands: const c K = x op y  (exact, then one check)
            for _ in range(n * 3):
                x = rng.choice(pool + [1 << 100, -(1 << 70), (1 << 64) + 1])
                y = rng.choice(pool + [1 << 100, (1 << 100) - 1, 3])
                r = exact_bin(op, x, y)
                exp = "reject" if r is None or not rep(k, r) else "ok:%d" % r
                decls.append(Decl("dbinu", (k, op, x, y), exp, "@DECL@ %s = %s %s %s" % (T(k), lit_text(rng, x), SYM[op], lit_text(rng, y))))
        # two-level expressions: typed intermediates are checked, untyped intermediates are exact and unbounded
        for _ in range(n * 8):
            op1, op2 = rng.choice(BOPS), rng.choice(BOPS)
            x, y, z = rng.choice(inr), rng.choice(inr + [0, 1, 2]), rng.choice(inr + [0, 1, 2, hi, lo])
            r1 = exact_bin(op1, x, y)
            exp = "reject"
            if r1 is not None and rep(k, r1):
                r2 = exact_bin(op2, r1, z)
                if r2 is not None and rep(k, r2):
                    exp = "ok:%d" % r2
            decls.append(Decl("dbin2t", (k, op1, op2, x, y, z), exp, "@DECL@ = (%s(%s) %s %s(%s)) %s %s(%s)" % (
                T(k), lit_text(rng, x), SYM[op1], T(k), lit_text(rng, y), SYM[op2], T(k), lit_text(rng, z))))
            x, y, z = rng.choice(pool + [1 << 100]), rng.choice(pool + [1 << 90, 3]), rng.choice(pool + [1 << 100, (1 << 100) - 1, 1 << 90, 5])
            r1 = exact_bin(op1, x, y)
            r2 = None if r1 is None else exact_bin(op2, r1, z)
            exp = "reject" if r2 is None or not rep(k, r2) else "ok:%d" % r2
            decls.append(Decl("dbin2u", (k, op1, op2, x, y, z), exp, "@DECL@ %s = (%s %s %s) %s %s" % (
                T(k), lit_text(rng, x), SYM[op1], lit_text(rng, y), SYM[op2], lit_text(rng, z))))
        # shifts
        for op in ("shl", "shr"):
            for _ in range(n * 6):
                x = rng.choice(inr + [1, 1, -1 if lo < 0 else 1, hi, lo])
                s = rng.choice([0, 1, 2, 7, 8, b - 2, b - 1, b, b + 1, 31, 32, 33, 63, 64, 65, 200, SHIFT_BOUND, SHIFT_BOUND + 1, -1, 5000, 1 << 32, 1 << 64])
                if rep(k, x) and 0 <= s <= SHIFT_BOUND and rep(k, x << s if op == "shl" else x >> s):
                    exp = "ok:%d" % (x << s if op == "shl" else x >> s)
                else:
                    exp = "reject"
                decls.append(Decl("dsht", (k, op, x, s), exp, "@DECL@ = %s(%s) %s %s" % (T(k), lit_text(rng, x), SYM[op], lit_text(rng, s)),
                                  run=("shift", k, op, x, s)))
                x = rng.choice(pool + [1 << 100, -(1 << 100) - 1, 1])
                s = rng.choice([0, 1, 8, 31, 32, 63, 64, 100, 200, SHIFT_BOUND, SHIFT_BOUND + 1, -1])
                if 0 <= s <= SHIFT_BOUND and rep(k, x << s if op == "shl" else x >> s):
                    exp = "ok:%d" % (x << s if op == "shl" else x >> s)
                else:
                    exp = "reject"
                decls.append(Decl("dshu", (k, op, x, s), exp, "@DECL@ %s = %s %s %s" % (T(k), lit_text(rng, x), SYM[op], lit_text(rng, s))))
        # unary
        for op in ("add", "sub", "xor"):
            for x in sorted(set([lo, hi, 0, 1, lo + 1, hi - 1, hi + 1, lo - 1] + rng.sample(pool, min(len(pool), n * 2)))):
                prec = b if k not in SIGNEDK else 0
                r = exact_un(op, x, prec)
                exp = "ok:%d" % r if rep(k, x) and rep(k, r) else "reject"
                decls.append(Decl("dunt", (k, op, x), exp, "@DECL@ = %s%s(%s)" % (USYM[op], T(k), lit_text(rng, x)), run=("un", k, op, x)))
                r = exact_un(op, x, 0)
                exp = "ok:%d" % r if rep(k, r) else "reject"
                decls.append(Decl("dunu", (k, op, x), exp, "@DECL@ %s = %s%s" % (T(k), USYM[op], lit_text(rng, x))))
        # conversions K2(K(x))
        for k2 in KINDS:
            for x in sorted(set([lo, hi, 0, hi + 1, lo - 1] + rng.sample(pool, min(len(pool), n)))):
                exp = "ok:%d" % x if rep(k, x) and rep(k2, x) else "reject"
                decls.append(Decl("dconv", (k, k2, x), exp, "@DECL@ = %s(%s(%s))" % (T(k2), T(k), lit_text(rng, x)), run=("conv", k, k2, x)))
        # comparisons
        for c in CMPS:
            for _ in range(n * 2):
                x = rng.choice(inr if rng.random() < 0.9 else pool)
                y = rng.choice([x, x + 1, x - 1, rng.choice(inr)])
                exp = ("ok:%s" % ("true" if exact_cmp(c, x, y) else "false")) if rep(k, x) and rep(k, y) else "reject"
                decls.append(Decl("dcmp", (k, c, x, y), exp, "@DECL@ = %s(%s) %s %s(%s)" % (T(k), lit_text(rng, x), SYM[c], T(k), lit_text(rng, y)),
                                  run=("cmp", k, c, x, y)))
        # untyped rational quotient assigned to an integer type: const c K = n / d.0
        for _ in range(n * 4):
            d = rng.choice([0, 1, -1, 2, 3, 7, -4, 1 << 20])
            q = rng.choice(pool)
            nn = q * d + rng.choice([0, 0, 0, 1, -1]) if d else q
            exp = "ok:%d" % (nn // d) if d != 0 and nn % d == 0 and rep(k, nn // d) else "reject"
            dt = "%d.0" % d if d >= 0 else "(-%d.0)" % -d
            decls.append(Decl("drat", (k, nn, d), exp, "@DECL@ %s = %s / %s" % (T(k), lit_text(rng, nn), dt)))
    rng.shuffle(decls)
    return decls


def write_decl_files(ctx, decls, per_file=250):
    files = []
    for fi in range(0, len(decls), per_file):
        chunk = decls[fi:fi + per_file]
        usevar = [(i % 7 == 3) for i in range(len(chunk))]
        paths = {}
        for lang in ("wa", "go"):
            src = "package main\n\n" + "\n".join(d.render(i, lang, usevar[i]) for i, d in enumerate(chunk)) + "\n\nfunc main() {}\n"
            d = os.path.join(ctx.tmp, "decl%d_%s" % (fi, lang))
            os.makedirs(d, exist_ok=True)
            p = os.path.join(d, "main.wa.go" if lang == "wa" else "main.go")
            with open(p, "w") as f:
                f.write(src)
            paths[lang] = p
        files.append((chunk, paths))
    return files


# ------------------------------------------------------------------ stage C: fold vs run time on the real compiler
def fn_name(run):
    kind = run[0]
    if kind == "conv":
        return "cv_%s_%s" % (run[1], run[2])
    return "%s_%s_%s" % (kind, run[2], run[1])


def fn_src(run):
    kind, k = run[0], run[1]
    if kind == "bin":
        return "func %s(x, y %s) %s { return x %s y }" % (fn_name(run), k, k, SYM[run[2]])
    if kind == "shift":
        return "func %s(x %s, s uint32) %s { return x %s s }" % (fn_name(run), k, k, SYM[run[2]])
    if kind == "un":
        return "func %s(x %s) %s { return %sx }" % (fn_name(run), k, k, USYM[run[2]])
    if kind == "cmp":
        return "func %s(x, y %s) bool { return x %s y }" % (fn_name(run), k, SYM[run[2]])
    if kind == "conv":
        return "func %s(x %s) %s { return %s(x) }" % (fn_name(run), k, run[2], run[2])
    raise ValueError(kind)


def plain(v):
    return "%d" % v


def run_exprs(run):
    """(constant expression text, call text)"""
    kind, k = run[0], run[1]
    if kind == "bin":
        _, _, op, x, y = run
        return "%s(%s) %s %s(%s)" % (k, plain(x), SYM[op], k, plain(y)), "%s(%s, %s)" % (fn_name(run), plain(x), plain(y))
    if kind == "shift":
        _, _, op, x, s = run
        return "%s(%s) %s %d" % (k, plain(x), SYM[op], s), "%s(%s, %d)" % (fn_name(run), plain(x), s)
    if kind == "un":
        _, _, op, x = run
        return "%s%s(%s)" % (USYM[op], k, plain(x)), "%s(%s)" % (fn_name(run), plain(x))
    if kind == "cmp":
        _, _, c, x, y = run
        return "%s(%s) %s %s(%s)" % (k, plain(x), SYM[c], k, plain(y)), "%s(%s, %s)" % (fn_name(run), plain(x), plain(y))
    if kind == "conv":
        _, _, k2, x = run
        return "%s(%s(%s))" % (k2, k, plain(x)), "%s(%s)" % (fn_name(run), plain(x))
    raise ValueError(kind)


def lean_run_op(run):
    kind, k = run[0], run[1]
    ts = "%d %s" % (kbits(k), "s" if k in SIGNEDK else "u")
    if kind == "bin":
        return "qw0 rbin %s %s %d %d" % (ts, run[2], run[3], run[4])
    if kind == "shift":
        return "qw0 rshift %s %s %d %d" % (ts, run[2], run[3], run[4])
    if kind == "un":
        return "qw0 run %s %s %d" % (ts, run[2], run[3])
    if kind == "cmp":
        return "qw0 rcmp %s %s %d %d" % (ts, run[2], run[3], run[4])
    if kind == "conv":
        k2 = run[2]
        return "qw0 rconv %s %d %s %d" % (ts, kbits(k2), "s" if k2 in SIGNEDK else "u", run[3])
    raise ValueError(kind)


def build_run_program(cases):
    """cases: list of (run, expected string).  One output line per case: <folded> <run-time> <global>"""
    fns, seen = [], set()
    for run, _ in cases:
        nm = fn_name(run)
        if nm not in seen:
            seen.add(nm)
            fns.append(fn_src(run))
    glob, body = [], []
    for i, (run, _) in enumerate(cases):
        ce, call = run_exprs(run)
        glob.append("var g%d = %s" % (i, ce))
        body.append("\tprintln(%s, %s, g%d)" % (ce, call, i))
    return "package main\n\n" + "\n".join(fns) + "\n\n" + "\n".join(glob) + "\n\nfunc main() {\n" + "\n".join(body) + "\n}\n"


def run_wa(ctx, warun, src, tag):
    d = os.path.join(ctx.tmp, tag)
    os.makedirs(d, exist_ok=True)
    wf = os.path.join(d, "prog.wa.go")
    with open(wf, "w") as f:
        f.write(src)
    try:
        p = subprocess.run([warun, "run", wf], stdout=subprocess.PIPE, stderr=subprocess.PIPE, text=True, timeout=300)
        return ("ok" if p.returncode == 0 else "err:%d" % p.returncode), p.stdout.splitlines(), p.stderr[-600:]
    except subprocess.TimeoutExpired:
        return "timeout", [], ""


def run_go(ctx, src, tag):
    d = os.path.join(ctx.tmp, tag)
    os.makedirs(d, exist_ok=True)
    with open(os.path.join(d, "main.go"), "w") as f:
        f.write(src)
    env = dict(GOENV, GOFLAGS="-mod=mod", GO111MODULE="off", GOCACHE=os.environ.get("GOCACHE", os.path.expanduser("~/.cache/go-build")))
    try:
        p = vlib.go_run(d, env, 300)
        return ("ok" if p.returncode == 0 else "err:%d" % p.returncode), p.stderr.splitlines()      # println writes to stderr
    except subprocess.TimeoutExpired:
        return "timeout", []


def go_vet(ctx, src, tag):
    d = os.path.join(ctx.tmp, tag)
    os.makedirs(d, exist_ok=True)
    with open(os.path.join(d, "main.go"), "w") as f:
        f.write(src)
    env = dict(GOENV, GOFLAGS="-mod=mod", GO111MODULE="off", GOCACHE=os.environ.get("GOCACHE", os.path.expanduser("~/.cache/go-build")))
    p = subprocess.run(["go", "vet", "main.go"], cwd=d, stdout=subprocess.PIPE, stderr=subprocess.STDOUT, text=True, timeout=300, env=env)
    return p.returncode, p.stdout


def global_defect_key(k, v):
    """root-cause classes of the data-segment materialisation defect (wir aBasic.Bin)"""
    if k == "int64" and not (-32 <= v <= 31):
        return "global-init:int64:parseint-bitsize-6"
    if k == "uint64" and v >= (1 << 63):
        return "global-init:uint64:ge-2^63-parsed-as-0"
    return "global-init:%s:wrong-value" % k


# ------------------------------------------------------------------ stage D: float / complex exploration
def gen_float_ops(ctx):
    rng = ctx.rng
    lits = ["0.0", "1.0", "0.5", "0.1", "1e10", "1e100", "1e308", "1e309", "1e-320", "1e-400", "3.14159", "2.5", "1e400", "0x1p-1074", "0x1.fffffffffffffp1023",
            "16777217.0", "1.5i", "2i", "0.1i", "1e40", "3.4028235e38", "3.4028236e38", "1", "3", "7", "-2.5", "-1e308", "123456789012345678901234567890.0"]
    ops = []
    for _ in range(150 if ctx.tier == "quick" else 2000):
        ops.append("fbin %s %s %s" % (rng.choice(["add", "sub", "mul", "quo"]), rng.choice(lits), rng.choice(lits)))
    for l in lits:
        ops.append("fconv toint %s" % l)
        ops.append("fconv tofloat %s" % l)
    return ops



# ------------------------------------------------------------------ stage E: typed FLOAT constant expressions (no Lean theorem)
from fractions import Fraction
import struct

FFMT = {"float32": (24, -149, 128), "float64": (53, -1074, 1024)}     # precision, exponent of the smallest ulp, overflow threshold 2^emax
FOPS = {"add": "+", "sub": "-", "mul": "*", "quo": "/"}
FINTS = ["int32", "int64", "uint8", "uint32", "uint64"]
F32LITS = ["0.1", "0.2", "0.3", "0.7", "1", "2", "3", "7", "0.5", "1.5", "16777215", "16777216", "16777217", "16777219", "33554434", "8388608.5",
           "1e-45", "1.4e-45", "2.1e-45", "1e-40", "1.1754944e-38", "1.1754942e-38", "1e-30", "1e-50", "3.4028235e38", "3.4028234e38", "1e38", "2e38",
           "1e31", "1.1e31", "1e20", "123456789", "0.333333333333", "1e39", "4294967296", "9223372036854775807", "255", "256", "2.5", "2147483648", "2147483520"]
F64LITS = ["0.1", "0.2", "0.3", "0.7", "1", "2", "3", "7", "0.5", "1.5", "9007199254740992", "9007199254740993", "9007199254740995", "1e16", "1e300", "1e-300",
           "4.9e-324", "1e-320", "2.2250738585072014e-308", "1.7976931348623157e308", "1e308", "1e292", "1.0e-400", "1e309", "123456789.123456789",
           "16777217", "3.4028235e38", "3.4028236e38", "1e-45", "18446744073709551615", "9223372036854775807", "9223372036854775808", "255.5", "256", "2147483647"]


def fround(fr, kind):
    """round an exact rational to the nearest value of the IEEE format (ties to even); None = overflows"""
    p, emin, emax = FFMT[kind]
    if fr == 0:
        return Fraction(0)
    sg = -1 if fr < 0 else 1
    a = abs(fr)
    e = a.numerator.bit_length() - a.denominator.bit_length()
    while Fraction(2) ** e > a:
        e -= 1
    while Fraction(2) ** (e + 1) <= a:
        e += 1
    ue = max(e - (p - 1), emin)
    q = a / Fraction(2) ** ue
    n = q.numerator // q.denominator
    rem = q - n
    if rem > Fraction(1, 2) or (rem == Fraction(1, 2) and n % 2 == 1):
        n += 1
    r = n * Fraction(2) ** ue
    if r >= Fraction(2) ** emax:
        return None
    return sg * r


def fbits(fr, kind):
    if kind == "float32":
        return struct.unpack(">I", struct.pack(">f", float(fr)))[0]
    return struct.unpack(">Q", struct.pack(">d", float(fr)))[0]


def fexact_op(op, a, b):
    if op == "add":
        return a + b
    if op == "sub":
        return a - b
    if op == "mul":
        return a * b
    return None if b == 0 else a / b


def flit(v):
    """float spelling of a literal (so that untyped operands are untyped FLOAT constants)"""
    t = v.lstrip("-")
    if not any(c in t for c in ".e"):
        t += ".0"
    return "(-%s)" % t if v.startswith("-") else t


class FDecl:
    """a generated float constant declaration: text (same for Wa and Go), oracle verdict, run-time twin"""
    __slots__ = ("shape", "kind", "text", "expect", "fn", "call", "rkind", "key")

    def __init__(self, shape, kind, text, expect, fn=None, call=None, rkind=None):
        self.shape, self.kind, self.text, self.expect, self.fn, self.call, self.rkind = shape, kind, text, expect, fn, call, rkind
        self.key = "%s:%s" % (shape, kind)


def gen_float_decls(ctx):
    rng = ctx.rng
    quick = ctx.tier == "quick"
    out = []

    def sgn(v):
        return "-" + v if rng.random() < 0.2 else v
    for kind, lits in (("float32", F32LITS), ("float64", F64LITS)):
        # typed chains ((K(a) op K(b)) op K(c)) [op K(d)]: rounded to K after every step
        corner = [(["add", "add"], ["16777216", "1", "1"]), (["add", "sub"], ["0.1", "0.2", "0.3"]), (["mul", "quo"], ["0.1", "3", "3"]),
                  (["add", "add"], ["9007199254740992", "1", "1"]), (["add", "sub"], ["3.4028235e38", "1e31", "1e31"]),
                  (["add", "sub"], ["3.4028235e38", "1.1e31", "1.1e31"]), (["mul", "mul"], ["1e-30", "1e-30", "1e30"]),
                  (["quo", "mul"], ["1", "3", "3"]), (["add", "add", "add"], ["16777216", "1", "1", "1"]), (["quo", "add"], ["1", "1e-50", "1"]),
                  (["mul", "quo"], ["1e38", "10", "10"]), (["mul", "quo"], ["1e300", "1e10", "1e10"]), (["sub", "mul"], ["1.5", "1.4e-45", "0.5"]),
                  (["add", "add"], ["0.1", "0.2", "0.3"]), (["mul", "add"], ["1.1754944e-38", "0.5", "1e-45"]), (["mul", "mul"], ["4.9e-324", "0.5", "2"])]
        n = (70 if quick else 900)
        seqs = [c for c in corner]
        while len(seqs) < len(corner) + n:
            k = rng.choice([2, 2, 2, 3])
            seqs.append(([rng.choice(list(FOPS)) for _ in range(k)], [sgn(rng.choice(lits)) for _ in range(k + 1)]))
        for ops, vals in seqs:
            acc, ok = None, True
            for i, v in enumerate(vals):
                x = fround(Fraction(v), kind)
                if x is None:
                    ok = False
                    break
                if i == 0:
                    acc = x
                else:
                    r = fexact_op(ops[i - 1], acc, x)
                    r = None if r is None else fround(r, kind)
                    if r is None:
                        ok = False
                        break
                    acc = r
            e = "%s(%s)" % (kind, vals[0])
            body = "a0"
            for i, op in enumerate(ops):
                e = "(%s %s %s(%s))" % (e, FOPS[op], kind, vals[i + 1])
                body = "(%s %s a%d)" % (body, FOPS[op], i + 1)
            nm = "fc_%s_%s" % (kind, "_".join(ops))
            fn = "func %s(%s %s) %s { return %s }" % (nm, ", ".join("a%d" % i for i in range(len(vals))), kind, kind, body)
            out.append(FDecl("fchain%d" % len(ops), kind, "@DECL@ = " + e, ("ok", acc) if ok else "reject",
                             fn=fn, call="%s(%s)" % (nm, ", ".join(vals)), rkind=kind))
            # the same operators on UNTYPED float constants: exact rational arithmetic, rounded once at the declaration
            acc, ok = Fraction(vals[0]), True
            e = flit(vals[0])
            for i, op in enumerate(ops):
                acc = fexact_op(op, acc, Fraction(vals[i + 1]))
                if acc is None:
                    ok = False
                    break
                e = "(%s %s %s)" % (e, FOPS[op], flit(vals[i + 1]))
            if ok:
                acc = fround(acc, kind)
            if rng.random() < 0.5:
                out.append(FDecl("fchainu%d" % len(ops), kind, "@DECL@ %s = %s" % (kind, e), ("ok", acc) if ok and acc is not None else "reject"))
        # conversions K2(K1(v)) of values that are not exact in the narrower type
        other = "float64" if kind == "float32" else "float32"
        for v in lits + ["-" + l for l in lits[:: 3]]:
            x = fround(Fraction(v), kind)
            # float -> other float
            y = None if x is None else fround(x, other)
            out.append(FDecl("fconv", "%s_%s" % (kind, other), "@DECL@ = %s(%s(%s))" % (other, kind, v), ("ok", y) if y is not None else "reject",
                             fn="func fcv_%s_%s(x %s) %s { return %s(x) }" % (kind, other, kind, other, other), call="fcv_%s_%s(%s)" % (kind, other, v), rkind=other))
            # float -> integer: only integral values in range are constants
            for ik in rng.sample(FINTS, 2):
                okc = x is not None and x.denominator == 1 and rep(ik, int(x))
                out.append(FDecl("fconv", "%s_%s" % (kind, ik), "@DECL@ = %s(%s(%s))" % (ik, kind, v), ("ok", Fraction(int(x))) if okc else "reject",
                                 fn="func fcv_%s_%s(x %s) %s { return %s(x) }" % (kind, ik, kind, ik, ik), call="fcv_%s_%s(%s)" % (kind, ik, v), rkind=ik))
        # integer -> float: rounding of integers that are not exact in the float type
        for ik in FINTS:
            lo, hi = krange(ik)
            for v in sorted(set([hi, hi - 1, lo, 16777217, 16777219, 33554435, 9007199254740993, 9007199254740995, 4294967295, 2147483647, 255, 0, 1,
                                 (1 << 63) + 1025, (1 << 63) - 513] + [rng.randint(lo, hi) for _ in range(4 if quick else 40)])):
                okc = rep(ik, v)
                y = fround(Fraction(v), kind) if okc else None
                out.append(FDecl("fconv", "%s_%s" % (ik, kind), "@DECL@ = %s(%s(%d))" % (kind, ik, v), ("ok", y) if y is not None else "reject",
                                 fn="func fcv_%s_%s(x %s) %s { return %s(x) }" % (ik, kind, ik, kind, kind), call="fcv_%s_%s(%d)" % (ik, kind, v), rkind=kind))
    rng.shuffle(out)
    return out


def fparse_verdict(v):
    """harness verdict -> ('ok', Fraction) | 'reject'"""
    if not v.startswith("ok:"):
        return "reject"
    t = v[3:]
    if t.startswith("f"):
        t = t[1:]
    try:
        return ("ok", Fraction(t))
    except (ValueError, ZeroDivisionError):
        return ("ok?", t)


def fbits_expr(e, rkind):
    if rkind == "float32":
        return "math.Float32bits(%s)" % e
    if rkind == "float64":
        return "math.Float64bits(%s)" % e
    return e


def fexpect_print(val, rkind):
    if rkind in ("float32", "float64"):
        return str(fbits(val, rkind))
    return str(int(val))


def build_float_program(cases):
    fns, seen = [], set()
    for d in cases:
        if d.fn not in seen:
            seen.add(d.fn)
            fns.append(d.fn)
    glob, body = [], []
    for i, d in enumerate(cases):
        ce = d.text.replace("@DECL@ = ", "")
        glob.append("var g%d = %s" % (i, ce))
        body.append("\tprintln(%s, %s, %s)" % (fbits_expr(ce, d.rkind), fbits_expr(d.call, d.rkind), fbits_expr("g%d" % i, d.rkind)))
    return "package main\n\nimport \"math\"\n\nvar _ = math.Pi\n\n" + "\n".join(fns) + "\n\n" + "\n".join(glob) + "\n\nfunc main() {\n" + "\n".join(body) + "\n}\n"


# ------------------------------------------------------------------ the check
def replay(ctx, h, warun):
    """re-run one recorded failing input on the real code and report whether it still fails"""
    import json
    r = json.load(open(ctx.replay))
    rp = r.get("replay", r)
    if "op" in rp:
        _, out, _ = ctx.run_bin(h, input_text=rp["op"] + "\n")
        got = out.strip()
        exp = rp.get("exact") or const_expected(parse_op(rp["op"][2:]))
        print("replay op %r -> %r (exact %r)" % (rp["op"], got, exp))
        if got != exp:
            ctx.violation(r.get("key", "replay"), "replay: %s -> %s, exact %s" % (rp["op"], got, exp), rp)
    elif "decl" in rp:
        p = os.path.join(ctx.tmp, "replay.wa.go")
        with open(p, "w") as f:
            f.write("package main\n\n" + rp["decl"] + "\n\nfunc main() {}\n")
        _, out, _ = ctx.run_bin(h, input_text="w chk %s %d\n" % (p, WORD))
        got = out.strip()
        exp = rp.get("exact")
        print("replay decl %r -> %r (exact %r)" % (rp["decl"], got, exp))
        if (exp == "reject") != (not got.startswith("ok:")) or (got.startswith("ok:") and got != exp):
            ctx.violation(r.get("key", "replay"), "replay: `%s` -> %s, exact %s" % (rp["decl"], got, exp), rp)
    elif "program" in rp:
        wst, wl, werr = run_wa(ctx, warun, rp["program"], "replay")
        print("replay program -> %s %r" % (wst, wl[:5]))
        exp = rp.get("expected") or rp.get("exact")
        if wst != "ok" or (exp is not None and " ".join(wl).split() != str(exp).split()):
            ctx.violation(r.get("key", "replay"), "replay: program prints %r, expected %r" % (wl[:3], exp), rp)
    elif "expr" in rp:
        src = "package main\n\n%s\n\nfunc main() {\n\tprintln(%s, %s)\n}\n" % (rp.get("fn", ""), rp["expr"], rp.get("call", rp["expr"]))
        wst, wl, werr = run_wa(ctx, warun, src, "replay")
        print("replay expr -> %s %r" % (wst, wl[:2]))
        f = wl[0].split() if wl else []
        if wst != "ok" or len(f) != 2 or f[0] != f[1] or (rp.get("exact") and f[0] != rp["exact"]):
            ctx.violation(r.get("key", "replay"), "replay: `%s` prints %r (folded, run time); exact %s" % (rp["expr"], f, rp.get("exact")), rp)
    return ctx.finish("proof", {"evaluations": 1, "distinct_nontrivial": 1, "rule": "replay of one recorded input", "samples": [rp], "distribution": {}})


def run(ctx):
    h = ctx.build_harness("c15")
    warun = ctx.build_harness("warun")
    if ctx.replay:
        return replay(ctx, h, warun)
    ctx.prove(required=REQUIRED)
    m = ctx.build_model("c15")
    dist = {}
    import time
    tm = {"t": ctx.t0}

    def lap(name):
        now = time.time()
        dist["time_s:" + name] = round(now - tm["t"], 1)
        tm["t"] = now
    lap("build+prove")
    nontrivial = set()
    samples = []
    evaluations = 0

    def hrun(lines):
        _, out, err = ctx.run_bin(h, input_text="\n".join(lines) + "\n")
        o = out.splitlines()
        if len(o) != len(lines):
            raise vlib.InfraError("harness c15 returned %d lines for %d ops: %s" % (len(o), len(lines), err[-500:]))
        return o

    def mrun(lines):
        if not m:
            return None
        _, out, _ = ctx.run_bin(m, input_text="\n".join(lines) + "\n")
        return out.splitlines()

    # ---- which variant of the int64 quotient does the code have?  (Lean: const_int_exact_quo_minint_wrong)
    probe = hrun(["w bin quo -9223372036854775808 -1", "b bin quo -9223372036854775808 -1", "g bin quo -9223372036854775808 -1"])
    qw = "qw1" if probe[0] == "ok -9223372036854775808" else "qw0"
    dist["binaryop_variant"] = qw
    if probe[0] != probe[1]:
        ctx.violation("binaryop:int64-quo-minint-by-minus1",
                      "constant.BinaryOp(MinInt64, QUO_ASSIGN, -1) = %s; exact value (math/big) is %s" % (probe[0], probe[1]),
                      {"op": "w bin quo -9223372036854775808 -1", "impl": probe[0], "math/big": probe[1], "go/constant": probe[2]})

    # ---- stage A: constant package vs exact arithmetic vs go/constant vs math/big vs Lean
    cops = corpus_ops() + gen_const_ops(ctx)
    wl = ["w " + opline(o) for o in cops]
    wout = hrun(wl)
    refl, refidx = [], []
    for i, o in enumerate(cops):
        if o[0] in ("bin", "un", "shift", "cmp", "ratint", "bitlen", "sign", "lit"):
            refl.append("b " + opline(o)); refidx.append((i, "math/big"))
        if o[0] != "repr":
            refl.append("g " + opline(o)); refidx.append((i, "go/constant"))
    rout = hrun(refl)
    ref_disagree = {}
    for (i, who), r in zip(refidx, rout):
        exp = const_expected(cops[i])
        if exp is not None and r != exp:
            ref_disagree.setdefault(who, []).append("%s -> %s (exact: %s)" % (opline(cops[i]), r, exp))
    for who, l in ref_disagree.items():
        ctx.notes.append("reference %s differs from exact arithmetic on %d ops, e.g. %s" % (who, len(l), l[0]))
    dist["stageA_ops"] = len(cops)
    for o, r in zip(cops, wout):
        evaluations += 1
        dist["A:" + o[0]] = dist.get("A:" + o[0], 0) + 1
        exp = const_expected(o)
        ints = [a for a in o[1:] if isinstance(a, int)]
        nontrivial.add((o[0], o[1] if isinstance(o[1], str) else "", tuple(vclass(a) for a in ints[:2])))
        if exp is not None and r != exp:
            if o[0] == "bin" and o[1] == "quo" and o[2] == -(1 << 63) and o[3] == -1:
                key = "binaryop:int64-quo-minint-by-minus1"
            else:
                key = "constant:%s%s:not-exact" % (o[0], (":" + o[1]) if isinstance(o[1], str) and o[0] != "lit" else "")
            ctx.violation(key, "constant package: %s -> %s, exact arithmetic gives %s" % (opline(o), r, exp),
                          {"op": "w " + opline(o), "impl": r, "exact": exp})
    samples += [{"op": "w " + opline(o), "impl": r} for o, r in list(zip(cops, wout))[:: max(1, len(cops) // 6)]][:6]
    mo = mrun([qw + " " + opline(o) for o in cops])
    if mo is not None:
        for i, op, a, b in ctx.diff_lines(wl, wout, mo)[:20]:
            ctx.proof["broken"].append({"theorem": "correspondence C15 model vs internal/constant", "why": "op %r impl=%r model=%r" % (op, a, b)})

    lap("stageA")
    # ---- stage B: the checker's verdict on generated declarations
    decls = gen_decls(ctx)
    files = write_decl_files(ctx, decls)
    lines = []
    for chunk, paths in files:
        lines.append("w chk %s %d" % (paths["wa"], WORD))
        lines.append("g chk %s %d" % (paths["go"], WORD))
    out = hrun(lines)
    wa_verdicts, go_verdicts = [], []
    for fi, (chunk, paths) in enumerate(files):
        wv, gv = out[2 * fi].split(), out[2 * fi + 1].split()
        if len(wv) != len(chunk) or out[2 * fi].startswith("parse-error"):
            ctx.violation("checker:generated-file-not-processed", "type-checking the generated declaration file did not yield one verdict per declaration: %s" % out[2 * fi][:300],
                          {"file": open(paths["wa"]).read(), "impl": out[2 * fi][:2000]})
            wv = ["missing"] * len(chunk)
        if len(gv) != len(chunk):
            raise vlib.InfraError("go/types reference failed on generated file: %s" % out[2 * fi + 1][:500])
        wa_verdicts += wv
        go_verdicts += gv
    dmodel = mrun([d.model_op(qw) for d in decls])
    dist["stageB_decls"] = len(decls)
    go_diff = 0
    accepted_runs = []
    for i, d in enumerate(decls):
        evaluations += 1
        wv, gv = wa_verdicts[i], go_verdicts[i]
        dist["B:" + d.shape] = dist.get("B:" + d.shape, 0) + 1
        acc = wv.startswith("ok:")
        dist["B:accepted" if acc else "B:rejected:" + wv] = dist.get("B:accepted" if acc else "B:rejected:" + wv, 0) + 1
        ints = [a for a in d.args if isinstance(a, int)]
        nontrivial.add((d.shape,) + tuple(a for a in d.args if isinstance(a, str)) + tuple(vclass(a) for a in ints[:2]) + (acc,))
        exp = d.expect
        if (exp == "reject") != (not acc) or (acc and wv != exp):
            minq = hits_minq(d)
            if minq:
                key = "binaryop:int64-quo-minint-by-minus1"
            elif acc and exp == "reject":
                key = "checker:%s:accepts-unrepresentable" % d.shape
            elif not acc:
                key = "checker:%s:rejects-representable" % d.shape
            else:
                key = "checker:%s:wrong-folded-value" % d.shape
            ctx.violation(key, "declaration `%s`: checker says %s, exact arithmetic / representability says %s" % (d.render(0, "wa"), wv, exp),
                          {"decl": d.render(0, "wa"), "impl": wv, "exact": exp, "go/types": gv})
        elif acc and d.run is not None:
            accepted_runs.append(d)
        if dmodel is not None and i < len(dmodel) and dmodel[i] != wv:
            ctx.proof["broken"].append({"theorem": "correspondence C15 checker model vs internal/types", "why": "decl %r impl=%r model=%r" % (d.render(0, "wa"), wv, dmodel[i])})
            ctx.corr["diffs"] += 1
        if gv.startswith("ok:") != acc or (acc and gv != wv):
            go_diff += 1
            if go_diff <= 3:
                ctx.notes.append("go/types disagrees with Wa's checker on `%s`: go=%s wa=%s (exact: %s)" % (d.render(0, "go"), gv, wv, exp))
    ctx.corr["lines"] += len(decls)
    dist["B:go_types_disagreements"] = go_diff
    samples += [{"decl": d.render(0, "wa"), "impl": wa_verdicts[i], "go/types": go_verdicts[i]} for i, d in list(enumerate(decls))[:: max(1, len(decls) // 6)]][:6]

    # the public driver entry point (api.LoadProgramFile) on a sample, one declaration per file
    napi = 40 if ctx.tier == "quick" else 300
    sample = ctx.rng.sample(range(len(decls)), min(napi, len(decls)))
    alines = []
    for j, i in enumerate(sample):
        p = os.path.join(ctx.tmp, "api%d.wa.go" % j)
        with open(p, "w") as f:
            f.write("package main\n\n" + decls[i].render(0, "wa") + "\n\nfunc main() {}\n")
        alines.append("w apichk " + p)
    for i, r in zip(sample, hrun(alines)):
        evaluations += 1
        wv = wa_verdicts[i]
        if (r == "ok") != wv.startswith("ok:") or (r != "ok" and r != wv):
            ctx.violation("checker:api-differs-from-types-package", "api.LoadProgramFile reports %s for `%s`, direct types.Config.Check reports %s" % (r, decls[i].render(0, "wa"), wv),
                          {"decl": decls[i].render(0, "wa"), "api": r, "types": wv})
    dist["B:api_LoadProgramFile"] = len(sample)
    # `go vet` itself on the Go text: all accepted declarations in one file must vet clean; a few rejected ones must be reported
    accd = [d for i, d in enumerate(decls) if wa_verdicts[i].startswith("ok:") and go_verdicts[i].startswith("ok:")][:120]
    wordk = ("int", "uint", "uintptr")        # `go vet` checks with the host's 64-bit int: only explicit widths are comparable
    rejd = [d for i, d in enumerate(decls) if not wa_verdicts[i].startswith("ok:") and not go_verdicts[i].startswith("ok:")
            and not any(a in wordk for a in d.args if isinstance(a, str))][:8]
    rc, o = go_vet(ctx, "package main\n\n" + "\n".join(d.render(i, "go") for i, d in enumerate(accd)) + "\n\nfunc main() {}\n", "vet_acc")
    if rc != 0:
        ctx.notes.append("go vet rejects declarations that go/types (harness) and Wa accept: %s" % o[-400:])
    dist["B:go_vet_accepted_file_rc"] = rc
    with cf.ThreadPoolExecutor(4) as ex:
        vres = list(ex.map(lambda a: go_vet(ctx, "package main\n\n" + a[1].render(0, "go") + "\n\nfunc main() {}\n", "vet_rej%d" % a[0]), enumerate(rejd[:4])))
    dist["B:go_vet_rejected_decls"] = len(vres)
    dist["B:go_vet_rejected_reported"] = sum(1 for rc, o in vres if rc != 0 and "main.go:3:" in o)
    if dist["B:go_vet_rejected_reported"] != len(vres):
        ctx.notes.append("go vet accepts a declaration that go/types (harness) and Wa reject: %s" % [o[-200:] for rc, o in vres if rc == 0][:1])
    lap("stageB")
    # ---- stage C: folded constant vs run-time evaluation vs global initialiser, on the real compiler
    def runnable(d):
        r = d.run
        ks = [r[1]] + ([r[2]] if r[0] == "conv" else [])
        if any(k not in RUNK_BOTH + RUNK_WA for k in ks):
            return False
        if r[0] == "shift" and not (0 <= r[4] < (64 if kbits(r[1]) == 64 else 32)):
            return False                 # counts >= register width: separate probe (C01's shift finding)
        return True
    cand = [d for d in accepted_runs if runnable(d)]
    ctx.rng.shuffle(cand)
    ncase = 700 if ctx.tier == "quick" else 6000
    # keep a balanced selection over (shape, kind)
    by = {}
    for d in cand:
        by.setdefault((d.run[0], d.run[1]), []).append(d)
    sel = []
    while len(sel) < ncase and any(by.values()):
        for key in sorted(by):
            if by[key] and len(sel) < ncase:
                sel.append(by[key].pop())
    both = [d for d in sel if all(k in RUNK_BOTH for k in ([d.run[1]] + ([d.run[2]] if d.run[0] == "conv" else [])))]
    waonly = [d for d in sel if d not in both]
    nch = 6 if ctx.tier == "quick" else 24
    progs = []
    for grp, tag, withgo in ((both, "both", True), (waonly, "wa", False)):
        k = max(1, min(nch, len(grp) // 20 or 1))
        for ci in range(k):
            ch = grp[ci::k]
            if ch:
                progs.append((ch, build_run_program([(d.run, d.expect) for d in ch]), "%s%d" % (tag, ci), withgo))

    def exec_prog(a):
        ch, src, tag, withgo = a
        w = run_wa(ctx, warun, src, "run_" + tag)
        g = run_go(ctx, src, "gorun_" + tag) if withgo else None
        return w, g
    with cf.ThreadPoolExecutor(12) as ex:
        res = list(ex.map(exec_prog, progs))
    lean_ops, lean_expect = [], []
    dist["stageC_cases"] = 0
    dist["C:global_wrong"] = 0
    for (ch, src, tag, withgo), ((wst, wlines, werr), g) in zip(progs, res):
        if g is not None and (g[0] != "ok" or len(g[1]) != len(ch)):
            raise vlib.InfraError("go run of fold-vs-runtime program %s failed: %s" % (tag, "\n".join(g[1])[-1500:]))
        if wst != "ok" or len(wlines) != len(ch):
            ctx.violation("fold-vs-runtime:wa-run-failed", "fold-vs-runtime program fails under Wa (%s) %s" % (wst, werr[-300:]),
                          {"program": src, "wa_status": wst, "wa_tail": wlines[-3:], "stderr": werr})
            continue
        for i, d in enumerate(ch):
            evaluations += 1
            dist["stageC_cases"] += 1
            dist["C:" + d.run[0] + ":" + d.run[1]] = dist.get("C:" + d.run[0] + ":" + d.run[1], 0) + 1
            exact = d.expect[3:]
            f = wlines[i].split()
            ce, call = run_exprs(d.run)
            if len(f) != 3:
                ctx.violation("fold-vs-runtime:bad-output", "case `%s` printed %r" % (ce, wlines[i]), {"expr": ce, "wa": wlines[i]})
                continue
            folded, rt, gl = f
            if folded != exact:
                ctx.violation("fold:%s:%s:wrong-value" % (d.run[0], d.run[1]), "println(%s) prints %s under Wa; exact value %s" % (ce, folded, exact),
                              {"expr": ce, "wa_folded": folded, "exact": exact, "program": "package main\nfunc main() { println(%s) }\n" % ce})
            if rt != folded:
                ctx.violation("fold-vs-runtime:%s:%s" % (d.run[0], d.run[1] if d.run[0] != "bin" else d.run[2] + ":" + d.run[1]),
                              "`%s` folds to %s but %s computes %s at run time (exact %s)" % (ce, folded, call, rt, exact),
                              {"expr": ce, "call": call, "fn": fn_src(d.run), "wa_folded": folded, "wa_runtime": rt, "exact": exact})
            if gl != exact:
                dist["C:global_wrong"] += 1
                kres = d.run[2] if d.run[0] == "conv" else ("bool" if d.run[0] == "cmp" else d.run[1])
                ctx.violation(global_defect_key(kres, int(exact) if exact not in ("true", "false") else 0),
                              "package-level `var g = %s` holds %s at run time; the constant's value is %s" % (ce, gl, exact),
                              {"program": "package main\n\nvar g = %s\n\nfunc main() { println(g) }\n" % ce, "wa": gl, "exact": exact})
            if g is not None:
                gf = g[1][i].split()
                if gf != [exact, exact, exact]:
                    ctx.notes.append("go run disagrees with exact arithmetic on `%s`: %s" % (ce, g[1][i]))
            lean_ops.append(lean_run_op(d.run))
            lean_expect.append(rt if d.run[0] == "cmp" else "ok " + rt)
    if m and lean_ops:
        mo = mrun(lean_ops)
        for i, op, a, b in ctx.diff_lines(lean_ops, lean_expect, mo)[:10]:
            ctx.proof["broken"].append({"theorem": "correspondence C15: Base/GoInt run-time semantics vs compiled Wa program",
                                        "why": "%s: real run gives %s, Lean gives %s" % (op, a, b)})
    # probe: run-time shift counts >= register width (C01's finding shows here as fold != run time)
    pr = [("shift", "uint8", "shr", 200, 33), ("shift", "int32", "shr", -8, 33), ("shift", "int64", "shr", -8, 65), ("shift", "uint32", "shr", 4000000000, 40)]
    src = build_run_program([(r, "") for r in pr])
    wst, wlines, werr = run_wa(ctx, warun, src, "probe_shift")
    if wst == "ok" and len(wlines) == len(pr):
        for r, l in zip(pr, wlines):
            f = l.split()
            evaluations += 1
            if len(f) == 3 and f[0] != f[1]:
                ctx.violation("fold-vs-runtime:shift-count-ge-width", "`%s` folds to %s but the compiled shift computes %s (count >= register width; C01 shift-count-ge-width)" % (
                    run_exprs(r)[0], f[0], f[1]), {"expr": run_exprs(r)[0], "fn": fn_src(r), "wa_folded": f[0], "wa_runtime": f[1]})
    else:
        ctx.notes.append("shift probe program failed under Wa: %s %s" % (wst, werr[-200:]))
    # probe: global initialisers, the two root causes in wir aBasic.Bin, independent of the generated selection
    gp = ("package main\n\ntype P struct {\n\ta int64\n\tb uint64\n}\n\nvar a int64 = 1000\nvar b int64 = -33\nvar c uint64 = 9223372036854775808\nvar d uint64 = 9223372036854775807\n"
          "var e int32 = -2147483648\nvar r rune = -1\nvar u uint32 = 4294967295\nvar h uint16 = 65535\nvar q uint8 = 255\n"
          "var ga = [2]int64{1000, -1000}\nvar gp = P{1000, 18446744073709551615}\n\n"
          "func main() {\n\tprintln(a, b, c, d, e, int64(r), u, h, q, ga[0], ga[1], gp.a, gp.b)\n}\n")
    wst, wlines, werr = run_wa(ctx, warun, gp, "probe_global")
    evaluations += 1
    if wst == "ok" and wlines:
        got = wlines[0].split()
        want = ["1000", "-33", "9223372036854775808", "9223372036854775807", "-2147483648", "-1", "4294967295", "65535", "255",
                "1000", "-1000", "1000", "18446744073709551615"]
        pick = lambda l, idx: [l[i] if i < len(l) else None for i in idx]
        i64i, u64i, runei = [0, 1, 9, 10, 11], [2, 12], [5]
        rest = [i for i in range(len(want)) if i not in i64i + u64i + runei]
        if pick(got, i64i) != pick(want, i64i):
            ctx.violation("global-init:int64:parseint-bitsize-6", "package-level int64 initialisers (scalar 1000, -33; array {1000,-1000}; struct field 1000) print %s "
                          "(wir aBasic.Bin parses the int64 text with bitSize 6)" % pick(got, i64i), {"program": gp, "wa": wlines[0], "expected": " ".join(want)})
        if pick(got, u64i) != pick(want, u64i):
            ctx.violation("global-init:uint64:ge-2^63-parsed-as-0", "package-level uint64 initialisers >= 2^63 (scalar, struct field) print %s "
                          "(getValue renders the value as a negative int, Bin's ParseUint fails -> 0)" % pick(got, u64i), {"program": gp, "wa": wlines[0], "expected": " ".join(want)})
        if pick(got, runei) != pick(want, runei):
            ctx.violation("global-init:rune:negative-parsed-as-0", "package-level `var r rune = -1` prints %s (wir aBasic.Bin parses rune constants with ParseUint)" % pick(got, runei),
                          {"program": gp, "wa": wlines[0], "expected": " ".join(want)})
        if pick(got, rest) != pick(want, rest) or len(got) != len(want):
            ctx.violation("global-init:other:wrong-value", "global initialisers print %s, expected %s" % (got, want), {"program": gp, "wa": wlines[0]})
    else:
        ctx.violation("global-init:probe-failed", "global initialiser probe fails under Wa: %s %s" % (wst, werr[-200:]), {"program": gp})
    lap("stageC")
    # ---- stage D: float / complex constants — explored against go/constant only (no theorem)
    fops = gen_float_ops(ctx)
    fw = hrun(["w " + o for o in fops])
    fg = hrun(["g " + o for o in fops])
    fdiff = [(o, a, b) for o, a, b in zip(fops, fw, fg) if a != b]
    dist["D:float_ops"] = len(fops)
    dist["D:float_differences_vs_go_constant"] = len(fdiff)
    evaluations += len(fops)
    for o, a, b in fdiff[:5]:
        ctx.notes.append("float/complex exploration: %s -> wa %s, go/constant %s" % (o, a, b))

    lap("stageD")
    # ---- stage E: typed FLOAT constant expressions: checker value vs exact-rational oracle (rounded to the type after every
    #      typed step) vs go/types, and folded constant vs the same operators on parameters vs global vs `go run` (bit patterns)
    fdecls = gen_float_decls(ctx)
    fsrc = "package main\n\n" + "\n".join(d.text.replace("@DECL@", "const c%d" % i) for i, d in enumerate(fdecls)) + "\n\nfunc main() {}\n"
    fdir = os.path.join(ctx.tmp, "fdecl")
    os.makedirs(fdir, exist_ok=True)
    fpw, fpg = os.path.join(fdir, "main.wa.go"), os.path.join(fdir, "main.go")
    for pth in (fpw, fpg):
        with open(pth, "w") as f:
            f.write(fsrc)
    fo = hrun(["w chk %s %d" % (fpw, WORD), "g chk %s %d" % (fpg, WORD)])
    fwv, fgv = fo[0].split(), fo[1].split()
    if len(fwv) != len(fdecls) or fo[0].startswith("parse-error"):
        ctx.violation("float:generated-file-not-processed", "type-checking the generated float declaration file did not yield one verdict per declaration: %s" % fo[0][:300],
                      {"file": fsrc, "impl": fo[0][:2000]})
        fwv = ["missing"] * len(fdecls)
    if len(fgv) != len(fdecls):
        raise vlib.InfraError("go/types reference failed on generated float file: %s" % fo[1][:500])
    dist["stageE_float_decls"] = len(fdecls)
    frun = []
    fgo_diff = 0
    for i, d in enumerate(fdecls):
        evaluations += 1
        got, gog = fparse_verdict(fwv[i]), fparse_verdict(fgv[i])
        dist["E:" + d.shape] = dist.get("E:" + d.shape, 0) + 1
        dist["E:accepted" if got != "reject" else "E:rejected"] = dist.get("E:accepted" if got != "reject" else "E:rejected", 0) + 1
        nontrivial.add(("float", d.key, d.text.split("=", 1)[1].strip()[:60]))
        decl = d.text.replace("@DECL@", "const c0")
        if got != d.expect:
            if got == "reject":
                key = "float:%s:rejects-representable" % d.key
            elif d.expect == "reject":
                key = "float:%s:accepts-unrepresentable" % d.key
            else:
                key = "float:%s:wrong-folded-value" % d.key
            ctx.violation(key, "declaration `%s`: checker gives %s; exact rational arithmetic rounded to the type after every typed step gives %s (go/types: %s)" % (
                decl, fwv[i], d.expect if d.expect == "reject" else "ok:%s" % d.expect[1], fgv[i]),
                {"decl": decl, "impl": fwv[i], "exact": "reject" if d.expect == "reject" else "ok:%s" % d.expect[1], "go/types": fgv[i]})
        elif got != "reject" and d.fn is not None:
            # float -> unsigned conversions of values >= half the unsigned range trap in the compiled program
            # (signed trunc instruction): probed separately below, a trap would take the whole program down
            k1, _, k2 = d.kind.partition("_")
            if d.shape == "fconv" and k1 in FFMT and k2 in ("uint32", "uint64") and d.expect[1] >= (1 << (kbits(k2) - 1)):
                dist["E:float_to_unsigned_ge_half_range_excluded"] = dist.get("E:float_to_unsigned_ge_half_range_excluded", 0) + 1
            else:
                frun.append(d)
        if gog != got:
            fgo_diff += 1
            if fgo_diff <= 3:
                ctx.notes.append("go/types disagrees with Wa's checker on float declaration `%s`: go=%s wa=%s" % (decl, fgv[i], fwv[i]))
    dist["E:go_types_disagreements"] = fgo_diff
    samples += [{"decl": d.text.replace("@DECL@", "const c0"), "impl": fwv[i], "go/types": fgv[i]} for i, d in list(enumerate(fdecls))[:: max(1, len(fdecls) // 4)]][:4]
    ctx.rng.shuffle(frun)
    frun = frun[: (360 if ctx.tier == "quick" else 3000)]
    nfp = 3 if ctx.tier == "quick" else 12
    fprogs = [(frun[i::nfp], build_float_program(frun[i::nfp]), "f%d" % i) for i in range(nfp) if frun[i::nfp]]

    def exec_fprog(a):
        ch, src, tag = a
        return run_wa(ctx, warun, src, "frun_" + tag), run_go(ctx, src, "fgorun_" + tag)
    with cf.ThreadPoolExecutor(6) as ex:
        fres = list(ex.map(exec_fprog, fprogs))
    dist["stageE_fold_vs_runtime_cases"] = 0
    for (ch, src, tag), ((wst, wlines, werr), (gst, glines)) in zip(fprogs, fres):
        if gst != "ok" or len(glines) != len(ch):
            raise vlib.InfraError("go run of float fold-vs-runtime program %s failed: %s" % (tag, "\n".join(glines)[-1500:]))
        if wst != "ok" or len(wlines) != len(ch):
            ctx.violation("float-fold-vs-runtime:wa-run-failed", "float fold-vs-runtime program fails under Wa (%s) %s" % (wst, werr[-300:]),
                          {"program": src, "wa_status": wst, "wa_tail": wlines[-3:], "stderr": werr})
            continue
        for d, wl_, gl_ in zip(ch, wlines, glines):
            evaluations += 1
            dist["stageE_fold_vs_runtime_cases"] += 1
            ce = d.text.replace("@DECL@ = ", "")
            want = fexpect_print(d.expect[1], d.rkind)
            wf, gf = wl_.split(), gl_.split()
            prog1 = "package main\n\nimport \"math\"\n\nvar _ = math.Pi\n\n%s\n\nfunc main() {\n\tprintln(%s, %s)\n}\n" % (d.fn, fbits_expr(ce, d.rkind), fbits_expr(d.call, d.rkind))
            if len(wf) != 3:
                ctx.violation("float-fold-vs-runtime:bad-output", "case `%s` printed %r" % (ce, wl_), {"expr": ce, "wa": wl_})
                continue
            # a constant has no negative zero: compare the run-time value modulo the sign of zero
            negz = {"float32": str(1 << 31), "float64": str(1 << 63)}.get(d.rkind)
            norm = lambda t: "0" if (negz is not None and t == negz) else t
            if wf[0] != want:
                ctx.violation("float-fold:%s:wrong-value" % d.key, "`%s` folds to bits %s under Wa; exact value rounded per step has bits %s (go run: %s)" % (ce, wf[0], want, gf[:1]),
                              {"expr": ce, "wa_folded": wf[0], "exact": want, "go": gl_, "program": prog1, "expected": want + " " + want})
            if norm(wf[1]) != norm(wf[0]):
                ctx.violation("float-fold-vs-runtime:%s" % d.key, "`%s` folds to bits %s but %s computes bits %s at run time (exact: %s; go run: %s)" % (ce, wf[0], d.call, wf[1], want, gl_),
                              {"expr": ce, "call": d.call, "fn": d.fn, "wa_folded": wf[0], "wa_runtime": wf[1], "exact": want, "go": gl_, "program": prog1, "expected": want + " " + want})
            if wf[2] != wf[0]:
                ctx.violation("float-global-init:%s" % d.key, "package-level `var g = %s` holds bits %s; the folded constant has bits %s" % (ce, wf[2], wf[0]),
                              {"expr": ce, "wa_global": wf[2], "wa_folded": wf[0], "exact": want})
            if wf != gf:
                if wf[1] != gf[1] and wf[0] == gf[0]:
                    ctx.violation("float-runtime-vs-go:%s" % d.key, "`%s`: Wa computes bits %s at run time, `go run` of the same text %s" % (d.call, wf[1], gf[1]),
                                  {"call": d.call, "fn": d.fn, "wa": wl_, "go": gl_})
                elif gf[0] != want:
                    ctx.notes.append("go run disagrees with the rational oracle on `%s`: %s (oracle %s)" % (ce, gl_, want))
    # probe: float -> unsigned integer conversion of an in-range value >= 2^(N-1)
    fprobe = [("float64", "uint64", "9223372036854775808"), ("float32", "uint32", "3000000000"), ("float64", "uint32", "4294967295"), ("float32", "uint64", "18446742974197923840")]

    def exec_probe(a):
        k1, k2, v = a
        src = "package main\n\nfunc cv(x %s) %s { return %s(x) }\n\nfunc main() {\n\tprintln(%s(%s(%s)), cv(%s))\n}\n" % (k1, k2, k2, k2, k1, v, v)
        return src, run_wa(ctx, warun, src, "fprobe_%s_%s" % (k1, k2))
    with cf.ThreadPoolExecutor(4) as ex:
        pres = list(ex.map(exec_probe, fprobe))
    for (k1, k2, v), (src, (wst, wl_, werr)) in zip(fprobe, pres):
        evaluations += 1
        want = str(int(fround(Fraction(v), k1)))
        got = wl_[0].split() if wl_ else []
        if wst != "ok" or got != [want, want]:
            ctx.violation("float-fold-vs-runtime:float-to-unsigned-ge-half-range",
                          "`%s(%s(%s))` folds to %s but the same conversion of a variable %s under Wa (EmitGenConvert uses the signed i32/i64.trunc_f* for unsigned targets)" % (
                              k2, k1, v, want, ("prints %s" % got) if wst == "ok" else "traps: %s" % " ".join(wl_[-3:] + [werr[-120:]])[:200]),
                          {"program": src, "wa_status": wst, "wa": wl_[:3], "expected": want + " " + want})
    lap("stageE")

    cov = {
        "evaluations": evaluations,
        "distinct_nontrivial": len(nontrivial),
        "rule": "stage A: real constant.BinaryOp/UnaryOp/Shift/Compare/ToInt/Int64Val/Uint64Val/BitLen/Sign/MakeFromLiteral and representableConst on boundary "
                "(every basic type's limits +-2, powers of two +-1 up to 2^200, random up to 200 bits, negatives, zero divisors) operands, each compared with python "
                "big-int arithmetic (oracle), math/big, go/constant and the Lean model; stage B: generated declarations (typed/untyped binary, shift, unary, conversion, "
                "comparison, rational quotient) at every integer kind through the real parser + types.Config.Check, a sample through api.LoadProgramFile, compared with the "
                "oracle (accepted iff every typed intermediate is representable; folded value exact), the Lean checker model, go/types and go vet; stage C: accepted typed "
                "expressions compiled by the real compiler: folded constant vs the same operator on function parameters vs a package-level initialiser vs exact value vs "
                "Base/GoInt semantics in Lean vs `go run`; stage D: float/complex ops of the constant package vs go/constant (exploration); stage E: typed float32/float64 constant expressions "
                "(chains of 2-3 operations where rounding after every typed step matters: ties at 2^24 / 2^53, 0.1+0.2, MaxFloat32 +- half ulp, overflow to Inf, "
                "subnormals, divisors that round to 0; untyped chains rounded once; f32<->f64, float->int, int->float conversions of inexact values): the checker's "
                "value vs an exact-rational oracle vs go/types, and the folded constant vs the same operators on parameters vs a global vs `go run`, floats printed as "
                "bit patterns only. distinct_nontrivial counts distinct "
                "(operation/shape, operator, kind, sign/zero/bit-length class of each operand, accepted?) tuples of stages A and B",
        "samples": samples,
        "distribution": dist,
    }
    return ctx.finish("proof", cov,
                      assumptions=["constant values are in the package's normal form (int64Val iff the value fits int64) — true of every public constructor used by the checker",
                                   "Wa's int/uint/uintptr are 32 bits (types.SizesFor(\"wasm\")); the model is also proved for 64-bit words",
                                   "float/complex constants are not modelled: explored against go/constant only"],
                      trusted_base=["hand-written Lean model WaVerif/Model/C15.lean tied by the correspondence run (harness/c15, hooks/internal__types/c15_repr.go)",
                                    "Base/GoInt.lean: Go run-time integer semantics (validated against the compiled Wa programs and go run)",
                                    "python big-int oracle in checks/c15.py; math/big, go/constant, go/types as cross-references"])
