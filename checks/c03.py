"""C03 — wat2c C code behaves like the WebAssembly module it was translated from."""
import concurrent.futures as cf, json, os, re, shutil, subprocess
from lib import vlib
from extract import c03_rows as R, c03_cdriver as D

PROP = "C03"
META = {
    "category": "translation_validation",
    "text": "Integer templates proved, everything else validated by execution. On every run the real wat2c (watutil.Wat2C) translates one exported "
            "function per instruction; the C statements it emitted for every integer instruction are cut out of the (gcc-preprocessed) generated C, parsed and "
            "written as Lean terms; one Lean theorem per row with a statement fixed by the instruction name says: where WebAssembly defines a result the C "
            "function (C11 semantics: signed overflow, over-wide / negative shifts, division by zero or overflow are UNDEFINED) returns it with memory unchanged, "
            "and where WebAssembly traps the C function aborts. Rows for which that is false carry a `_partial` theorem under an explicit operand guard plus a "
            "negation-by-witness theorem, and each witness is replayed through the real compiled C. All rows (integer, float, conversion, load/store, "
            "memory.*, constants), hand-written control-flow modules and whole modules produced by the real Wa compiler are translated, compiled "
            "(gcc -O0; thorough: also clang -O2 -fsanitize=undefined) and executed on an operand grid against the embedded wazero.",
    "note": "Trusted: Lean kernel + bv_decide's native axioms for the regenerated row identities; the hand-written C expression semantics (Model/C03CExpr.lean: LP64, "
            "two's complement, gcc/clang's implementation-defined choices: arithmetic >> on signed, modulo conversion to signed types) and WebAssembly integer "
            "semantics (Base/WasmNum.lean), both cross-validated against gcc/clang and wazero by the grid run; the statement cutter + C expression parser "
            "(extract/c03_templates.py); gcc's preprocessor (expands wat2c's helper macros). Modelled-not-verified: floats (executed only, never proved), "
            "the C compiler, control-flow/label translation and calls (executed only), load/store templates (executed only unless listed among the theorems).",
    "technique": "Lean 4 proof per regenerated C template (simp symbolic execution + bv_decide) + differential execution of compiled C vs wazero",
}
BV_AX = [r".*\._native\.bv_decide\.ax_.*", r"Lean\.ofReduceBool", r"Lean\.trustCompiler"]
PREFIX = "app"


class Mod:
    pass


def func_line_map(c_text):
    """line number -> exported row function name, from the generated C"""
    m, cur = {}, None
    for i, l in enumerate(c_text.splitlines(), 1):
        g = re.match(r"^(?:static )?[\w ]+? %s_f_(\w+)\(.*\) \{$" % PREFIX, l)
        if g:
            cur = g.group(1)
        if cur:
            m[i] = cur
        if l == "}":
            cur = None
    return m


def prepare_module(ctx, h, tag, rows, text_fn, pages=1, maxpages=1):
    """probe rows one by one through the real wat2c, translate the module of the translatable rows, drop rows whose C
    does not compile (recorded), write the driver.  Returns a Mod."""
    m = Mod()
    m.tag, m.dir, m.excluded = tag, os.path.join(ctx.tmp, tag), {}
    os.makedirs(m.dir, exist_ok=True)
    probe_in = "\n".join("%s %s" % (r.name, text_fn([r]).replace("\n", " ")) for r in rows) + "\n"
    _, out, _ = ctx.run_bin(h, args=["probe"], input_text=probe_in)
    res = out.splitlines()
    if len(res) != len(rows):
        raise vlib.InfraError("c03 probe returned %d lines for %d rows" % (len(res), len(rows)))
    keep = []
    for r, s in zip(rows, res):
        if s.startswith("ok"):
            keep.append(r)
        else:
            m.excluded[r.name] = ("wat2c: " + s, r)
    for attempt in range(3):
        wat = text_fn(keep)
        with open(os.path.join(m.dir, "mod.wat"), "w") as f:
            f.write(wat)
        rc, out, err = ctx.run_bin(h, args=["wat2c", "mod.wat", PREFIX, "mod.c", "mod.h"], env=None, timeout=300) if False else \
            _run_in(h, ["wat2c", "mod.wat", PREFIX, "mod.c", "mod.h"], m.dir)
        if rc != 0:
            raise vlib.InfraError("wat2c of module %s failed although every row translated alone: %s" % (tag, out[-500:]))
        errs = D.compile_errors(m.dir)
        if not errs:
            break
        fl = func_line_map(open(os.path.join(m.dir, "mod.c")).read())
        badnames = {}
        for ln, msg in errs:
            badnames.setdefault(fl.get(ln, "?"), msg)
        if "?" in badnames:
            raise vlib.InfraError("generated C of module %s has an error outside a row function: %s" % (tag, badnames["?"]))
        for r in list(keep):
            if r.name in badnames:
                stmt = open(os.path.join(m.dir, "mod.c")).read().splitlines()[[ln for ln, _ in errs if fl.get(ln) == r.name][0] - 1].strip()
                m.excluded[r.name] = ("generated C does not compile: %s  [%s]" % (badnames[r.name], stmt), r)
                keep.remove(r)
    else:
        raise vlib.InfraError("module %s still does not compile after excluding failing rows" % tag)
    m.rows = keep
    m.index = dict((r.name, i) for i, r in enumerate(keep))
    with open(os.path.join(m.dir, "driver.c"), "w") as f:
        f.write(D.driver_source(keep, PREFIX, pages, maxpages, has_memory="(memory" in wat))
    return m


def _run_in(binpath, args, cwd, input_text=None, timeout=600):
    p = subprocess.run([binpath] + list(args), cwd=cwd, input=input_text, stdout=subprocess.PIPE, stderr=subprocess.STDOUT, text=True, timeout=timeout)
    return p.returncode, p.stdout, ""


def build_flavour(m, flavour):
    exe = "drv_" + flavour.replace("-", "_")
    ok, log = D.compile_c(m.dir, flavour, exe)
    if not ok:
        raise vlib.InfraError("compiling module %s with %s failed:\n%s" % (m.tag, flavour, log[-3000:]))
    return exe


def hx(v):
    return "%x" % v


def run_ref(ctx, h, m, calls, mode):
    """calls: list of (row, args).  wazero reference lines."""
    lines = ["f_%s %s %s" % (r.name, mode, " ".join(hx(a) for a in args)) for r, args in calls]
    rc, out, _ = _run_in(h, ["exec", "mod.wat"] + (["fresh"] if mode == "g" else []), m.dir, "\n".join(lines) + "\n")
    res = out.splitlines()
    if len(res) != len(lines) or any(l.startswith("INFRA") for l in res[:1]):
        raise vlib.InfraError("wazero run of module %s: %d lines for %d calls: %s" % (m.tag, len(res), len(lines), res[:2]))
    return res


def run_c(m, exe, calls, mode):
    lines = ["%d %s %s" % (m.index[r.name], mode, " ".join(hx(a) for a in args)) for r, args in calls]
    res = D.run_driver(m.dir, exe, lines)
    if len(res) != len(lines):
        raise vlib.InfraError("C driver %s of module %s: %d lines for %d calls" % (exe, m.tag, len(res), len(lines)))
    return res


def is_nan_bits(v, t):
    if t == "f32":
        return (v & 0x7f800000) == 0x7f800000 and (v & 0x7fffff) != 0
    return (v & 0x7ff0000000000000) == 0x7ff0000000000000 and (v & 0xfffffffffffff) != 0


def agree(row, ref, c):
    """does the C outcome `c` agree with the WebAssembly outcome `ref`?"""
    if ref.startswith("trap"):
        return c.split(" m ")[0] == "sig ABRT"          # wat2c's trap convention is abort()
    if ref == c:
        return True
    if row.result in ("f32", "f64") and ref.startswith("v ") and c.startswith("v ") and row.key.split(".")[-1] in R.NAN_NONDET:
        a, b = ref.split(), c.split()
        if a[2:] == b[2:] and is_nan_bits(int(a[1], 16), row.result) and is_nan_bits(int(b[1], 16), row.result):
            return True
    return False


# ------------------------------------------------------------------ per-instruction grid
def grid_module(ctx, h, tag, rows, mode, flavours, dist, nontrivial, samples, text_fn=None, pages=1, maxpages=1, calls_fn=None):
    """translate + compile one module class, run the grid on wazero and on every C flavour, report disagreements.
    Returns (Mod, calls, ref lines, {flavour: lines})."""
    text_fn = text_fn or R.module_text
    m = prepare_module(ctx, h, tag, rows, text_fn, pages, maxpages)
    for name, (why, r) in sorted(m.excluded.items()):
        if why.startswith("wat2c: err"):
            dist["rows_outside_wat_parser"] = dist.get("rows_outside_wat_parser", 0) + 1
            ctx.notes.append("row %s (%s) is rejected by the WAT parser, outside the wat2c subset: %s" % (name, r.ins, why[:120]))
        elif why.startswith("wat2c: panic"):
            ctx.violation("%s:translation-panics" % r.key, "wat2c panics on `%s`: %s" % (r.ins, why), {"wat": text_fn([r]), "outcome": why})
        else:
            ctx.violation("%s:c-does-not-compile" % r.key, "the C emitted for `%s` is rejected by gcc: %s" % (r.ins, why),
                          {"wat": text_fn([r]), "outcome": why})
    calls = []
    for r in m.rows:
        for args in (calls_fn or R.calls_for)(r, ctx.tier):
            calls.append((r, args))
    ref = run_ref(ctx, h, m, calls, mode)
    outs = {}
    for fl in flavours:
        exe = build_flavour(m, fl)
        outs[fl] = run_c(m, exe, calls, mode)
    dist["rows_" + tag] = len(m.rows)
    dist["calls_" + tag] = len(calls)
    for i, (r, args) in enumerate(calls):
        cl = R.operand_class(r, args)
        nontrivial.add((r.key, cl, ref[i].split()[0]))
        bad = [(fl, outs[fl][i]) for fl in flavours if not agree(r, ref[i], outs[fl][i])]
        if bad:
            dist["disagreements"] = dist.get("disagreements", 0) + 1
            ctx.violation("%s:%s" % (r.key, cl),
                          "`%s` on (%s): WebAssembly (wazero) gives `%s`, compiled C gives %s" % (
                              r.ins, ", ".join("0x%x" % a for a in args), ref[i], "; ".join("%s: `%s`" % b for b in bad)),
                          {"wat": text_fn([r]), "export": "f_" + r.name, "args_hex": [hx(a) for a in args], "wasm": ref[i],
                           "c": dict((fl, outs[fl][i]) for fl in flavours), "operand_class": cl})
        if len(samples) < 12 and i % max(1, len(calls) // 3) == 0:
            samples.append({"row": r.ins, "args": [hx(a) for a in args], "wasm": ref[i], "c": dict((fl, outs[fl][i]) for fl in flavours)})
    return m, calls, ref, outs


def run(ctx):
    h = ctx.build_harness("c03")
    rows = R.all_rows()
    dist, nontrivial, samples = {}, set(), []
    quickfl = ["gcc-O0"]
    fl = quickfl + (["clang-O2-ubsan", "gcc-O2"] if ctx.tier == "thorough" else [])
    mods = {}
    mods["int"] = grid_module(ctx, h, "int", [r for r in rows if r.cls == "int"], "n", fl, dist, nontrivial, samples)
    mods["float"] = grid_module(ctx, h, "float", [r for r in rows if r.cls in ("float", "const")], "n", fl, dist, nontrivial, samples)
    mods["mem"] = grid_module(ctx, h, "mem", [r for r in rows if r.cls == "mem"], "m", fl, dist, nontrivial, samples)
    mods["grow"] = grid_module(ctx, h, "grow", R.GROW_ROWS, "g", fl, dist, nontrivial, samples,
                               text_fn=lambda rs: R.grow_module_text() if len(rs) == len(R.GROW_ROWS) else
                               "(module\n  (memory 1 %d)\n%s\n)\n" % (R.GROW_MAX, "\n".join("  " + r.wat() for r in rs)),
                               pages=1, maxpages=R.GROW_MAX)
    cov = {"evaluations": sum(v for k, v in dist.items() if k.startswith("calls_")), "distinct_nontrivial": len(nontrivial),
           "rule": "distinct (instruction, operand class, wasm outcome kind) triples over the boundary grid", "samples": samples, "distribution": dist}
    return ctx.finish("translation_validation", cov, assumptions=[], trusted_base=[])
