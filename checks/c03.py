"""C03 — wat2c C code behaves like the WebAssembly module it was translated from."""
import concurrent.futures as cf, json, os, re, shutil, subprocess
from lib import vlib
from extract import c03_rows as R, c03_cdriver as D, c03_templates as T

PROP = "C03"
META = {
    "category": "translation_validation",
    "text": "Integer templates proved, everything else validated by execution. On every run the real wat2c (watutil.Wat2C) translates one exported "
            "function per instruction; the C statements it emitted for every integer instruction are cut out of the (gcc-preprocessed) generated C, parsed and "
            "written as Lean terms; one Lean theorem per row with a statement fixed by the instruction name says: where WebAssembly defines a result the C "
            "function (C11 semantics: signed overflow, over-wide / negative shifts, division by zero or overflow are UNDEFINED) returns it with memory unchanged, "
            "and where WebAssembly traps the C function aborts. Rows for which that is false carry a `_partial` theorem under an explicit operand guard plus a "
            "negation-by-witness theorem, and each witness is replayed through the real compiled C. All rows (integer, float, conversion, load/store, "
            "memory.*, constants), hand-written control-flow modules and whole modules produced by the real Wa compiler are translated, compiled "
            "(gcc -O0; thorough: also clang -O2 -fsanitize=undefined) and executed on an operand grid against the embedded wazero.",
    "note": "Trusted: Lean kernel + bv_decide's native axioms for the regenerated row identities; the hand-written C expression semantics (Model/C03CExpr.lean: LP64, "
            "two's complement, gcc/clang's implementation-defined choices: arithmetic >> on signed, modulo conversion to signed types) and WebAssembly integer "
            "semantics (Base/WasmNum.lean), both cross-validated against gcc/clang and wazero by the grid run; the statement cutter + C expression parser "
            "(extract/c03_templates.py); gcc's preprocessor (expands wat2c's helper macros). Modelled-not-verified: floats (executed only, never proved), "
            "the C compiler, control-flow/label translation and calls (executed only), load/store templates (executed only unless listed among the theorems).",
    "technique": "Lean 4 proof per regenerated C template (simp symbolic execution + bv_decide) + differential execution of compiled C vs wazero",
}
BV_AX = [r".*\._native\.bv_decide\.ax_.*", r"Lean\.ofReduceBool", r"Lean\.trustCompiler"]
PREFIX = "app"


class Mod:
    pass


def func_line_map(c_text):
    """line number -> exported row function name, from the generated C"""
    m, cur = {}, None
    for i, l in enumerate(c_text.splitlines(), 1):
        g = re.match(r"^(?:static )?[\w ]+? %s_f_(\w+)\(.*\) \{$" % PREFIX, l)
        if g:
            cur = g.group(1)
        if cur:
            m[i] = cur
        if l == "}":
            cur = None
    return m


def prepare_module(ctx, h, tag, rows, text_fn, pages=1, maxpages=1):
    """probe rows one by one through the real wat2c, translate the module of the translatable rows, drop rows whose C
    does not compile (recorded), write the driver.  Returns a Mod."""
    m = Mod()
    m.tag, m.dir, m.excluded = tag, os.path.join(ctx.tmp, tag), {}
    os.makedirs(m.dir, exist_ok=True)
    probe_in = "\n".join("%s %s" % (r.name, text_fn([r]).replace("\n", " ")) for r in rows) + "\n"
    _, out, _ = ctx.run_bin(h, args=["probe"], input_text=probe_in)
    res = out.splitlines()
    if len(res) != len(rows):
        raise vlib.InfraError("c03 probe returned %d lines for %d rows" % (len(res), len(rows)))
    keep = []
    for r, s in zip(rows, res):
        if s.startswith("ok"):
            keep.append(r)
        else:
            m.excluded[r.name] = ("wat2c: " + s, r)
    for attempt in range(3):
        wat = text_fn(keep)
        with open(os.path.join(m.dir, "mod.wat"), "w") as f:
            f.write(wat)
        rc, out, err = ctx.run_bin(h, args=["wat2c", "mod.wat", PREFIX, "mod.c", "mod.h"], env=None, timeout=300) if False else \
            _run_in(h, ["wat2c", "mod.wat", PREFIX, "mod.c", "mod.h"], m.dir)
        if rc != 0:
            raise vlib.InfraError("wat2c of module %s failed although every row translated alone: %s" % (tag, out[-500:]))
        errs = D.compile_errors(m.dir)
        if not errs:
            break
        fl = func_line_map(open(os.path.join(m.dir, "mod.c")).read())
        badnames = {}
        for ln, msg in errs:
            badnames.setdefault(fl.get(ln, "?"), msg)
        if "?" in badnames:
            raise vlib.InfraError("generated C of module %s has an error outside a row function: %s" % (tag, badnames["?"]))
        for r in list(keep):
            if r.name in badnames:
                stmt = open(os.path.join(m.dir, "mod.c")).read().splitlines()[[ln for ln, _ in errs if fl.get(ln) == r.name][0] - 1].strip()
                m.excluded[r.name] = ("generated C does not compile: %s  [%s]" % (badnames[r.name], stmt), r)
                keep.remove(r)
    else:
        raise vlib.InfraError("module %s still does not compile after excluding failing rows" % tag)
    m.rows = keep
    m.index = dict((r.name, i) for i, r in enumerate(keep))
    with open(os.path.join(m.dir, "driver.c"), "w") as f:
        f.write(D.driver_source(keep, PREFIX, pages, maxpages, has_memory="(memory" in wat))
    return m


def _run_in(binpath, args, cwd, input_text=None, timeout=600):
    p = subprocess.run([binpath] + list(args), cwd=cwd, input=input_text, stdout=subprocess.PIPE, stderr=subprocess.STDOUT, text=True, timeout=timeout)
    return p.returncode, p.stdout, ""


def build_flavour(m, flavour):
    exe = "drv_" + flavour.replace("-", "_")
    ok, log = D.compile_c(m.dir, flavour, exe, trap=True)
    if not ok:
        raise vlib.InfraError("compiling module %s with %s failed:\n%s" % (m.tag, flavour, log[-3000:]))
    return exe


def hx(v):
    return "%x" % v


def run_ref(ctx, h, m, calls, mode):
    """calls: list of (row, args).  wazero reference lines."""
    lines = ["f_%s %s %s" % (r.name, mode, " ".join(hx(a) for a in args)) for r, args in calls]
    rc, out, _ = _run_in(h, ["exec", "mod.wat"] + (["fresh"] if mode == "g" else []), m.dir, "\n".join(lines) + "\n")
    res = out.splitlines()
    if len(res) != len(lines) or any(l.startswith("INFRA") for l in res[:1]):
        raise vlib.InfraError("wazero run of module %s: %d lines for %d calls: %s" % (m.tag, len(res), len(lines), res[:2]))
    return res


def run_c(m, exe, calls, mode):
    lines = ["%d %s %s" % (m.index[r.name], mode, " ".join(hx(a) for a in args)) for r, args in calls]
    res = D.run_driver(m.dir, exe, lines)
    if len(res) != len(lines):
        raise vlib.InfraError("C driver %s of module %s: %d lines for %d calls" % (exe, m.tag, len(res), len(lines)))
    return res


def is_nan_bits(v, t):
    if t == "f32":
        return (v & 0x7f800000) == 0x7f800000 and (v & 0x7fffff) != 0
    return (v & 0x7ff0000000000000) == 0x7ff0000000000000 and (v & 0xfffffffffffff) != 0


def agree(row, ref, c):
    """does the C outcome `c` agree with the WebAssembly outcome `ref`?"""
    if ref.startswith("trap"):
        return c.split(" m ")[0] == "sig ABRT"          # wat2c's trap convention is abort()
    if ref == c:
        return True
    if row.result in ("f32", "f64") and ref.startswith("v ") and c.startswith("v ") and row.key.split(".")[-1] in R.NAN_NONDET:
        a, b = ref.split(), c.split()
        if a[2:] == b[2:] and is_nan_bits(int(a[1], 16), row.result) and is_nan_bits(int(b[1], 16), row.result):
            return True
    return False


# ------------------------------------------------------------------ per-instruction grid
def grid_exec(ctx, h, tag, rows, mode, flavours, text_fn=None, pages=1, maxpages=1, calls_fn=None):
    """translate + compile one module class, run the grid on wazero and on every C flavour (flavours in parallel). No bookkeeping
    on ctx: several module classes run concurrently.  Returns (Mod, calls, ref lines, {flavour: lines})."""
    text_fn = text_fn or R.module_text
    m = prepare_module(ctx, h, tag, rows, text_fn, pages, maxpages)
    calls = []
    for r in m.rows:
        for args in (calls_fn or R.calls_for)(r, ctx.tier):
            calls.append((r, args))
    with cf.ThreadPoolExecutor(len(flavours) + 1) as pool:
        fref = pool.submit(run_ref, ctx, h, m, calls, mode)
        fouts = dict((fl, pool.submit(lambda fl=fl: run_c(m, build_flavour(m, fl), calls, mode))) for fl in flavours)
        ref = fref.result()
        outs = dict((fl, f.result()) for fl, f in fouts.items())
    m.exes = dict((f, "drv_" + f.replace("-", "_")) for f in flavours)
    return m, calls, ref, outs


def grid_report(ctx, tag, res, flavours, dist, nontrivial, samples, text_fn=None):
    """bookkeeping for one executed module class: excluded rows, disagreements, samples"""
    text_fn = text_fn or R.module_text
    m, calls, ref, outs = res
    for name, (why, r) in sorted(m.excluded.items()):
        if why.startswith("wat2c: err"):
            dist["rows_outside_wat_parser"] = dist.get("rows_outside_wat_parser", 0) + 1
            ctx.notes.append("row %s (%s) is rejected by the WAT parser, outside the wat2c subset: %s" % (name, r.ins, why[:120]))
        elif why.startswith("wat2c: panic"):
            ctx.violation("%s:translation-panics" % r.key, "wat2c panics on `%s`: %s" % (r.ins, why), {"wat": text_fn([r]), "outcome": why})
        else:
            ctx.violation("%s:c-does-not-compile" % r.key, "the C emitted for `%s` is rejected by gcc: %s" % (r.ins, why),
                          {"wat": text_fn([r]), "outcome": why})
    dist["rows_" + tag] = len(m.rows)
    dist["calls_" + tag] = len(calls)
    for i, (r, args) in enumerate(calls):
        cl = R.operand_class(r, args)
        nontrivial.add((r.key, cl, ref[i].split()[0]))
        bad = [(fl, outs[fl][i]) for fl in flavours if not agree(r, ref[i], outs[fl][i])]
        if bad:
            dist["disagreements"] = dist.get("disagreements", 0) + 1
            ctx.violation("%s:%s" % (r.key, cl),
                          "`%s` on (%s): WebAssembly (wazero) gives `%s`, compiled C gives %s" % (
                              r.ins, ", ".join("0x%x" % a for a in args), ref[i], "; ".join("%s: `%s`" % b for b in bad)),
                          {"wat": text_fn([r]), "export": "f_" + r.name, "args_hex": [hx(a) for a in args], "wasm": ref[i],
                           "c": dict((fl, outs[fl][i]) for fl in flavours), "operand_class": cl})
        if len(samples) < 12 and i % max(1, len(calls) // 3) == 0:
            samples.append({"row": r.ins, "args": [hx(a) for a in args], "wasm": ref[i], "c": dict((fl, outs[fl][i]) for fl in flavours)})
    return m, calls, ref, outs


# ------------------------------------------------------------------ hand-written control-flow modules (corpus/C03/*.wat)
class CF:
    """an exported function of a corpus module"""
    def __init__(self, name, params, result):
        self.name, self.params, self.result = name, params, result
        self.key, self.ins, self.cls = "ctl." + name, name, "ctl"


CORPUS_MODULES = {
    "ctl": ([CF("fib", ["i32"], "i32"), CF("fact", ["i64"], "i64"), CF("switch", ["i32"], "i32"), CF("blockval", ["i32"], "i32"),
             CF("indirect", ["i32", "i32", "i32"], "i32"), CF("global", ["i32"], "i32"), CF("tee", ["i32"], "i32"),
             CF("sum", ["i32", "i32"], "i32"), CF("unreachable", ["i32"], "i32"), CF("nested_loop", ["i32"], "i32")],
            {"fib": [(0,), (1,), (2,), (10,), (40,)], "fact": [(0,), (1,), (5,), (20,)],
             "switch": [(0,), (1,), (2,), (3,), (4,), (0xffffffff,), (0x80000000,)],
             "blockval": [(0,), (5,), (6,), (0x7fffffff,), (0x80000000,)],
             "indirect": [(0, 4, 5), (1, 4, 5), (2, 4, 5), (3, 4, 5), (4, 4, 5)],
             "global": [(3,), (0,), (100,)], "tee": [(4,), (0,), (0xffffffff,)],
             "sum": [(16, 16), (16, 21), (16, 37), (21, 37), (30, 37)],      # inside the data segment
             "unreachable": [(0,), (1,), (2,)],
             "nested_loop": [(0,), (1,), (9,), (40,)]}),
    "multi_same": ([CF("multi", ["i32", "i32"], "i32"), CF("multi_ret", ["i32", "i32"], "i32")],
                   {"multi": [(1, 2), (0, 0), (100, 7)], "multi_ret": [(1, 2), (0, 0), (100, 7)]}),
    "multi_mixed": ([CF("multi", ["i32", "i64"], "i64")], {"multi": [(3, 10), (0, 0)]}),
    "brif_result": ([CF("pick", ["i32"], "i32")], {"pick": [(0,), (1,), (7,)]}),
    "lastins": ([CF("unreachable_in_else", ["i32"], "i32"), CF("unreachable_in_else1", ["i32"], "i32")],
                {"unreachable_in_else": [(1,), (2,), (0,)], "unreachable_in_else1": [(1,), (0,)]}),
    "ret_extra": ([CF("ret_extra", ["i32"], "i32")], {"ret_extra": [(0,), (1,)]}),
    "brif_parked": ([CF("brif_parked", ["i32"], "i32")], {"brif_parked": [(0,), (1,)]}),
    "if_mixed": ([CF("if_mixed", ["i32"], "i64")], {"if_mixed": [(0,), (1,)]}),
    "br_results": ([CF("pick", ["i32"], "i32"), CF("find", ["i32"], "i32"), CF("bt1", ["i32"], "i32"), CF("bt2", ["i32"], "i32"),
                    CF("overlap", ["i32"], "i32")],
                   {"pick": [(0,), (1,)], "find": [(0,), (5,), (1000,)], "bt1": [(0,), (1,), (5,)], "bt2": [(0,), (1,), (2,)], "overlap": [(0,), (1,)]}),
}


def ctl_class(tag, f, args, ref):
    if f.name == "indirect":
        return {3: "call_indirect:type-mismatch", 4: "call_indirect:null-entry"}.get(args[0], "call_indirect:valid")
    if tag.startswith("multi"):
        return "multi-value:" + ("explicit-return" if f.name.endswith("_ret") else "fallthrough-return")
    if f.name == "sum":
        return "data-segment:backslash-byte"
    if tag == "lastins":
        return "function-end:nested-unreachable-last"
    if tag == "br_results":
        return {"bt1": "br_table:result-copy", "bt2": "br_table:result-copy", "overlap": "br:multi-result-overlap"}.get(f.name, "br:result-across-parked")
    return "ctl:%s" % f.name


def corpus_module(ctx, h, tag, flavours, dist, nontrivial):
    funcs, callmap = CORPUS_MODULES[tag]
    d = os.path.join(ctx.tmp, "corpus_" + tag)
    os.makedirs(d, exist_ok=True)
    src = os.path.join(vlib.VERIF, "corpus", "C03", tag + ".wat")
    shutil.copy(src, os.path.join(d, "mod.wat"))
    wat = open(src).read()
    rc, out, _ = _run_in(h, ["wat2c", "mod.wat", PREFIX, "mod.c", "mod.h"], d)
    calls = [(f, a) for f in funcs for a in callmap[f.name]]
    dist["calls_corpus_" + tag] = len(calls)
    m = Mod()
    m.tag, m.dir, m.rows, m.index = tag, d, funcs, dict((f.name, i) for i, f in enumerate(funcs))
    ref = run_ref(ctx, h, m, calls, "n")
    if rc != 0:
        key = {"multi_mixed": "multi-value:fallthrough-return", "brif_result": "br_if:target-with-result",
               "ret_extra": "return:extra-stack-values", "brif_parked": "br_if:operands-below-condition",
               "if_mixed": "if-else:mixed-result-types"}.get(tag, "ctl:%s:translation-fails" % tag)
        ctx.violation(key, "wat2c fails on corpus module %s.wat (%s) although the embedded runtime runs it: f_%s%s -> %s" % (
            tag, out.strip()[:200], calls[0][0].name, calls[0][1], ref[0]), {"wat": wat, "wat2c": out.strip(), "wasm": ref[:4]})
        return
    errs = D.compile_errors(d)
    if errs:
        ctx.violation("ctl:%s:c-does-not-compile" % tag, "the C generated for corpus module %s.wat is rejected by gcc: line %d: %s" % (tag, errs[0][0], errs[0][1]),
                      {"wat": wat, "errors": errs[:5]})
        return
    with open(os.path.join(d, "driver.c"), "w") as f:
        f.write(D.driver_source(funcs, PREFIX, 1, 1, has_memory="(memory" in wat))
    for fl in flavours:
        exe = build_flavour(m, fl)
        res = run_c(m, exe, calls, "n")
        for (f, args), a, b in zip(calls, ref, res):
            nontrivial.add((tag, f.name, a.split()[0]))
            if not agree(f, a, b):
                dist["disagreements"] = dist.get("disagreements", 0) + 1
                ctx.violation(ctl_class(tag, f, args, a), "corpus module %s.wat, f_%s(%s): WebAssembly (wazero) gives `%s`, compiled C (%s) gives `%s`" % (
                    tag, f.name, ", ".join("0x%x" % x for x in args), a, fl, b),
                    {"wat": wat, "export": "f_" + f.name, "args_hex": [hx(x) for x in args], "wasm": a, "c": {fl: b}})


# ------------------------------------------------------------------ generated control-flow modules (gen/c03_ctl.py)
def generated_ctl(ctx, h, flavours, dist, nontrivial):
    """random structured functions (nested block/loop/if with 0..2 results, parked operands, br/br_if/br_table/return at every depth,
    calls) translated by the real wat2c, compiled and run on an argument grid against wazero"""
    from gen import c03_ctl as GC
    n = 210 if ctx.tier == "quick" else 1400
    # a form the tree is KNOWN to mistranslate gets its own stream (its finding then cannot mask anything else); otherwise it is part of the main stream
    sep = [m for m, key in (("B", "gen-ctl:br_table-result"), ("C", "gen-ctl:br-multi-result-overlap")) if any(k["key"] == key for k in ctx.known)]
    main = "A" + "".join(m for m in "BC" if m not in sep)
    dist["gen_ctl_streams"] = {"main": main, "separate": sep}
    fns = [GC.gen_function(ctx.rng, "g%d" % i, sep[(i % 7) - 5] if i % 7 >= 5 and (i % 7) - 5 < len(sep) else main) for i in range(n)]
    # translate every function alone first: a panic of wat2c on one function must not hide the others
    probe_in = "\n".join("%s %s" % (f.name, GC.module_text([f]).replace("\n", " ")) for f in fns) + "\n"
    _, out, _ = ctx.run_bin(h, args=["probe"], input_text=probe_in, timeout=1800)
    res = out.splitlines()
    if len(res) != len(fns):
        raise vlib.InfraError("c03 probe returned %d lines for %d generated functions" % (len(res), len(fns)))
    keep = []
    for f, st in zip(fns, res):
        if st.startswith("ok"):
            keep.append(f)
        else:
            ctx.violation("gen-ctl:translation-fails:%s" % GC.risk_key(f), "wat2c fails on a generated control-flow function (%s; features %s) that wazero accepts" % (
                st[:160], sorted(f.tags)), {"wat": GC.module_text([f]), "wat2c": st, "features": sorted(f.tags)})
    d = os.path.join(ctx.tmp, "gen_ctl")
    os.makedirs(d, exist_ok=True)
    chunks = [keep[i::4] for i in range(4)] if ctx.tier == "thorough" else [keep]
    feat, ncalls = {}, 0
    for ci, ch in enumerate(chunks):
        m = Mod()
        m.tag, m.dir = "gen_ctl%d" % ci, os.path.join(d, str(ci))
        os.makedirs(m.dir, exist_ok=True)
        m.rows, m.index = ch, dict((f.name, i) for i, f in enumerate(ch))
        with open(os.path.join(m.dir, "mod.wat"), "w") as f:
            f.write(GC.module_text(ch))
        rc, out, _ = _run_in(h, ["wat2c", "mod.wat", PREFIX, "mod.c", "mod.h"], m.dir)
        if rc != 0:
            raise vlib.InfraError("wat2c fails on the module of generated functions although each translated alone: %s" % out[-300:])
        errs = D.compile_errors(m.dir)
        if errs:
            ctx.violation("gen-ctl:c-does-not-compile", "the C generated for a control-flow module is rejected by gcc: line %d: %s" % errs[0],
                          {"wat": GC.module_text(ch), "errors": errs[:5]})
            continue
        with open(os.path.join(m.dir, "driver.c"), "w") as f:
            f.write(D.driver_source(ch, PREFIX, 1, 1, has_memory=False))
        calls = [(f, a) for f in ch for a in GC.arg_tuples(f, ctx.rng, 6)]
        ncalls += len(calls)
        ref = run_ref(ctx, h, m, calls, "n")
        for fl in flavours:
            exe = build_flavour(m, fl)
            got = run_c(m, exe, calls, "n")
            for (f, args), a, b in zip(calls, ref, got):
                if a != b and not (a.startswith("trap") and b == "sig ABRT"):
                    dist["disagreements"] = dist.get("disagreements", 0) + 1
                    ctx.violation("gen-ctl:%s" % GC.risk_key(f),
                                  "generated control-flow function f_%s(%s) [features %s]: WebAssembly (wazero) gives `%s`, compiled C (%s) gives `%s`" % (
                                      f.name, ", ".join("0x%x" % x for x in args), ",".join(sorted(f.tags)), a, fl, b),
                                  {"wat": GC.module_text([f]), "export": "f_" + f.name, "args_hex": [hx(x) for x in args], "wasm": a, "c": {fl: b},
                                   "features": sorted(f.tags)})
        for f in ch:
            for t in f.tags:
                feat[t] = feat.get(t, 0) + 1
            nontrivial.add(("gen-ctl", GC.risk_key(f), f.result, len(f.params)))
    dist["calls_gen_ctl"] = ncalls
    dist["gen_ctl"] = {"functions": len(fns), "translated": len(keep), "feature_counts": feat}


# ------------------------------------------------------------------ data segments (gen/c03_data.py)
def data_stream(ctx, h, flavours, dist, nontrivial):
    """deterministic data-segment stream: every byte-class adjacency, all 256 bytes, several / adjacent / empty segments; the initial memory
    of the compiled C is read back byte by byte and compared with the bytes of the WAT data (and with wazero)"""
    from gen import c03_data as GD
    wat, expect, where = GD.build()
    d = os.path.join(ctx.tmp, "data_stream")
    os.makedirs(d, exist_ok=True)
    with open(os.path.join(d, "mod.wat"), "w") as f:
        f.write(wat)
    rc, out, _ = _run_in(h, ["wat2c", "mod.wat", PREFIX, "mod.c", "mod.h"], d)
    if rc != 0:
        ctx.violation("data-segment:translation-fails", "wat2c fails on the data-segment module: %s" % out.strip()[:200], {"wat": wat, "wat2c": out.strip()})
        return
    peek = CF("peek", ["i32"], "i32")
    m = Mod()
    m.tag, m.dir, m.rows, m.index = "data_stream", d, [peek], {"peek": 0}
    addrs = sorted(expect)
    calls = [(peek, (a,)) for a in addrs]
    dist["calls_data_stream"] = len(calls)
    ref = run_ref(ctx, h, m, calls, "n")
    segline = lambda a: "segment `%s` at %d: \"%s\"" % (where[a][0], where[a][1], GD.wat_string(where[a][2])[:160])

    def first_per_segment(got, what):
        """the first differing byte of every segment (the following differences are usually its consequences)"""
        seen, out = set(), []
        for a, g in zip(addrs, got):
            want = "v %016x" % expect[a]
            if g != want and where[a][0] not in seen:
                seen.add(where[a][0])
                prev = expect.get(a - 1) if (a - 1) in expect and where[a - 1][0] == where[a][0] else None
                out.append((a, prev, want, g))
        return out
    for a, prev, want, g in first_per_segment(ref, "wazero"):
        # the WAT parser / engine, not wat2c, disagrees with the bytes written in the module text: not C03's subject, but the comparison below would be void
        ctx.proof["broken"].append({"theorem": "correspondence: data-segment expectation vs wazero", "why": "byte %d of %s: WAT text says %s, wazero memory %s" % (
            a, segline(a), want, g)})
    errs = D.compile_errors(d)
    if errs:
        stmt = open(os.path.join(d, "mod.c")).read().splitlines()[errs[0][0] - 1].strip()
        ctx.violation("data-segment:c-does-not-compile", "the C emitted for the data segments is rejected by gcc: %s  [%s]" % (errs[0][1], stmt[:200]),
                      {"wat": wat, "errors": errs[:5]})
        return
    with open(os.path.join(d, "driver.c"), "w") as f:
        f.write(D.driver_source([peek], PREFIX, 1, 1, has_memory=True))
    for fl in flavours:
        ok, log = D.compile_c(d, fl, "drv_" + fl.replace("-", "_"), trap=True)
        if not ok:        # e.g. clang: hex escape sequence out of range is an error
            ctx.violation("data-segment:c-does-not-compile", "the C emitted for the data segments is rejected by %s: %s" % (
                fl, " | ".join(l for l in log.splitlines() if "error" in l)[:300]), {"wat": wat, "compiler": fl, "log": log[-1500:]})
            continue
        got = run_c(m, "drv_" + fl.replace("-", "_"), calls, "n")
        for a, prev, want, g in first_per_segment(got, fl):
            nxt = expect.get(a + 1) if (a + 1) in expect and where[a + 1][0] == where[a][0] else None
            if GD.class_of(expect[a]) == "nonprintable" and nxt is not None:
                prev = None      # an escaped byte came out wrong: what matters is the byte FOLLOWING it (absorbed into the escape)
                cls = "%s-then-%s" % (GD.class_of(expect[a]), GD.class_of(nxt))
            else:
                cls = "%s-then-%s" % ("start" if prev is None else GD.class_of(prev), GD.class_of(expect[a]))
            dist["disagreements"] = dist.get("disagreements", 0) + 1
            ctx.violation("data-segment:%s" % cls, "initial memory of the compiled C (%s) differs from the WAT data at address %d (byte 0x%02x %s) of %s: C has `%s`" % (
                fl, a, expect[a], ("followed by byte 0x%02x" % nxt) if (prev is None and nxt is not None and GD.class_of(expect[a]) == "nonprintable") else
                ("at the segment start" if prev is None else "after byte 0x%02x" % prev), segline(a), g),
                {"wat": "(module\n  (memory 1)\n  (data (i32.const %d) \"%s\")\n  (func (export \"f_peek\") (param i32) (result i32) local.get 0 i32.load8_u))\n" % (
                    where[a][1], GD.wat_string(where[a][2])), "address": a, "expected_byte": expect[a], "c": {fl: g}, "class_pair": cls})
    for a in addrs:
        if (a - 1) in expect and where[a - 1][0] == where[a][0]:
            nontrivial.add(("data", GD.class_of(expect[a - 1]), GD.class_of(expect[a])))


# ------------------------------------------------------------------ whole modules produced by the real Wa compiler
HOST_C = r"""
#include <stdint.h>
#include <stdio.h>
#include <stdlib.h>
#include <string.h>
#include "mod.h"
/* host side of the syscall_js imports, printing exactly what internal/wazero/js.go prints (floats: bit patterns are not compared) */
static uint8_t *MEM;
void app_memory_init(uint8_t **pp, int32_t *pages) {
  MEM = calloc((size_t)app_memory_init_max_pages, 65536);
  *pp = MEM; *pages = app_memory_init_pages;
}
void app_syscall_js_print_bool(int32_t v) { fputs(v ? "true" : "false", stdout); }
void app_syscall_js_print_i32(int32_t v) { printf("%d", v); }
void app_syscall_js_print_u32(int32_t v) { printf("%u", (uint32_t)v); }
void app_syscall_js_print_i64(int64_t v) { printf("%lld", (long long)v); }
void app_syscall_js_print_u64(int64_t v) { printf("%llu", (unsigned long long)v); }
void app_syscall_js_print_ptr(int32_t v) { printf("0x%x", (uint32_t)v); }
void app_syscall_js_print_f32(float v) { printf("<f32>"); }
void app_syscall_js_print_f64(double v) { printf("<f64>"); }
void app_syscall_js_print_position(int32_t v) { printf("-"); }
void app_syscall_js_print_rune(int32_t c) {
  uint32_t u = (uint32_t)c;
  if (u < 0x80) putchar(u);
  else if (u < 0x800) { putchar(0xc0 | (u >> 6)); putchar(0x80 | (u & 63)); }
  else if (u < 0x10000) { putchar(0xe0 | (u >> 12)); putchar(0x80 | ((u >> 6) & 63)); putchar(0x80 | (u & 63)); }
  else { putchar(0xf0 | (u >> 18)); putchar(0x80 | ((u >> 12) & 63)); putchar(0x80 | ((u >> 6) & 63)); putchar(0x80 | (u & 63)); }
}
void app_syscall_js_print_str(int32_t ptr, int32_t len) { fwrite(MEM + (uint32_t)ptr, 1, (uint32_t)len, stdout); }
void app_syscall_js_proc_exit(int32_t code) { fflush(stdout); exit(code); }
int main(void) { app_init(); app_main(); fflush(stdout); return 0; }   /* = appbuild's assets/native.cpp */
"""


def whole_program(ctx, h, name, path, flavours):
    """returns dict(status=..., detail=...) ; status: ok | skipped:<why> | differs | c-error | ub"""
    d = os.path.join(ctx.tmp, "prog_" + name)
    os.makedirs(d, exist_ok=True)
    shutil.copy(path, os.path.join(d, "main.wa"))
    rc, out, _ = _run_in(h, ["build", "main.wa", "mod.wat"], d, timeout=600)
    if rc != 0:
        return {"status": "skipped:compiler-rejects", "detail": out[-300:]}
    main_fn = out.strip().splitlines()[-1]
    rc, ref, _ = _run_in(h, ["runwat", "mod.wat", main_fn], d, timeout=600)
    if rc != 0:
        return {"status": "skipped:runtime-error-on-wazero", "detail": ref[-300:]}
    rc, out, _ = _run_in(h, ["wat2c", "mod.wat", PREFIX, "mod.c", "mod.h"], d, timeout=600)
    if rc != 0:
        return {"status": "c-error", "kind": "translation-fails", "detail": out.strip()[:400], "wasm_out": ref}
    errs = D.compile_errors(d)
    if errs:
        stmt = open(os.path.join(d, "mod.c")).read().splitlines()[errs[0][0] - 1].strip()
        return {"status": "c-error", "kind": "c-does-not-compile", "detail": "%s  [%s]" % (errs[0][1], stmt), "wasm_out": ref}
    with open(os.path.join(d, "host.c"), "w") as f:
        f.write(HOST_C)
    res = {"status": "ok", "wasm_out": ref, "c_out": {}}
    for fl in flavours:
        exe = "prog_" + fl.replace("-", "_")
        ok, log = D.compile_c(d, fl, exe, sources=("mod.c", "host.c"))
        if not ok:
            raise vlib.InfraError("compiling whole module %s with %s failed:\n%s" % (name, fl, log[-2000:]))
        env = dict(os.environ, UBSAN_OPTIONS="print_stacktrace=0:halt_on_error=0")
        try:
            p = subprocess.run([os.path.join(d, exe)], cwd=d, stdout=subprocess.PIPE, stderr=subprocess.PIPE, text=True, timeout=300, env=env)
            cout, cerr, crc = p.stdout, p.stderr, p.returncode
        except subprocess.TimeoutExpired:
            cout, cerr, crc = "", "timeout", -1
        res["c_out"][fl] = cout
        if "runtime error:" in cerr:
            res.setdefault("ub", {})[fl] = cerr.split("runtime error:")[1].splitlines()[0].strip()
        if cout != ref or crc != 0:
            if res["status"] == "ok":
                res["status"] = "ub" if fl in res.get("ub", {}) else "differs"
                res["detail"] = "%s: exit %d, first differing line %r vs wasm %r" % (
                    fl, crc, next((a for a, b in zip(cout.splitlines() + [""], ref.splitlines() + [""]) if a != b), ""),
                    next((b for a, b in zip(cout.splitlines() + [""], ref.splitlines() + [""]) if a != b), ""))
    return res


def shipped_host_links(ctx, prog_dir):
    """link the translated module against appbuild's own assets (native.cpp + native-js-host.cpp), the way the generated CMakeLists does"""
    d = os.path.join(ctx.tmp, "shipped")
    os.makedirs(d, exist_ok=True)
    assets = os.path.join(vlib.REPO, "internal", "app", "appbuild", "assets")
    shutil.copy(os.path.join(prog_dir, "mod.c"), os.path.join(d, "wa-app.c"))
    shutil.copy(os.path.join(prog_dir, "mod.h"), os.path.join(d, "wa-app.h"))
    shutil.copy(os.path.join(assets, "native.cpp"), os.path.join(d, "main.cpp"))
    pages = re.search(r"memory_init_max_pages = (\d+);", open(os.path.join(prog_dir, "mod.c")).read()).group(1)
    with open(os.path.join(d, "native-host.cpp"), "w") as f:
        f.write(open(os.path.join(assets, "native-js-host.cpp")).read().replace("{{.MemoryBytes}}", "%s*(1<<16)" % pages))
    cmds = [["gcc", "-O0", "-w", "-c", "wa-app.c"], ["g++", "-O0", "-w", "-c", "main.cpp", "native-host.cpp"],
            ["g++", "-o", "myapp", "main.o", "native-host.o", "wa-app.o", "-lm"]]
    for c in cmds:
        p = subprocess.run(c, cwd=d, stdout=subprocess.PIPE, stderr=subprocess.STDOUT, text=True, timeout=600)
        if p.returncode != 0:
            return False, " ".join(c[:2]) + ": " + " | ".join(l for l in p.stdout.splitlines() if "undefined reference" in l or "error" in l)[:600]
    p = subprocess.run([os.path.join(d, "myapp")], cwd=d, stdout=subprocess.PIPE, stderr=subprocess.STDOUT, text=True, timeout=120)
    return True, p.stdout


# ------------------------------------------------------------------ Lean side
def prove_audited(ctx, module, required, allow_extra_axioms):
    """ctx.prove() with one difference: Lean wraps `AUDIT <name> axioms=[...]` lines longer than 120 columns (theorems with several
    bv_decide axioms), which lib/vlib.py's line regex then misses; here the audit output is parsed across line breaks."""
    src = os.path.join(vlib.LEAN, module.replace(".", "/") + ".lean")
    bad = vlib.scan_forbidden(vlib.LEAN, module)
    if bad:
        ctx.proof["broken"].append({"theorem": "*", "why": "forbidden construct: %s" % bad[:3]})
    ok, log = ctx.lake_build([module])
    names_in_src = re.findall(r"^\s*theorem\s+([^\s:({\[]+)", open(src).read(), re.M)
    if not ok:
        ctx.proof["obligations"] += max(len(names_in_src), 1)
        ctx.proof["broken"].append({"theorem": module, "why": "lake build failed",
                                    "where": ["%s:%s" % f for f in sorted(set(re.findall(r"error: .*?([\w/]+\.lean):(\d+)", log)))][:10], "log": log[-3000:]})
        return False
    audit_dir = os.path.join(vlib.LEAN, ".audit")
    os.makedirs(audit_dir, exist_ok=True)
    af = os.path.join(audit_dir, module.replace(".", "_") + ".lean")
    with open(af, "w") as f:
        f.write("import WaVerif.Base.AuditCmd\nimport %s\n#audit_module %s\n" % (module, module))
    with vlib.Lock("lake"):
        rc, o = vlib.sh(["lake", "env", "lean", af], cwd=vlib.LEAN, timeout=1800)
    found = {}
    for m in re.finditer(r"AUDIT (\S+) axioms=\[(.*?)\]", o, re.S):
        found[m.group(1)] = [a.strip() for a in re.sub(r"\s+", " ", m.group(2)).split(",") if a.strip()]
    if rc != 0 or not found:
        ctx.proof["obligations"] += 1
        ctx.proof["broken"].append({"theorem": module, "why": "audit failed", "log": o[-2000:]})
        return False
    allgood = True
    for req in required:
        if not any(n == req or n.endswith("." + req) for n in found):
            ctx.proof["obligations"] += 1
            ctx.proof["broken"].append({"theorem": req, "why": "required theorem missing"})
            allgood = False
    for n, axs in sorted(found.items()):
        ctx.proof["obligations"] += 1
        extra = [a for a in axs if a not in vlib.STD_AXIOMS and not any(re.fullmatch(pat, a) for pat in allow_extra_axioms)]
        if extra:
            ctx.proof["broken"].append({"theorem": n, "why": "axioms outside allow-list: %s" % extra})
            allgood = False
        else:
            ctx.proof["discharged"] += 1
        ctx.proof["theorems"][n] = axs
    if ctx.tier == "thorough":
        with vlib.Lock("lake"):
            rc, o = vlib.sh(["lake", "env", "leanchecker", module], cwd=vlib.LEAN, timeout=3000)
        ctx.notes.append("leanchecker %s rc=%d" % (module, rc))
        if rc != 0:
            ctx.proof["broken"].append({"theorem": module, "why": "leanchecker rejected", "log": o[-2000:]})
            allgood = False
    return allgood


def regenerate_templates(ctx, mods):
    """cut the C of every integer / integer-memory row out of the generated C, write Gen/C03Templates.lean"""
    tpls = []
    for tag in ("int", "mem"):
        m = mods[tag][0]
        want = [r for r in m.rows if all(p in ("i32", "i64") for p in r.params) and r.result in (None, "i32", "i64")]
        tpls += T.extract(os.path.join(m.dir, "mod.c"), want, PREFIX)
    names = T.write_lean(tpls, os.path.join(vlib.LEAN, "WaVerif", "Gen", "C03Templates.lean"))
    return tpls, names


def model_correspondence(ctx, model, mods, modelled, dist):
    """the regenerated C functions run by the Lean C semantics vs the compiled C, and the Lean WebAssembly spec vs wazero"""
    lines, meta = [], []
    for tag, mode in (("int", "n"), ("mem", "m")):
        m, calls, ref, outs = mods[tag]
        for i, (r, args) in enumerate(calls):
            if r.name in modelled:
                lines.append("%s %s %s %s" % (r.name, mode, r.key, " ".join(hx(a) for a in args)))
                meta.append((r, args, ref[i], dict((fl, outs[fl][i]) for fl in outs)))
    nch = 8
    size = (len(lines) + nch - 1) // nch
    chunks = [lines[i:i + size] for i in range(0, len(lines), size)]
    with cf.ThreadPoolExecutor(nch) as pool:      # the compiled model is a pure line filter: run it over 8 slices at once
        outs = list(pool.map(lambda ch: ctx.run_bin(model, input_text="\n".join(ch) + "\n", timeout=1800)[1].splitlines(), chunks))
    mo = [l for o in outs for l in o]
    if len(mo) != len(lines):
        ctx.proof["broken"].append({"theorem": "correspondence C03", "why": "model driver printed %d lines for %d ops" % (len(mo), len(lines))})
        return
    ctx.corr["lines"] += len(lines)
    st = {"model_value": 0, "model_ub": 0, "model_trap": 0, "ub_flagged_by_sanitizer": 0, "ub_not_flagged": 0, "wasm_spec_compared": 0}
    nbroken = 0
    for (r, args, ref, couts), l in zip(meta, mo):
        cm, _, wm = l.partition(" | ")
        # WebAssembly spec (Base/WasmNum) vs wazero
        if wm != "-":
            st["wasm_spec_compared"] += 1
            refn = "trap" if ref.startswith("trap") else ref
            if wm != refn:
                ctx.corr["diffs"] += 1
                nbroken += 1
                if nbroken <= 10:
                    ctx.proof["broken"].append({"theorem": "correspondence: Base/WasmNum spec vs wazero", "why": "%s(%s): wazero %s, Lean spec %s" % (r.ins, args, ref, wm)})
        # C semantics model vs compiled C
        if cm == "stuck" or cm.startswith(("no-such", "bad")):
            ctx.corr["diffs"] += 1
            nbroken += 1
            if nbroken <= 10:
                ctx.proof["broken"].append({"theorem": "correspondence: C model", "why": "%s(%s): model is %s" % (r.ins, args, cm)})
        elif cm == "ub":
            st["model_ub"] += 1
            for fl, c in couts.items():
                if "ubsan" in fl:
                    st["ub_flagged_by_sanitizer" if c.startswith(("ub ", "sig ")) else "ub_not_flagged"] += 1
        else:
            st["model_trap" if cm == "trap" else "model_value"] += 1
            want = "sig ABRT" if cm == "trap" else cm
            for fl, c in couts.items():
                if c != want:
                    ctx.corr["diffs"] += 1
                    nbroken += 1
                    if nbroken <= 10:
                        ctx.proof["broken"].append({"theorem": "correspondence: C semantics model vs compiled C",
                                                    "why": "%s(%s): Lean C model says `%s`, %s gives `%s`" % (r.ins, [hx(a) for a in args], cm, fl, c)})
    dist["model"] = st


def replay_witnesses(ctx, h, mods, flavours, dist):
    """the operands of the `_full_false` theorems, through wazero and the compiled C"""
    wpath = os.path.join(vlib.LEAN, "WaVerif", "Props", "C03Witnesses.json")
    wit = json.load(open(wpath))
    m = mods["int"][0]
    byname = dict((r.name, r) for r in m.rows)
    calls = [(byname[n], tuple(int(a, 16) for a in w["args"])) for n, w in sorted(wit.items()) if n in byname]
    if not calls:
        return
    ref = run_ref(ctx, h, m, calls, "n")
    res = dict((fl, run_c(m, m.exes[fl], calls, "n")) for fl in flavours)
    dist["witnesses_replayed"] = len(calls)
    confirmed = 0
    for i, (r, args) in enumerate(calls):
        bad = [(fl, res[fl][i]) for fl in flavours if not agree(r, ref[i], res[fl][i])]
        if bad:
            confirmed += 1
            ctx.violation("%s:%s" % (r.key, R.operand_class(r, args)),
                          "`%s` on (%s) [witness of theorem %s_full_false: %s]: WebAssembly gives `%s`, compiled C gives %s" % (
                              r.ins, ", ".join("0x%x" % a for a in args), r.name, wit[r.name]["why"], ref[i], "; ".join("%s: `%s`" % b for b in bad)),
                          {"wat": R.module_text([r]), "export": "f_" + r.name, "args_hex": [hx(a) for a in args], "wasm": ref[i],
                           "c": dict((fl, res[fl][i]) for fl in flavours), "theorem": r.name + "_full_false"})
        else:
            ctx.proof["broken"].append({"theorem": r.name + "_full_false", "why": "the Lean witness (%s) is not observable as a difference in any compiled flavour %s: wasm `%s`" % (
                [hx(a) for a in args], flavours, ref[i])})
    dist["witnesses_confirmed_on_compiled_c"] = confirmed


def run(ctx):
    import time
    from tools import gen_c03_props as GP
    t0 = [time.time()]
    phases = {}

    def lap(name):
        phases[name] = round(time.time() - t0[0], 1)
        t0[0] = time.time()
    h = ctx.build_harness("c03")
    lap("build_harness")
    rows = R.all_rows()
    dist, nontrivial, samples = {}, set(), []
    thorough = ctx.tier == "thorough"
    fl_int = ["gcc-O0", "gcc-O0-ubsan"] + (["clang-O2-ubsan", "gcc-O2"] if thorough else [])
    fl_other = ["gcc-O0"] + (["clang-O2-ubsan", "gcc-O2"] if thorough else [])
    is_int_const = lambda r: r.cls == "const" and r.result in ("i32", "i64")
    grow_text = lambda rs: "(module\n  (memory 1 %d)\n%s\n)\n" % (R.GROW_MAX, "\n".join("  " + r.wat() for r in rs))
    specs = [("int", [r for r in rows if r.cls == "int" or is_int_const(r)], "n", fl_int, None, 1),
             ("float", [r for r in rows if r.cls == "float" or (r.cls == "const" and not is_int_const(r))], "n", fl_other, None, 1),
             ("mem", [r for r in rows if r.cls == "mem"], "m", fl_other, None, 1),
             ("grow", R.GROW_ROWS, "g", fl_other, grow_text, R.GROW_MAX)]
    with cf.ThreadPoolExecutor(4) as pool:          # the four module classes are independent: translate, compile and run them concurrently
        futs = [pool.submit(grid_exec, ctx, h, tag, rs, mode, fls, tf, 1, mp) for tag, rs, mode, fls, tf, mp in specs]
        results = [f.result() for f in futs]
    mods = {}
    for (tag, rs, mode, fls, tf, mp), res in zip(specs, results):
        grid_report(ctx, tag, res, fls, dist, nontrivial, samples, tf)
        mods[tag] = res
    lap("instruction_grids")
    # ---- regenerated templates + proofs
    tpls, names = regenerate_templates(ctx, mods)
    dist["templates_modelled"] = len(names)
    dist["templates_unmodelled"] = dict((t["name"], t["unmodelled"]) for t in tpls if "lean" not in t)
    src = open(os.path.join(vlib.LEAN, "WaVerif", "Props", "C03.lean")).read()
    proved_rows = set(re.findall(r"^theorem (\w+?)_(?:ok|partial) ", src, re.M))
    want_rows = set(r.name for r in rows if r.name in names and GP.statement(r) is not None)
    if proved_rows != want_rows:
        ctx.proof["broken"].append({"theorem": "C03 template row set", "why": "rows with a modelled template differ from the rows the theorems cover: "
                                    "no theorem for %s; theorem without template for %s (re-run tools/gen_c03_props.py)" % (
                                        sorted(want_rows - proved_rows)[:8], sorted(proved_rows - want_rows)[:8])})
    lean_err = []

    def lean_job():
        try:
            ctx.lake_build(GP.modules())          # the row proofs, in parallel
            prove_audited(ctx, "WaVerif.Props.C03", sorted(re.findall(r"^theorem (\w+) ", src, re.M)), BV_AX)
            model = ctx.build_model("c03")
            if model:
                model_correspondence(ctx, model, mods, set(names), dist)
        except BaseException as e:        # re-raised in the main thread
            lean_err.append(e)
    import threading
    lean_thread = threading.Thread(target=lean_job)       # Lean (lake, audit, model run) overlaps with the C side below
    lean_thread.start()
    # ---- whole modules produced by the real compiler: started now, collected below
    cdir = os.path.join(vlib.VERIF, "corpus", "C03")
    progs = [(f[:-3], os.path.join(cdir, f)) for f in sorted(os.listdir(cdir)) if f.endswith(".wa")]
    ex = os.path.join(vlib.REPO, "waroot", "examples")
    exnames = ["brainfuck", "copy", "eq", "strbytes", "struct", "short-var", "interface_named"]
    for n in (exnames if thorough else exnames[:3]):
        if os.path.exists(os.path.join(ex, n + ".wa")):
            progs.append(("ex_" + n.replace("-", "_"), os.path.join(ex, n + ".wa")))
    prog_pool = cf.ThreadPoolExecutor(6)
    prog_futs = [prog_pool.submit(whole_program, ctx, h, a[0], a[1], fl_other) for a in progs]
    replay_witnesses(ctx, h, mods, fl_int, dist)
    lap("witness_replay")
    # ---- control flow / calls / tables / globals / data segments: hand-written modules, generated functions, data-segment stream
    for tag in sorted(CORPUS_MODULES):
        corpus_module(ctx, h, tag, fl_other, dist, nontrivial)
    generated_ctl(ctx, h, fl_other, dist, nontrivial)
    data_stream(ctx, h, fl_other, dist, nontrivial)
    lap("corpus_generated_control_flow_and_data")
    pres = [f.result() for f in prog_futs]
    prog_pool.shutdown()
    dist["whole_programs"] = {}
    first_ok = None
    for (name, path), r in zip(progs, pres):
        dist["whole_programs"][name] = r["status"]
        nontrivial.add(("program", name, r["status"]))
        if r["status"] == "ok":
            first_ok = first_ok or name
        elif r["status"] == "c-error":
            m = re.search(r"// ([\w.]+)", r["detail"])
            key = ("%s:c-does-not-compile" % m.group(1)) if (r["kind"] == "c-does-not-compile" and m) else "program:%s:%s" % (name, r["kind"])
            ctx.violation(key, "whole module compiled from %s runs on the embedded runtime (output %r) but its wat2c C is unusable: %s" % (
                os.path.basename(path), r["wasm_out"][:60], r["detail"]), {"program": open(path).read(), "detail": r["detail"], "wasm_out": r["wasm_out"]})
        elif r["status"] in ("differs", "ub"):
            ctx.violation("program:%s:%s" % (name, "ub:" + "/".join(sorted(set(r["ub"].values()))) if r["status"] == "ub" else "output-differs"),
                          "whole module compiled from %s: %s" % (os.path.basename(path), r["detail"]),
                          {"program": open(path).read(), "wasm_out": r["wasm_out"], "c_out": r["c_out"], "ub": r.get("ub")})
        else:
            ctx.notes.append("whole program %s: %s %s" % (name, r["status"], r.get("detail", "")[:200]))
    if first_ok:
        ok, detail = shipped_host_links(ctx, os.path.join(ctx.tmp, "prog_" + first_ok))
        dist["shipped_native_host_links"] = ok
        if not ok:
            ctx.violation("native-host:missing-host-functions", "the translated module does not link against appbuild's own assets (native.cpp + native-js-host.cpp, "
                          "as the generated CMakeLists.txt builds them): %s" % detail, {"program": first_ok, "link_errors": detail})
    lap("whole_programs_tail")
    lean_thread.join()
    if lean_err:
        raise lean_err[0]
    lap("lean_tail")
    dist["phase_seconds"] = phases
    cov = {"evaluations": sum(v for k, v in dist.items() if k.startswith("calls_")) + len(progs), "distinct_nontrivial": len(nontrivial),
           "rule": "per-instruction grid: distinct (instruction, operand class, WebAssembly outcome kind) triples over boundary x boundary operands "
                   "(0, +-1, min, max, powers of two, counts at/over the width, divisors 0 and -1, NaN/inf/limits); corpus modules and whole programs: one case per (function|program, outcome)",
           "samples": samples, "distribution": dist,
           "c_flavours": {"integer rows": fl_int, "other rows / modules": fl_other},
           "checker_cmd": "lake build WaVerif.Props.C03 && lake env lean .audit/WaVerif_Props_C03.lean  (in /verif/lean; Props/C03.lean restates the theorems proved in "
                          "Props/C03Rows*.lean; #audit_module prints each theorem's axioms)"}
    return ctx.finish("translation_validation", cov,
                      assumptions=["C semantics: LP64, two's complement, gcc/clang implementation-defined choices (modulo conversion to signed, arithmetic >> of negatives)",
                                   "wat2c's trap convention is abort(); a SIGFPE/SIGSEGV raised by the hardware for C-undefined code is NOT counted as a WebAssembly trap",
                                   "wazero (vendored) is the WebAssembly reference for execution; Base/WasmNum.lean for the theorems (both compared on the grid)",
                                   "float rows, control flow, calls, load/store and whole modules are executed only, never proved"],
                      trusted_base=["bv_decide native axioms (Lean.ofReduceBool / trustCompiler) on the row theorems",
                                    "extract/c03_templates.py (statement cutter + C expression parser) and gcc -E (macro expansion)",
                                    "Model/C03CExpr.lean (C11 semantics of the emitted forms) and Base/WasmNum.lean, cross-validated by the grid run",
                                    "gcc 12 / clang 14 and their UB sanitizers, vendored wazero"])
