"""C11 — Automatic memory management never frees or reuses live data."""
import glob, os, random, subprocess
from lib import vlib
from gen import c11_progs, c11_run

PROP = "C11"
META = {
    "category": "exploration",
    "text": "Partial. Proved in Lean (no Mathlib, standard axioms): the reference-counting PROTOCOL of heap.wat.ws — Block.Release as a stack "
            "machine mirroring the WAT recursion, the mutator as five disciplined operations — keeps 'count = number of references' as an "
            "invariant for every history (rc_counts_references / owned_step), frees a block only when nothing refers to it "
            "(no_premature_free, no_dangling_reference), never frees twice or releases a dead block at any step of a cascade "
            "(no_double_free + err_sticky_run), and always terminates (release_terminates). Whether the COMPILER's retain/release placement "
            "obeys that discipline for every program is compiler verification and is only explored: each workload program is compiled by the "
            "real pipeline, its WAT is rewritten so that malloc/free/Block.HeapAlloc/Retain/Release report to host functions, and the real "
            "run is judged by oracles that do not involve the model (no double free, no retain/release of a freed block, fresh blocks read as "
            "zero, output identical when freed memory is poisoned and re-used, and when it is quarantined: no store after free). The observed "
            "event trace, with the counts read from the real block headers, is replayed through the Lean driver, which must predict every count "
            "and every free.",
    "note": "Trusted: Lean kernel; the WAT rewriting (wrappers call the untouched originals; refuses to run if a target is not defined exactly "
            "once or is reachable other than through its wrapper); wazero. Modelled-not-verified: retain/release placement by "
            "internal/backends/compiler_wat (explored per program only), the allocator (C10), null references, the release callbacks' "
            "enumeration of the references stored in an item (observed as nested Release events, not predicted). Header-layout constants of "
            "the model are regenerated from heap.wat.ws (Gen/C11Hdr.lean, header_layout_matches_source); the zero loop of HeapAlloc is "
            "modelled by hand (alloc_zeroed) and checked on every real allocation (block poisoned at free time, so re-used memory is garbage), not regenerated from the WAT.",
    "technique": "Lean 4 proof over a protocol state machine + WAT-rewriting instrumentation of the real compiled programs with "
                 "model-independent oracles (poisoning, quarantine) + trace replay through the Lean model",
}
REQUIRED = ["rc_counts_references", "owned_step", "owned_reachable", "no_dangling_reference", "no_premature_free",
            "err_sticky_run", "free_dead_is_error", "release_dead_is_error", "release_zero_is_error", "no_double_free",
            "freed_were_live", "release_terminates", "release_terminates_acyclic", "alloc_zeroed", "header_layout_matches_source"]

REF_TYPES = ["str", "S", "PS", "sl", "arr", "mp", "I", "fn", "any"]


def regen_header(ctx):
    out = os.path.join(vlib.LEAN, "WaVerif", "Gen", "C11Hdr.lean")
    if os.path.exists(out):
        os.remove(out)
    p = subprocess.run(["python3", os.path.join(vlib.VERIF, "extract", "c11_hdr.py"), vlib.REPO, out],
                       stdout=subprocess.PIPE, stderr=subprocess.STDOUT, text=True)
    if p.returncode != 0 or not os.path.exists(out):
        # the source no longer has the shape the extractor reads: the tie is broken, not the infrastructure
        ctx.proof["broken"].append({"theorem": "header_layout_matches_source", "why": "extract/c11_hdr.py: " + p.stdout.strip()[-300:]})
        with open(out, "w") as f:
            f.write("/-! extractor failed -/\nnamespace WaVerif.Gen.C11Hdr\nend WaVerif.Gen.C11Hdr\n")


def workload(ctx):
    """[(name, construct, src)]"""
    rng = ctx.rng
    quick = ctx.tier == "quick"
    scale = float(os.environ.get("VERIF_SCALE", "1"))       # smoke-testing aid: shrinks the thorough volumes
    progs = []
    cdir = os.path.join(vlib.VERIF, "corpus", "C11")
    for f in sorted(glob.glob(os.path.join(cdir, "*.wa.go"))):
        progs.append(("corpus:" + os.path.basename(f)[:-6], "corpus:" + os.path.basename(f)[:-6], open(f).read()))
    names = list(c11_progs.ALIAS)
    if quick:
        rng.shuffle(names)
        for i in range(0, len(names), 3):
            grp = names[i:i + 3]
            progs.append(("alias:" + "+".join(grp), "alias:" + "+".join(grp), c11_progs.alias_program(grp, ks=(1, 6))))
    else:
        for nm in names[:max(1, int(len(names) * scale))]:
            progs.append(("alias:" + nm, "alias:" + nm, c11_progs.alias_program([nm], ks=(0, 1, 2, 6, 13, 40))))
    for i in range(6 if quick else max(1, int(80 * scale))):
        r = random.Random(rng.getrandbits(48))
        progs.append(("random-alias:%d" % i, "random-alias", c11_progs.random_alias_program(r, nops=40 if quick else 90)))
    # the feature matrix: every usage context of every reference-bearing value type, three iterations each
    types = REF_TYPES if not quick else rng.sample(REF_TYPES, 5)
    for t, src, ctxs in c11_progs.matrix_loop_programs(3, types=types):
        progs.append(("matrix:" + t, "matrix:" + t, src))
    try:
        from gen import progs as gp
        for i in range(8 if quick else max(1, int(120 * scale))):
            r = random.Random(rng.getrandbits(48))
            p = gp.gen_program(r, size=["small", "medium", "large"][i % 3] if not quick else ["small", "medium"][i % 2], stream="safe")
            progs.append(("generated:%d" % i, "generated", p.render_go()))
    except Exception as e:      # the shared generator is optional
        ctx.notes.append("gen/progs.py not usable: %r" % (e,))
    return progs


def minimise(ctx, harness, name, construct, src, res):
    """a grouped alias program failed: re-run its templates one by one so that the finding names the construct"""
    if not construct.startswith("alias:") or "+" not in construct:
        return None
    parts = construct[len("alias:"):].split("+")
    singles = [("alias:" + nm, c11_progs.alias_program([nm], ks=(1, 6))) for nm in parts]
    rr = c11_run.run_programs(ctx, harness, singles, trace=False, workers=len(singles))
    return [(n, "alias:" + n.split(":", 1)[1], s, rr[n]) for n, s in singles]


def bad(res):
    if res.get("status") != "ok":
        return False
    return any((mr.get("violations") or not mr.get("out_same")) for mr in res["modes"].values())


def run(ctx):
    harness = ctx.build_harness("c11")
    regen_header(ctx)
    ctx.prove(required=REQUIRED)
    model = ctx.build_model("c11")
    progs = workload(ctx)
    workers = int(os.environ.get("VERIF_WORKERS", "12" if ctx.tier == "quick" else "14"))
    results = c11_run.run_programs(ctx, harness, [(n, s) for n, _, s in progs], trace=True, workers=workers)
    dist, evals, samples, nontrivial = {}, 0, [], 0
    for name, construct, src in progs:
        res = results[name]
        if res.get("status") in ("rewrite-error",):
            raise vlib.InfraError("the WAT rewriting no longer applies (%s): the runtime's function set changed, "
                                  "harness/c11/rewrite.go must be revisited" % res.get("error"))
        if res.get("status") in ("harness-died", "harness-garbled", "run-error"):
            ctx.notes.append("%s: %s %s" % (name, res.get("status"), str(res.get("error"))[:200]))
        if res.get("status") in ("build-error", "asm-error"):
            # outside C11's domain (front-end / validity are C16's); a hand-written template that stops compiling is coverage loss
            ctx.notes.append("%s not compiled: %s" % (name, str(res.get("error"))[:200]))
        if bad(res):
            single = minimise(ctx, harness, name, construct, src, res)
            if single:
                hit = False
                for n2, c2, s2, r2 in single:
                    if bad(r2):
                        hit = True
                        evals += c11_run.judge_c11(ctx, n2, c2, s2, r2, {})
                if hit:
                    continue
        evals += c11_run.judge_c11(ctx, name, construct, src, res, dist)
        if res.get("status") == "ok":
            st = res["modes"]["poison"]["stats"]
            if st["frees"] > 0 and st["reused_addresses"] > 0 and st["retains"] > 0:
                nontrivial += 1
            if len(samples) < 8:
                samples.append({"program": name, "output_lines": res["out_lines"], "mallocs": st["mallocs"], "frees": st["frees"],
                                "retains": st["retains"], "releases": st["releases"], "reused_addresses": st["reused_addresses"],
                                "zero_checked_bytes": st["zero_checked_bytes"], "live_at_exit": st["live_end"],
                                "trace_events": res["modes"]["poison"]["trace_events"],
                                "output_same_poison": res["modes"]["poison"]["out_same"],
                                "output_same_quarantine": res["modes"].get("quarantine", {}).get("out_same")})
    compiled = dist.get("status:ok", 0)
    if compiled == 0:
        raise vlib.InfraError("no workload program could be compiled and run: %s" % ctx.notes[:3])
    # correspondence: the real event traces through the Lean model
    nev, diffs = c11_run.replay_traces(ctx, model, [(n, results[n]) for n, _, _ in progs])
    for owner, i, op, a, b in diffs:
        ctx.proof["broken"].append({"theorem": "correspondence C11 trace replay (wamodel_c11 vs real run)",
                                    "why": "program %s event %d %r: real=%r model=%r" % (owner, i, op, a, b)})
    dist["trace_events_replayed"] = nev
    cov = {
        "evaluations": evals + nev,
        "distinct_nontrivial": nontrivial,
        "rule": "evaluations = oracle verdicts (4 per program and instrumentation mode: no bad free, no retain/release of a freed block, "
                "fresh blocks zero, output identical) + trace events replayed through the Lean model; distinct_nontrivial = programs whose "
                "poison run freed blocks, re-used freed addresses and performed retains (so a premature free would hand poisoned memory to live data)",
        "samples": samples,
        "distribution": dist,
        "programs": len(progs),
    }
    return ctx.finish("exploration", cov,
                      assumptions=["every reference-typed value the compiled program manipulates goes through $runtime.Block.Retain/Release "
                                   "(checked: the rewritten module has no other call of the originals)",
                                   "a use after free is observable as a changed output/trap under poisoning, as a Retain/Release on a freed "
                                   "block, or as a changed byte in a quarantined block"],
                      trusted_base=["harness/c11 (WAT rewriting + host-side accounting), internal/wazero hook VerifC11Run",
                                    "hand-written protocol model WaVerif/Model/C11RC.lean tied by trace replay and by the regenerated header layout"])
