"""C10 — Heap allocator never hands out overlapping or out-of-heap memory."""
import concurrent.futures as cf
import json, os, random, re, subprocess, sys

from lib import vlib

PROP = "C10"
META = {
    "category": "proof",
    "text": "Lean theorems, by induction over arbitrary malloc/free histories (Inv init; Inv s -> Inv (step s op)), about a hand-written "
            "abstract model that transcribes internal/waroot/malloc/malloc.wat (size classes, LIFO fixed lists with capacity flush, K&R "
            "first-fit ring with rover/split/exact take, bump allocation with memory.grow, K&R coalescing free): live blocks disjoint, "
            "inside [heap start, heap_ptr) and inside memory, 8-aligned, at least as large as requested, disjoint from the list heads; "
            "tiling of the heap by live+free blocks (every byte in exactly one block); general list sorted and fully coalesced; write log "
            "outside every live payload; exact condition for malloc = 0. The model is tied to the real WAT (run by the vendored wazero via "
            "malloc.Heap) by a correspondence run comparing returned pointer, globals, all list walks after every operation and the changed "
            "memory words against the model's write log; heap_malloc.wat.ws (the copy linked into programs) is tied to malloc.wat by a "
            "regenerated function-body comparison. The straight-line helpers ($heap_alignment8, $heap_free_list.ptr_and_fixed_size, "
            "$heap_is_fixed_size, $heap_block.data, the assert helpers) are additionally REGENERATED from malloc.wat as a Lean term on every run "
            "and proved equal to the model's align8 / ptrAndFixedSize by symbolic execution of a WAT-subset interpreter (Props/C10Wat.lean); "
            "interpreter + term are compared with wazero on the exported helpers.",
    "note": "Trusted: Lean kernel; the hand-written model's tie to the WAT is differential (correspondence), not a refinement proof; wazero "
            "executes the WAT; the oracle in harness/c10 (overlap/alignment/bounds/size/canary/header/tiling/zero-condition on the real heap). "
            "Reported as finding: growth ignoring slack (the failure condition proved is the code's exact one). The two former exclusions "
            "(malloc(0) with the fixed lists disabled; heap_ptr + block reaching 2^31) were repaired in /repo and are now covered by the theorems "
            "(malloc0_nofixed_repaired, bump_wrap_repaired) and by ordinary generated operations and probes. "
            "Not proved: rover-in-ring and fixed-list length <= capacity (checked by the oracle on the real heap after every op); the "
            "loop-carrying WAT functions are tied by correspondence only; i32 in the helper interpreter is modelled as wrapped Int.",
    "technique": "Lean 4 proof over hand-written model + differential correspondence incl. write-log + oracle on the real heap + regenerated WAT tie",
}
REQUIRED = ["malloc0_nofixed_repaired", "bump_wrap_repaired", "live_disjoint", "live_in_heap", "live_aligned8", "live_size_ge_request", "tiling",
            "free_list_sorted_nonadjacent", "writes_outside_live_payloads", "malloc_zero_iff"]

REQUIRED_WAT = ["gen_alignment8", "gen_ptr_and_fixed_size", "gen_is_fixed_size", "gen_block_data",
                "gen_assert_align8_ok", "gen_assert_align8_trap", "gen_assert_valid_ptr"]
HELPERS = {"heap_assert_valid_ptr": 1, "heap_is_fixed_list_enabled": 0, "heap_assert_fixed_list_enabled": 0, "heap_is_fixed_size": 1,
           "heap_alignment8": 1, "heap_assert_align8": 1, "heap_block.data": 1, "heap_free_list.ptr_and_fixed_size": 1}


def gen_helper_ops(ctx):
    vals = set(range(-9, 140)) | {1 << 30, (1 << 30) - 1, (1 << 30) + 1, (1 << 31) - 1, -(1 << 31), (1 << 31) - 8, (1 << 31) - 7, 65536, 65535}
    for _ in range(200 if ctx.tier == "quick" else 5000):
        vals.add(ctx.rng.choice(vlib.boundary_ints(32, True)))
        vals.add(ctx.rng.randrange(-(1 << 31), 1 << 31))
    ops = []
    for cfgv in [(1, 2, 100, 1000, 3), (1, 2, 100, 1000, 0), (1, 10, 32768, 40960, 100), (16385, 32767, 100, 1 << 30, 1)]:
        ops.append("hcfg %d %d %d %d %d" % cfgv)
        for name, ar in sorted(HELPERS.items()):
            if ar == 0:
                ops.append("h %s" % name)
            else:
                for v in sorted(vals):
                    ops.append("h %s %d" % (name, v))
    return ops


SMALL = [0, 1, 7, 8, 9, 15, 16, 17, 23, 24, 25, 31, 32, 33, 40, 47, 48, 49, 56, 72, 79, 80, 81, 87, 88, 89, 96, 120, 127, 128, 129, 135, 136, 137]
MEDIUM = [144, 200, 256, 257, 500, 1000, 1024, 2000, 4096, 8000]
PAGE = 65536

# (pages, maxPages, stackPtr, heapBase, cap)
VALID_CFGS = [
    (1, 2, 100, 1000, 0), (1, 2, 100, 1000, 1), (1, 2, 100, 1000, 3), (1, 2, 100, 1000, 100),
    (1, 1, 8, 16, 3), (1, 1, 100, 1000, 0), (1, 10, 32768, 40960, 100), (1, 10, 32768, 40960, 0),
    (2, 3, 1024, 65536 + 2048, 2), (1, 3, 100, 65536 - 56, 1), (3, 5, 60000, 131072 + 8, 64),
    (1, 4, 100, 1000, 2), (1, 40, 100, 1000, 5), (1, 2, 4, 8, 1),
]
INVALID_CFGS = [
    (1, 2, 100, 1001, 3), (1, 2, 100, 1004, 3), (1, 2, 1000, 1000, 3), (1, 2, 0, 1000, 3),
    (1, 2, 2000, 1000, 3), (1, 2, 100, 65536 - 48, 3), (1, 2, 100, 65536, 3), (3, 2, 100, 1000, 3),
]


class Driver:
    """one interactive harness process (one output line per input line)"""

    def __init__(self, path):
        self.path = path
        self.p = None

    def start(self):
        self.p = subprocess.Popen([self.path], stdin=subprocess.PIPE, stdout=subprocess.PIPE, text=True, bufsize=1)

    def ask(self, line):
        if self.p is None or self.p.poll() is not None:
            self.start()
        try:
            self.p.stdin.write(line + "\n")
            self.p.stdin.flush()
            out = self.p.stdout.readline()
        except (BrokenPipeError, OSError):
            out = ""
        if not out:
            self.close()
            return "CRASH"
        out = out.rstrip("\n")
        if out == "HANG":
            self.close()
        return out

    def close(self):
        if self.p is not None:
            try:
                self.p.stdin.close()
            except Exception:
                pass
            try:
                self.p.wait(timeout=40)
            except Exception:
                self.p.kill()
            self.p = None


def split_line(line):
    """-> (comparable part, [(key, detail)], changed words or None)"""
    parts = line.split(" ## ")
    viol, chg = [], None
    for p in parts[1:]:
        if p.startswith("viol="):
            for e in p[5:].split(";"):
                k, _, d = e.partition("|")
                viol.append((k, d))
        elif p.startswith("chg="):
            body = p[5:-1]
            chg = [int(x) for x in body.split(",")] if body else []
    return parts[0], viol, chg


def field(line, name):
    m = re.search(r"(?:^| )%s=(\S+)" % name, line)
    return m.group(1) if m else None


def eff_size(cap, req):
    a = (req + 7) // 8 * 8
    if cap == 0:
        return a or 8
    if a > 128:
        return a
    if a > 80:
        return 128
    if a > 48:
        return 80
    if a > 32:
        return 48
    if a > 24:
        return 32
    return 24


class Gen:
    """adaptive history generator: sees the real heap's answers (pointer, heap_ptr, heap_top)"""

    def __init__(self, rng, cfg, nops, style):
        self.rng, self.cfg, self.nops, self.style = rng, cfg, nops, style
        self.live = []           # pointers, allocation order
        self.hp = cfg[3] + 48
        self.phase_alloc = True
        self.phase_left = rng.randrange(5, 60)

    def size(self):
        rng, (pages, maxp, sp, base, cap) = self.rng, self.cfg
        r = rng.random()
        if self.style == "small" or r < 0.62:
            s = rng.choice(SMALL)
        elif r < 0.85:
            s = rng.choice(MEDIUM) + rng.choice([0, 0, 1, -1, 7])
        elif r < 0.93:
            s = rng.choice([PAGE - 64, PAGE - 56, PAGE - 8, PAGE, PAGE + 1, 2 * PAGE - 100, PAGE // 2, 30000]) + rng.choice([0, -8, 8])
        else:
            # relative to what is left below the maximum / below heap_top
            room = maxp * PAGE - self.hp - 8
            s = max(0, room + rng.choice([-PAGE - 8, -PAGE, -PAGE + 8, -24, -16, -8, -1, 0, 1, 8, 16, 4096]))
            if rng.random() < 0.5:
                s = max(0, s // rng.choice([2, 3, 4]))
        return min(max(s, 0), 1 << 30)

    def next(self):
        rng = self.rng
        if self.style == "phases":
            self.phase_left -= 1
            if self.phase_left <= 0:
                self.phase_alloc = not self.phase_alloc
                self.phase_left = rng.randrange(5, 120)
            want_alloc = self.phase_alloc if rng.random() < 0.9 else not self.phase_alloc
        else:
            want_alloc = rng.random() < (0.55 if len(self.live) < 150 else 0.3)
        if want_alloc or not self.live:
            return "m %d" % self.size()
        mode = rng.random()
        if mode < 0.5:
            i = rng.randrange(len(self.live))
        elif mode < 0.7:
            i = len(self.live) - 1
        elif mode < 0.85:
            i = 0
        else:
            i = min(len(self.live) - 1, (rng.randrange(len(self.live)) // 2) * 2)
        return "f %d" % self.live.pop(i)

    def saw(self, op, out):
        if op.startswith("m "):
            r = field(out, "r")
            if r and r != "0":
                self.live.append(int(r))
        hp = field(out, "hp")
        if hp and hp.lstrip("-").isdigit():
            self.hp = int(hp)


def run_history(drv, rng, cfg, nops, style, script=None):
    """-> list of (op line, impl output line, compare flag).  `script`: fixed op lines; `f @k` frees the k-th malloc's result;
    a trailing '!' marks an op of a known trigger class: oracle only, not compared with the model, ends the history."""
    rec = []
    line = "cfg %d %d %d %d %d" % cfg
    out = drv.ask(line)
    rec.append((line, out, True))
    if not out.startswith("ok"):
        return rec
    g = Gen(rng, cfg, nops, style)
    results = []
    n = len(script) if script is not None else nops
    for i in range(n):
        cmp_flag = True
        if script is not None:
            op = script[i]
            if op.endswith("!"):
                op, cmp_flag = op[:-1].strip(), False
            if op.startswith("f @"):
                k = int(op[3:])
                if k >= len(results) or results[k] in (None, 0):
                    continue
                op, results[k] = "f %d" % results[k], None
        else:
            op = g.next()
        out = drv.ask(op)
        rec.append((op, out, cmp_flag))
        if op.startswith("m "):
            r = field(out, "r")
            results.append(int(r) if r and r.lstrip("-").isdigit() else None)
        g.saw(op, out)
        if out in ("HANG", "CRASH") or out.startswith("PANIC") or " DEAD" in out.split(" ## ")[0] or not cmp_flag:
            break
    return rec


def classify(prev, cur, op):
    """which path of the allocator an op took, from the real heap's before/after dumps"""
    def lists(l):
        return [field(l, "f%d" % k) for k in range(4)], field(l, "ring")
    if " DEAD" in cur or prev is None:
        return "dead"
    (pf, pr), (cf_, cr) = lists(prev), lists(cur)
    nring = lambda r: 0 if r in (None, "[]") else r.count(",") + 1
    if op.startswith("m "):
        if field(cur, "r") == "0":
            return "m:fail"
        if field(prev, "hp") != field(cur, "hp"):
            return "m:bump-grow" if field(prev, "pg") != field(cur, "pg") else "m:bump"
        if pf != cf_:
            return "m:fixed-pop"
        return "m:split" if nring(pr) == nring(cr) else "m:exact"
    if pf != cf_:
        return "f:fixed-flush" if pr != cr else "f:fixed-push"
    d = nring(cr) - nring(pr)
    return {1: "f:general-nojoin", 0: "f:general-join1", -1: "f:general-join2"}.get(d, "f:general-flush?")


PROBES = [
    # (name, cfg, script)
    ("malloc0-nofixed-fresh", (1, 2, 100, 1000, 0), ["m 0", "m 0", "m 16", "f @0", "m 0", "f @1"]),
    ("malloc0-nofixed-after-traffic", (1, 2, 100, 1000, 0), ["m 100", "m 200", "m 50", "f @1", "m 64", "m 0", "m 8", "f @4", "m 0"]),
    ("malloc0-nofixed-rover-last", (1, 2, 100, 1000, 0), ["m 100", "m 100", "m 100", "m 100", "f @1", "f @2", "m 8", "m 0", "m 100", "f @5", "m 0"]),
    ("growth-slack", (1, 2, 100, 1000, 3), ["m 60000", "m 70000", "m 65000"]),
    ("test-largeSize", (1, 2, 100, 1000, 3), ["m 64536", "f @0", "m 64636", "m 65536"]),
    ("flush-cap1", (1, 2, 100, 1000, 1), ["m 1", "m 1", "m 1", "f @0", "f @2", "f @1", "m 1", "m 24", "m 25"]),
    ("split-to-zero", (1, 2, 100, 1000, 0), ["m 64", "m 8", "f @0", "m 56", "m 1", "f @1", "f @2", "f @3"]),
    ("exact-page", (1, 2, 100, 1000, 3), ["m %d" % (65536 - 1048 - 8 - 8), "m 1", "m 8"]),
    ("exact-page-eq", (1, 2, 100, 1000, 3), ["m %d" % (65536 - 1048 - 8), "m 1"]),
    ("max-exhaust", (1, 1, 100, 1000, 3), ["m 30000", "m 30000", "m 4000", "m 400", "m 80", "m 24", "f @0", "m 29000", "m 900", "m 30000"]),
]
# heap_ptr + block >= 2^31 (repaired by 786cf0e: must return 0 and leave the heap intact): needs >= 1 GiB of linear memory.
# The quick variant starts with 1 GiB of (untouched, lazily mapped) initial memory and a heap base at 2^30; the thorough
# variant grows there through memory.grow (slow: wazero copies).
BIG_PROBE = ("bump-i32-wrap", (16385, 32767, 100, 1 << 30, 3), ["m 8", "m 1073741824", "m 100", "f @0", "m 1073741000", "m 24"])
BIG_PROBE_GROW = ("bump-i32-wrap-after-grow", (1, 32767, 100, 1000, 3), ["m 1073741824", "m 1073741824", "m 64"])


def run(ctx):
    harness = ctx.build_harness("c10")
    # ---- tie between the two carriers of the allocator (regenerated on every run)
    rc, o = vlib.sh([sys.executable, os.path.join(vlib.VERIF, "extract", "c10_wat_tie.py"), vlib.REPO])
    tie = None
    ctx.proof["obligations"] += 1
    try:
        tie = json.loads(o.strip().splitlines()[-1])
    except Exception:
        ctx.proof["broken"].append({"theorem": "tie heap_malloc.wat.ws = malloc.wat", "why": "extractor failed: %s" % o[-500:]})
    if tie is not None:
        if tie["differences"]:
            for d in tie["differences"][:10]:
                ctx.proof["broken"].append({"theorem": "tie heap_malloc.wat.ws = malloc.wat (modulo documented renames)", "why": d})
        else:
            ctx.proof["discharged"] += 1
    ctx.prove(required=REQUIRED)
    model = ctx.build_model("c10")
    # ---- regenerated WAT of the straight-line helpers: Lean term re-derived from malloc.wat, theorems re-checked on it,
    #      and the interpreter + term compared with wazero running the same functions
    gen = os.path.join(vlib.LEAN, "WaVerif", "Gen", "C10Wat.lean")
    if os.path.exists(gen):
        os.remove(gen)
    rc, o = vlib.sh([sys.executable, os.path.join(vlib.VERIF, "extract", "c10_wat2lean.py"), vlib.REPO, gen])
    wat_model = None
    if rc != 0 or not os.path.exists(gen):
        ctx.proof["obligations"] += 1
        ctx.proof["broken"].append({"theorem": "regenerate Gen/C10Wat.lean from malloc.wat", "why": o.strip()[-400:]})
    else:
        ctx.prove(module="WaVerif.Props.C10Wat", required=REQUIRED_WAT)
        wat_model = ctx.build_model("c10wat")
    helper_lines = 0
    if wat_model:
        hops = gen_helper_ops(ctx)
        _, ho, _ = ctx.run_bin(harness, input_text="\n".join(hops) + "\n", timeout=600)
        _, hm, _ = ctx.run_bin(wat_model, input_text="\n".join(hops) + "\n", timeout=600)
        helper_lines = len(hops)
        for i, op, a, b in ctx.diff_lines(hops, ho.splitlines(), hm.splitlines())[:10]:
            ctx.proof["broken"].append({"theorem": "correspondence C10 regenerated helper WAT (Lean interpreter) vs wazero",
                                        "why": "op %r: wazero=%r lean=%r" % (op, a, b)})

    quick = ctx.tier == "quick"
    nhist, nops = (48, 400) if quick else (480, 1500)
    jobs = []        # (name, cfg, nops, style, script, seed)
    if ctx.replay:
        rp = json.load(open(ctx.replay))
        h = rp["replay"]["history"] if "replay" in rp else rp["history"]
        cfgv = tuple(int(x) for x in h[0].split()[1:])
        jobs.append(("replay", cfgv, 0, "script", h[1:], 0))
    else:
        cdir = os.path.join(vlib.VERIF, "corpus", PROP)
        for fn in sorted(os.listdir(cdir)) if os.path.isdir(cdir) else []:
            if fn.endswith(".json"):
                c = json.load(open(os.path.join(cdir, fn)))
                jobs.append(("corpus:" + fn, tuple(c["cfg"]), 0, "script", c["ops"], 0))
        for name, cfgv, script in PROBES:
            jobs.append(("probe:" + name, cfgv, 0, "script", script, 0))
        for c in INVALID_CFGS:
            jobs.append(("invalid-cfg", c, 0, "script", [], 0))
        for i in range(nhist):
            cfgv = VALID_CFGS[i % len(VALID_CFGS)]
            if i >= 2 * len(VALID_CFGS) and ctx.rng.random() < 0.5:
                pages = ctx.rng.choice([1, 1, 2, 3])
                base = ctx.rng.choice([8, 16, 1000, 4096, 40960, pages * PAGE - 4096, pages * PAGE - 1024])
                cfgv = (pages, pages + ctx.rng.choice([0, 1, 1, 2, 5, 30]), ctx.rng.choice([4, base - 8, base // 2 + 1]),
                        base, ctx.rng.choice([0, 1, 2, 3, 5, 64, 100]))
            style = ["mixed", "phases", "small", "phases"][i % 4]
            jobs.append(("gen", cfgv, nops, style, None, ctx.rng.getrandbits(48)))
        jobs.append(("probe:" + BIG_PROBE[0], BIG_PROBE[1], 0, "script", BIG_PROBE[2], 0))
        if not quick:
            jobs.append(("probe:" + BIG_PROBE_GROW[0], BIG_PROBE_GROW[1], 0, "script", BIG_PROBE_GROW[2], 0))

    def work(chunk):
        drv = Driver(harness)
        res = []
        for (name, cfgv, n, style, script, seed) in chunk:
            res.append((name, cfgv, run_history(drv, random.Random(seed), cfgv, n, style, script)))
        drv.close()
        mlines = None
        if model:           # the model replays this worker's op lines (concrete pointers) in one batch
            ops_ = [r[0] for (_, _, rec) in res for r in rec]
            _, mo, _ = ctx.run_bin(model, input_text="\n".join(ops_) + "\n", timeout=3000)
            mlines = mo.splitlines()
        return res, mlines

    nw = 8 if quick else 16
    chunks = [jobs[i::nw] for i in range(nw)]
    hists, model_lines = [], []
    with cf.ThreadPoolExecutor(nw) as ex:
        for r, ml in ex.map(work, [c for c in chunks if c]):
            hists.extend(r)
            nops_ = sum(len(rec) for (_, _, rec) in r)
            ml = (ml or [])[:nops_]
            model_lines.extend(ml + ["<missing>"] * (nops_ - len(ml)))

    # ---- oracle verdicts (evaluated by harness/c10 on the real heap) and distribution
    dist, cfg_seen, nontrivial = {}, set(), set()
    evaluations = 0
    samples = []
    allops, allimpl, cmpflags, owner = [], [], [], []
    for hi, (name, cfgv, rec) in enumerate(hists):
        prev = None
        cfg_seen.add(cfgv)
        for j, (op, out, flag) in enumerate(rec):
            evaluations += 1
            main, viol, chg = split_line(out)
            hist_lines = [r[0] for r in rec[:j + 1]]
            if out in ("HANG", "CRASH") or out.startswith("PANIC"):
                ctx.violation("harness:" + out.split()[0].lower(), "%s on op %r of history %s cfg=%s" % (out[:200], op, name, cfgv),
                              {"history": hist_lines, "impl": out})
            for k, d in viol:
                ctx.violation(k, "%s  [history %s cfg=%s, op #%d %r]" % (d, name, cfgv, j, op), {"history": hist_lines, "impl": out})
            if op.startswith(("m ", "f ")):
                c = classify(prev, main, op)
                dist[c] = dist.get(c, 0) + 1
                nontrivial.add((cfgv[4] if cfgv[4] < 4 else "big", cfgv[0] == cfgv[1], c,
                                eff_size(cfgv[4], int(op.split()[1])) if op[0] == "m" else ""))
            else:
                dist["cfg:" + main.split()[0]] = dist.get("cfg:" + main.split()[0], 0) + 1
            prev = main
            allops.append(op); allimpl.append(out); cmpflags.append(flag); owner.append((hi, j))
        if len(samples) < 10 and len(rec) > 3:
            samples.append({"history": name, "cfg": cfgv, "first_ops": [{"op": r[0], "impl": r[1][:300]} for r in rec[1:4]]})

    # ---- correspondence with the Lean model, line by line, incl. write log ⊇ changed words
    wl_checked = wl_words = 0
    if model:
        mlines = model_lines
        impl_cmp, model_cmp = [], []
        for i, op in enumerate(allops):
            a = split_line(allimpl[i])[0]
            b = mlines[i] if i < len(mlines) else "<missing>"
            mw = None
            m = re.search(r" w=\[([0-9,]*)\]$", b)
            if m:
                mw = set(int(x) for x in m.group(1).split(",")) if m.group(1) else set()
                b = b[:m.start()]
            if not cmpflags[i]:
                a = b = "(known trigger class: oracle only)"
            else:
                chg = split_line(allimpl[i])[2]
                if chg is not None and mw is not None:
                    wl_checked += 1
                    wl_words += len(chg)
                    extra = [w for w in chg if w not in mw]
                    if extra:
                        a += " changed-words-not-in-model-write-log=%s" % extra[:5]
            impl_cmp.append(a); model_cmp.append(b)
        if len(mlines) != len(allops):
            model_cmp = model_cmp[:len(mlines)]
        diffs = ctx.diff_lines(allops, impl_cmp, model_cmp)
        for i, op, a, b in diffs[:20]:
            hi, j = owner[i] if i >= 0 else (0, 0)
            ctx.proof["broken"].append({"theorem": "correspondence C10 model vs malloc.wat in wazero",
                                        "why": "history %s cfg=%s op #%d %r: impl=%r model=%r" % (hists[hi][0], hists[hi][1], j, op, a[:400], b[:400]),
                                        "history": [r[0] for r in hists[hi][2][:j + 1]]})
    cov = {
        "evaluations": evaluations,
        "distinct_nontrivial": len(nontrivial),
        "rule": "one evaluation = one cfg/malloc/free executed by the real WAT in wazero with the full oracle (live blocks: alignment, bounds, "
                "size>=request, no overlap, headers and canary contents unchanged; list walks; tiling walk; changed words only in list heads / "
                "block headers; malloc=0 condition) and compared with the model; distinct_nontrivial counts distinct (capacity class, tight-max, "
                "allocator path taken as observed on the real heap, effective block size) tuples",
        "samples": samples,
        "distribution": dist,
        "histories": len(hists),
        "configurations": len(cfg_seen),
        "write_log_ops_checked": wl_checked,
        "write_log_changed_words": wl_words,
        "tie": tie,
        "helper_wat_ops_compared": helper_lines,
    }
    return ctx.finish("proof", cov,
                      assumptions=["CfgWF: 0 < stackPtr < heapBase, heapBase % 8 = 0, heapBase+48 < pages*64K, pages <= maxPages <= 32767 "
                                   "(all addresses signed-positive); OpOK: requests <= 2^30; frees only of live blocks",
                                   "'can be satisfied' is read with the allocator's size-class rounding (24/32/48/80, at least 128 above 80)",
                                   "the abstract model keeps the ring as an address-ordered list; the K&R position search is modelled by its result"],
                      trusted_base=["hand-written Lean model WaVerif/Model/C10.lean tied by the correspondence run (harness/c10, wazero executing malloc.wat)",
                                    "oracle in harness/c10/main.go", "extract/c10_wat_tie.py (token comparison of the two WAT files)",
                                    "extract/c10_wat2lean.py + the WAT-subset interpreter Model/C10Wat.lean (i32 as wrapped Int), both compared "
                                    "with wazero on the exported helper functions"])
