"""C21 — language-server document sync matches the client's document."""
import glob, json, os, re, sys, zlib

PROP = "C21"
META = {
    "category": "proof",
    "text": "Lean theorems over a transcription of Mapper.initLines/PositionOffset and of changedText/applyIncrementalChanges/DidChange "
            "(UTF-8 bytes, Go's utf8.DecodeRune) and a client model (List Char, LSP (line, UTF-16 column) positions): every position "
            "that denotes a character boundary maps to exactly that boundary's byte offset, one valid range edit gives the UTF-8 of the "
            "client's result, by induction any history of open / full / incremental notifications keeps server text = utf8(client text), "
            "and a notification with an undenoting range is rejected with the stored text unchanged. The hand-written model is tied to "
            "/repo by a correspondence run through the real jsonrpc dispatch + DidOpen/DidChange, and the property's own predicate is "
            "evaluated on the real code against an independent UTF-16 client written in Python.",
    "note": "Trusted: Lean kernel; the model's tie to the Go code is differential (correspondence), not a proof; Go's encoding/json and "
            "utf8.DecodeRune are library code (DecodeRune is transcribed and compared on invalid input too). Guards of the theorems: no lone "
            "\\r in any document state a range is resolved in (LSP treats it as a line end, the server does not), positions not inside a "
            "surrogate pair (the server rounds down), notifications are one full change or incremental changes only (a list mixing both "
            "is rejected by the server). invalid_rejected needs one more guard than designed (column one past the content of a CRLF line "
            "is accepted and denotes the gap between \\r and \\n): the full statement is refuted in Lean by a witness and the witness is "
            "replayed on the real code (recorded finding).",
    "technique": "Lean 4 proof over hand-written model + differential correspondence through the real dispatcher + independent Python UTF-16 client oracle",
}
REQUIRED = ["positionOffset_correct", "apply_one", "sync_history", "invalid_rejected_partial",
            "invalid_rejected_full_false", "didChange_error_unchanged", "lsp_charIndex_eq"]

WA = "file:///w/a.wa"

# ----------------------------------------------------------------------------- independent client
# A document is a python str of scalar values (no surrogates). Positions are (line, UTF-16 column).
# Line terminators per the LSP specification: "\n", "\r\n" and "\r".


def u16(ch):
    return 2 if ord(ch) > 0xFFFF else 1


def lsp_lines(doc):
    """[(start, end_of_content, terminator_length)] of every line."""
    lines, i, start, n = [], 0, 0, len(doc)
    while i < n:
        ch = doc[i]
        if ch == "\n":
            lines.append((start, i, 1)); i += 1; start = i
        elif ch == "\r":
            if i + 1 < n and doc[i + 1] == "\n":
                lines.append((start, i, 2)); i += 2; start = i
            else:
                lines.append((start, i, 1)); i += 1; start = i
        else:
            i += 1
    lines.append((start, n, 0))
    return lines


def client_index(doc, line, col):
    """index (in scalar values) denoted by the position, or (None, reason)."""
    lines = lsp_lines(doc)
    if line == len(lines):
        # "If a line number is greater than the number of lines in a document, it defaults back to the
        # number of lines in the document": (lineCount, 0) is the end of the document.
        return (len(doc), None) if col == 0 else (None, "beyond-eof-line")
    if line > len(lines):
        return None, "beyond-lines"
    s, e, term = lines[line]
    u = 0
    for j in range(s, e):
        if u == col:
            return j, None
        w = u16(doc[j])
        if u + w > col:
            return None, "mid-surrogate"
        u += w
    if u == col:
        return e, None
    if col == u + 1 and term == 2:
        return None, "after-cr-of-crlf"
    return None, "beyond-line-end"


def pos_of_index(doc, i):
    """inverse of client_index for indices that are not inside a \\r\\n pair."""
    lines = lsp_lines(doc)
    for ln, (s, e, term) in enumerate(lines):
        if s <= i <= e:
            return ln, sum(u16(c) for c in doc[s:i])
    raise ValueError("index inside a line terminator")


def valid_indices(doc):
    return [i for i in range(len(doc) + 1) if not (0 < i < len(doc) and doc[i - 1] == "\r" and doc[i] == "\n")]


def has_lone_cr(doc):
    return any(c == "\r" and not (i + 1 < len(doc) and doc[i + 1] == "\n") for i, c in enumerate(doc))


def client_apply(doc, changes):
    """changes: list of ("F", text) | ("R", sl, sc, el, ec, text). Returns (newdoc, None) or (None, reason)."""
    for c in changes:
        if c[0] == "F":
            doc = c[-1]
            continue
        _, sl, sc, el, ec, text = c
        i, why = client_index(doc, sl, sc)
        if i is None:
            return None, why
        j, why = client_index(doc, el, ec)
        if j is None:
            return None, why
        if j < i:
            return None, "reversed"
        doc = doc[:i] + text + doc[j:]
    return doc, None


# ----------------------------------------------------------------------------- wire format
def hx(b):
    if isinstance(b, str):
        b = b.encode("utf-8")
    return b.hex() or "-"


def unhx(h):
    return b"" if h == "-" else bytes.fromhex(h)


def enc_change(c, rl=0):
    if c[0] == "F":
        return "F:%d:%s" % (rl, hx(c[1]))
    return "R:%d:%d:%d:%d:%d:%s" % (c[1], c[2], c[3], c[4], rl, hx(c[5]))


def enc_changes(cs, rls=None):
    if not cs:
        return "-"
    return ",".join(enc_change(c, (rls or {}).get(k, 0)) for k, c in enumerate(cs))


# ----------------------------------------------------------------------------- generators
STATS = {"eof_line_alias": 0}
ASTRAL = ["\U0001F600", "\U00010000", "\U0010FFFF", "\U0001D4B3"]
BMP = ["\u00e9", "\u4e16", "\ufffd", "\uffff", "\ud7ff", "\ue000", "\u0080", "\u07ff", "\u0800", "\u007f"]
ASCII = list("abcxyz ;{}()=\t")
# "invisible" / special code points a text pipeline is tempted to normalise: BOM / ZWNBSP, zero-width space and joiner,
# soft hyphen, Unicode line and paragraph separators, NEL, NUL, the replacement character, a noncharacter,
# astral characters (surrogate pairs on the wire). None of them is a line terminator for LSP.
SPECIAL = ["\ufeff", "\u200b", "\u200d", "\u00ad", "\u2028", "\u2029", "\u0085", "\x00", "\ufffd", "\ufffe",
           "\U0001F600", "\U0010FFFF"]


def gen_text(rng, maxtok, eol=None, allow_lone_cr=False):
    eol = eol or rng.choice(["\n", "\r\n", "mix", "mix"])
    out = []
    for _ in range(rng.randrange(0, maxtok + 1)):
        r = rng.random()
        if r < 0.18:
            out.append(rng.choice(["\n", "\r\n"]) if eol == "mix" else eol)
        elif r < 0.36:
            out.append(rng.choice(ASTRAL))
        elif r < 0.52:
            out.append(rng.choice(BMP))
        elif r < 0.54 and allow_lone_cr:
            out.append("\r")
        elif r < 0.60:
            out.append(rng.choice(SPECIAL))
        else:
            out.append(rng.choice(ASCII))
    if out and rng.random() < 0.12:                         # special code point at the very start / very end
        out[0 if rng.random() < 0.6 else -1] = rng.choice(SPECIAL)
    s = "".join(out)
    if not allow_lone_cr:
        # texts are inserted at arbitrary places; keep "\r" only as part of "\r\n" and never start
        # with "\n" (so that inserting after a "\r\n"-free context cannot create a lone "\r")
        assert not has_lone_cr(s)
    return s


def pick_index(rng, doc):
    vi = valid_indices(doc)
    r = rng.random()
    if r < 0.15:
        return vi[-1]                                   # EOF
    if r < 0.25:
        return vi[0]
    if r < 0.5:                                         # a line end / line start
        ends = [i for i in vi if i == len(doc) or doc[i] in "\r\n" or (i > 0 and doc[i - 1] == "\n")]
        return rng.choice(ends)
    return rng.choice(vi)


def pos_for(rng, doc, i):
    """a position denoting index i (sometimes the EOF-line alias)."""
    if i == len(doc) and rng.random() < 0.3:
        STATS["eof_line_alias"] += 1
        return len(lsp_lines(doc)), 0
    return pos_of_index(doc, i)


def gen_valid_change(rng, doc):
    i = pick_index(rng, doc)
    r = rng.random()
    if r < 0.3:
        j = i                                           # pure insert
    elif r < 0.5:
        later = [k for k in valid_indices(doc) if k >= i]
        j = rng.choice(later)                           # possibly across lines
    else:
        later = [k for k in valid_indices(doc) if i <= k <= i + 4]
        j = rng.choice(later)
    text = "" if rng.random() < 0.25 else gen_text(rng, 5)
    # an inserted text ending in "\r" cannot occur (gen_text never produces a lone "\r"); a text
    # inserted directly before "\n" after ... "\r" is impossible because positions inside "\r\n" are excluded
    sl, sc = pos_for(rng, doc, i)
    el, ec = pos_for(rng, doc, j)
    return ("R", sl, sc, el, ec, text)


def gen_invalid_change(rng, doc):
    """a range with at least one position that denotes nothing (or a reversed range); returns (change, intended class)."""
    lines = lsp_lines(doc)
    nl = len(lines)
    kinds = ["beyond-lines", "beyond-eof-line", "beyond-line-end", "reversed", "huge"]
    if any(t == 2 for _, _, t in lines):
        kinds += ["after-cr-of-crlf"] * 2
    if any(ord(c) > 0xFFFF for c in doc):
        kinds += ["mid-surrogate"] * 2
    k = rng.choice(kinds)
    good = pos_of_index(doc, pick_index(rng, doc))
    if k == "beyond-lines":
        bad = (nl + rng.choice([1, 2, 7]), rng.choice([0, 0, 3]))
    elif k == "huge":
        bad = rng.choice([(0xFFFFFFFF, 0), (0, 0xFFFFFFFF), (0xFFFFFFFF, 0xFFFFFFFF), (nl, 0xFFFFFFFF), (0x80000000, 0)])
    elif k == "beyond-eof-line":
        bad = (nl, rng.choice([1, 2, 100]))
    elif k == "beyond-line-end":
        ln = rng.randrange(nl)
        s, e, t = lines[ln]
        w = sum(u16(c) for c in doc[s:e])
        bad = (ln, w + (2 if t == 2 else 1) + rng.choice([0, 0, 1, 5]))
    elif k == "after-cr-of-crlf":
        ln = rng.choice([n for n, (_, _, t) in enumerate(lines) if t == 2])
        s, e, t = lines[ln]
        bad = (ln, sum(u16(c) for c in doc[s:e]) + 1)
    elif k == "mid-surrogate":
        i = rng.choice([n for n, c in enumerate(doc) if ord(c) > 0xFFFF])
        ln, col = pos_of_index(doc, i)
        bad = (ln, col + 1)
    else:                                               # reversed
        vi = valid_indices(doc)
        if len(vi) < 2:
            return ("R", nl + 1, 0, nl + 1, 0, "x"), "beyond-lines"
        a, b = sorted(rng.sample(vi, 2))
        (sl, sc), (el, ec) = pos_of_index(doc, b), pos_of_index(doc, a)
        return ("R", sl, sc, el, ec, gen_text(rng, 3)), "reversed"
    text = gen_text(rng, 3)
    r = rng.random()
    if r < 0.4:
        return ("R", bad[0], bad[1], bad[0], bad[1], text), k
    if r < 0.7:
        return ("R", good[0], good[1], bad[0], bad[1], text), k
    return ("R", bad[0], bad[1], good[0], good[1], text), k


class Hist:
    """accumulates ops and, per op, what the property requires of the server."""

    def __init__(self):
        self.ops = []       # wire lines
        self.exp = []       # dict(kind=..., text=str|None, why=...) per op
        self.start = []     # index of the first op of the history the op belongs to

    def add(self, op, exp, start):
        self.ops.append(op); self.exp.append(exp); self.start.append(start)


def gen_history(rng, H, tier, uri=WA, lone_cr=False):
    start = len(H.ops)
    H.add("reset", {"kind": "none"}, start)
    doc = gen_text(rng, rng.choice([0, 1, 4, 12, 30]), allow_lone_cr=lone_cr)
    H.add("open %s %s" % (uri, hx(doc)), {"kind": "sync", "text": doc, "lone_cr": lone_cr}, start)
    for _ in range(rng.randrange(3, 14)):
        doc = gen_notif(rng, H, uri, doc, start, lone_cr)


def gen_two_doc_history(rng, H):
    """two open documents edited alternately (fileMap is keyed by the URI's path)."""
    start = len(H.ops)
    H.add("reset", {"kind": "none"}, start)
    uris = ["file:///w/a.wa", rng.choice(["file:///w/sub/a.wa", "file:///w/b.wa", "file:///w/a.wa.wa"])]
    docs = [gen_text(rng, 8), gen_text(rng, 8)]
    for u, d in zip(uris, docs):
        H.add("open %s %s" % (u, hx(d)), {"kind": "sync", "text": d, "lone_cr": False}, start)
    for _ in range(rng.randrange(4, 12)):
        k = rng.randrange(2)
        docs[k] = gen_notif(rng, H, uris[k], docs[k], start, False)
        # the other document must be untouched: a zero-width edit at its start re-reads its stored text
        o = 1 - k
        H.add("change %s %s" % (uris[o], enc_changes([("R", 0, 0, 0, 0, "")])),
              {"kind": "sync", "text": docs[o], "changes": [("R", 0, 0, 0, 0, "")], "lone_cr": False}, start)


def gen_notif(rng, H, uri, doc, start, lone_cr):
    """appends one notification (plus a re-open where the server is expected to drop it); returns the client's new document."""
    if True:
        r = rng.random()
        if r < 0.62:                                    # valid incremental list
            cs, d = [], doc
            for _ in range(rng.choice([1, 1, 1, 2, 3])):
                c = gen_valid_change(rng, d)
                d, why = client_apply(d, [c])
                assert d is not None, (why, c)
                cs.append(c)
            rls = {k: rng.choice([1, 5, 0xFFFFFFFF]) for k in range(len(cs)) if rng.random() < 0.15}
            doc = d
            H.add("change %s %s" % (uri, enc_changes(cs, rls)),
                  {"kind": "sync", "text": doc, "changes": cs, "lone_cr": lone_cr or has_lone_cr(doc)}, start)
        elif r < 0.74:                                  # full
            doc = gen_text(rng, rng.choice([0, 3, 12, 30]), allow_lone_cr=lone_cr)
            H.add("change %s %s" % (uri, enc_changes([("F", doc)])), {"kind": "sync", "text": doc, "changes": [("F", doc)], "lone_cr": lone_cr}, start)
        elif r < 0.90:                                  # a list with an invalid range (possibly after valid ones)
            cs, d = [], doc
            for _ in range(rng.choice([0, 0, 1, 2])):
                c = gen_valid_change(rng, d)
                d, _ = client_apply(d, [c]); cs.append(c)
            bad, cls = gen_invalid_change(rng, d)
            cs.append(bad)
            if rng.random() < 0.3:
                cs.append(("R", 0, 0, 0, 0, "q"))
            nd, why = client_apply(doc, cs)
            if nd is not None:                          # generator produced a valid one after all (e.g. huge==valid? never) -> treat as sync
                doc = nd
                H.add("change %s %s" % (uri, enc_changes(cs)), {"kind": "sync", "text": doc, "changes": cs, "lone_cr": lone_cr}, start)
            else:
                H.add("change %s %s" % (uri, enc_changes(cs)), {"kind": "reject", "text": doc, "why": why, "changes": cs, "lone_cr": lone_cr}, start)
                H.add("open %s %s" % (uri, hx(doc)), {"kind": "sync", "text": doc, "lone_cr": lone_cr}, start)   # resynchronise
        elif r < 0.94:                                  # shapes the server does not support / degenerate
            k = rng.choice(["empty", "mixed", "mixed2", "full-rl"])
            if k == "empty":
                H.add("change %s -" % uri, {"kind": "unchanged", "text": doc, "why": "empty-list"}, start)
            elif k == "full-rl":
                t = gen_text(rng, 5)
                H.add("change %s %s" % (uri, enc_changes([("F", t)], {0: 3})), {"kind": "shape", "text": doc, "why": "full-with-rangeLength"}, start)
            else:
                t = gen_text(rng, 6)
                c2 = gen_valid_change(rng, t)
                cs = [("F", t), c2] if k == "mixed" else [gen_valid_change(rng, doc), ("F", t)]
                nd, _ = client_apply(doc, cs)
                H.add("change %s %s" % (uri, enc_changes(cs)), {"kind": "shape", "text": doc, "client_text": nd, "why": "mixed-list"}, start)
            H.add("open %s %s" % (uri, hx(doc)), {"kind": "sync", "text": doc, "lone_cr": lone_cr}, start)
        else:                                           # re-open with new text
            doc = gen_text(rng, rng.choice([0, 5, 20]), allow_lone_cr=lone_cr)
            H.add("open %s %s" % (uri, hx(doc)), {"kind": "sync", "text": doc, "lone_cr": lone_cr}, start)
    return doc


def add_scripted(H, uri, doc, notifs):
    """one scripted history: didOpen `doc`, then each element of `notifs` = one notification: a list of changes
    ("F", text) | ("R", sl, sc, el, ec, text), or [("O", text)] = a new didOpen. The python client supplies what the
    property requires after EVERY step (the didOpen itself included)."""
    start = len(H.ops)
    H.add("reset", {"kind": "none"}, start)
    H.add("open %s %s" % (uri, hx(doc)), {"kind": "sync", "text": doc, "lone_cr": has_lone_cr(doc)}, start)
    for cs in notifs:
        cs = [tuple(c) for c in cs]
        if len(cs) == 1 and cs[0][0] == "O":
            doc = cs[0][1]
            H.add("open %s %s" % (uri, hx(doc)), {"kind": "sync", "text": doc, "lone_cr": has_lone_cr(doc)}, start)
            continue
        nd, why = client_apply(doc, cs) if cs else (doc, None)
        mixed = len(cs) > 1 and any(c[0] == "F" for c in cs)
        if not cs:
            H.add("change %s -" % uri, {"kind": "unchanged", "text": doc, "why": "empty-list"}, start)
        elif mixed:
            H.add("change %s %s" % (uri, enc_changes(cs)), {"kind": "shape", "text": doc, "client_text": nd, "why": "mixed-list"}, start)
        elif nd is None:
            H.add("change %s %s" % (uri, enc_changes(cs)), {"kind": "reject", "text": doc, "why": why, "changes": cs, "lone_cr": has_lone_cr(doc)}, start)
        else:
            doc = nd
            H.add("change %s %s" % (uri, enc_changes(cs)), {"kind": "sync", "text": doc, "changes": cs, "lone_cr": has_lone_cr(doc)}, start)
        if mixed or nd is None:
            H.add("open %s %s" % (uri, hx(doc)), {"kind": "sync", "text": doc, "lone_cr": has_lone_cr(doc)}, start)


def corpus_histories(H):
    for fn in sorted(glob.glob(os.path.join(os.path.dirname(os.path.dirname(os.path.abspath(__file__))), "corpus", "C21", "*.json"))):
        for h in json.load(open(fn)):
            add_scripted(H, h.get("uri", WA), h["doc"], h["notifs"])


def special_histories(H, thorough=False):
    """DETERMINISTIC (no rng, both tiers): every special code point at the start / inside / at the end of a document,
    delivered by didOpen, by a full-sync change and as the inserted text of incremental changes, each followed by
    edits on line 0 whose columns depend on the special code point being there. A server that normalises text on the
    way in (drops a BOM, a NUL, a zero-width character, splits lines at U+2028/U+0085, replaces U+FFFD ...) differs
    from the client right after the step that delivered the text, or at the next edit."""
    def edits_on_line0(t):
        """valid incremental notifications computed from the client's view of `t` (all on line 0 / at EOF)."""
        out = []
        first = next((c for c in t if c not in "\r\n"), None)
        l0 = lsp_lines(t)[0]
        w0 = sum(u16(c) for c in t[l0[0]:l0[1]])               # UTF-16 length of line 0
        out.append([("R", 0, 0, 0, 0, "x")])                   # insert at the very start
        out.append([("R", 0, w0 + 1, 0, w0 + 1, "y")])         # insert at the end of line 0 (after the "x")
        if t and t[0] not in "\r\n":
            out.append([("R", 0, 1, 0, 1 + u16(t[0]), "")])     # delete the original first character
            out.append([("R", 0, 1, 0, 1, t[0])])              # and put it back
        out.append([("R", 0, 0, 0, 1, "")])                    # remove the "x"
        nl = len(lsp_lines(t))                                 # the "y" is on line 0, line count unchanged
        out.append([("R", nl, 0, nl, 0, "z")])                 # EOF-line alias
        return out

    bases = ["", "ab", "ab\ncd", "a\r\nb"] + (["\n", "\U0001F600q\r\n"] if thorough else [])
    for sp in SPECIAL:
        for base in bases:
            texts = [sp + base, base + sp, sp + sp + base, base[:1] + sp + base[1:], sp + "\n" + base, base + "\n" + sp]
            seen = set()
            for t in texts:
                if t in seen or has_lone_cr(t):
                    continue
                seen.add(t)
                # (1) delivered by didOpen, judged right after the open, then edits
                add_scripted(H, WA, t, edits_on_line0(t))
                # (2) delivered by a full-sync change over another document, then edits; then re-opened
                add_scripted(H, WA, "old\ntext", [[("F", t)]] + edits_on_line0(t)[:3] + [[("O", t)], [("R", 0, 0, 0, 0, "")]])
                # (3) delivered as the inserted text of incremental changes: at the start, at the end, replacing everything
                nb = len(lsp_lines(base))
                add_scripted(H, WA, base, [[("R", 0, 0, 0, 0, t)], [("R", 0, 0, 0, 0, sp)], [("R", 0, 0, 0, 0, "")],
                                           [("R", 0, 0, 0, u16(sp[0]), "")], [("F", base)], [("R", nb, 0, nb, 0, t)],
                                           [("F", base)], [("R", 0, 0, nb, 0, t)], [("R", 0, 0, 0, 0, "k")]])


def gen_raw_ops(rng, n):
    """model-vs-code only: PositionOffset / applyIncrementalChanges on arbitrary bytes (invalid UTF-8 included)."""
    ops = []
    pieces = [b"a", b"b", b"\n", b"\r\n", b"\r", b"\xff", b"\xc0\x80", b"\xc2", b"\xe0\x80\x80", b"\xe0\xa0\x80", b"\xed\xa0\x80",
              b"\xed\x9f\xbf", b"\xef\xbf\xbd", b"\xf0\x90\x80\x80", b"\xf0\x8f\xbf\xbf", b"\xf4\x8f\xbf\xbf", b"\xf4\x90\x80\x80",
              b"\xf0\x9f\x98", b"\xf0\x9f\x98\x80", b"\xe4\xb8", b"\xe4\xb8\x96", b"\xc3\xa9", b"\x80", b"\xbf", b"\xf5", b"\xc1\xbf", b"\x00"]
    for _ in range(n):
        bs = b"".join(rng.choice(pieces) for _ in range(rng.randrange(0, 9)))
        nl = bs.count(b"\n") + 1
        for _ in range(4):
            ops.append("posoff %s %d %d" % (hx(bs), rng.choice([0, 0, 1, nl - 1, nl, nl + 1, rng.randrange(0, 4)]), rng.randrange(0, 12)))
        a = (rng.randrange(0, nl + 1), rng.randrange(0, 8)); b = (rng.randrange(0, nl + 1), rng.randrange(0, 8))
        txt = b"".join(rng.choice(pieces) for _ in range(rng.randrange(0, 3)))
        ops.append("apply %s R:%d:%d:%d:%d:0:%s" % (hx(bs), a[0], a[1], b[0], b[1], hx(txt)))
    return ops


def gen_client_ops(rng, n):
    """Lean client definitions vs the python client (validates the specification side of the theorems)."""
    ops, exp = [], []
    for k in range(n):
        lone = k % 4 == 0
        doc = gen_text(rng, rng.choice([0, 2, 6, 14]), allow_lone_cr=lone)
        nl = len(lsp_lines(doc))
        for _ in range(3):
            ln = rng.choice([0, nl - 1, nl, nl + 1, rng.randrange(0, nl + 1)])
            col = rng.randrange(0, 10)
            i, why = client_index(doc, ln, col)
            ops.append("classify %s %d %d" % (hx(doc), ln, col))
            exp.append(("classify", doc, i, why))
        if rng.random() < 0.6:
            c = gen_valid_change(rng, doc)
        else:
            c, _ = gen_invalid_change(rng, doc)
        nd, why = client_apply(doc, [c])
        ops.append("lspclient %s %d %d %d %d %s" % (hx(doc), c[1], c[2], c[3], c[4], hx(c[5])))
        exp.append(("apply", doc, nd, why))
        if not has_lone_cr(doc):
            ops.append("client %s %d %d %d %d %s" % (hx(doc), c[1], c[2], c[3], c[4], hx(c[5])))
            exp.append(("apply", doc, nd, why))
    return ops, exp


# ----------------------------------------------------------------------------- the check
def regenerate(ctx):
    """Gen/C21Filter.lean: the URI-suffix filter of DidChange, read from /repo's current source."""
    from lib import vlib
    out = os.path.join(vlib.LEAN, "WaVerif", "Gen", "C21Filter.lean")
    tmp = os.path.join(ctx.tmp, "C21Filter.lean")
    rc, o = vlib.sh([sys.executable, os.path.join(vlib.VERIF, "extract", "c21_filter.py"), vlib.REPO, tmp])
    if rc not in (0, 3) or not os.path.exists(tmp):
        raise vlib.InfraError("extract/c21_filter.py failed: %s" % o[-2000:])
    if rc == 3:
        ctx.notes.append("DidChange URI filter has an unrecognised shape; model assumes no filter (correspondence decides): " + o.strip())
    new = open(tmp).read()
    with vlib.Lock("lake"):
        if not os.path.exists(out) or open(out).read() != new:
            if os.path.exists(out):
                os.remove(out)
            with open(out, "w") as f:
                f.write(new)
    m = re.search(r":= (.*)", new)
    return m.group(1).strip()


def run(ctx):
    harness = ctx.build_harness("c21")
    uri_filter = regenerate(ctx)
    ctx.prove(required=REQUIRED)
    model = ctx.build_model("c21")
    rng = ctx.rng
    quick = ctx.tier == "quick"
    STATS["eof_line_alias"] = 0

    H = Hist()
    corpus_histories(H)
    n_corpus = len(H.ops)
    special_histories(H, thorough=not quick)
    n_special = len(H.ops) - n_corpus
    for _ in range(250 if quick else 6000):
        gen_history(rng, H, ctx.tier)
    for _ in range(25 if quick else 400):               # documents the server ignores / other URIs
        gen_history(rng, H, ctx.tier, uri=rng.choice(["file:///w/b.wz", "file:///w/c.wa.go", "file:///w/d.txt", "file:///w/e.WA"]))
    for _ in range(20 if quick else 300):
        gen_two_doc_history(rng, H)
    n_guarded = len(H.ops)
    for _ in range(15 if quick else 300):               # complement of the NoLoneCR guard (measured, not judged)
        gen_history(rng, H, ctx.tier, lone_cr=True)
    raw_ops = gen_raw_ops(rng, 300 if quick else 8000)
    allops = H.ops + raw_ops

    if ctx.replay:
        # replay mode: run the recorded history on the current tree; the recorded (violating) answer
        # of the last op reproduces <=> the violation is still there
        rec = json.load(open(ctx.replay))
        rp = rec["replay"]
        _, out, _ = ctx.run_bin(harness, input_text="\n".join(rp["ops"]) + "\n")
        got = out.splitlines()[-1] if out.splitlines() else "<no output>"
        print("replay: last op %r -> %r (recorded %r; required %s)" % (rp["ops"][-1][:200], got[:200], str(rp.get("impl"))[:200], rp.get("required")))
        if got == rp.get("impl"):
            ctx.violation(rec.get("key", "replay"), rec.get("what", "replayed violation reproduces"), rp)
        return ctx.finish("proof", {"evaluations": len(rp["ops"]), "distinct_nontrivial": 1, "rule": "replay of one recorded history",
                                    "samples": [{"op": rp["ops"][-1][:200], "impl": got[:200]}], "distribution": {"replayed_ops": len(rp["ops"])}})

    _, out, err = ctx.run_bin(harness, input_text="\n".join(allops) + "\n")
    impl = out.splitlines()

    dist = {"sync_ok": 0, "rejected_invalid": 0, "unchanged_empty_list": 0, "shape_rejected": 0, "non_wa_ignored": 0,
            "mid_surrogate_rounded_down": 0, "after_cr_accepted": 0, "lone_cr_histories_ops": len(H.ops) - n_guarded,
            "lone_cr_divergences": 0, "raw_posoff_apply_ops": len(raw_ops), "incremental_changes": 0, "full_changes": 0,
            "astral_docs": 0, "crlf_docs": 0, "eof_line_alias": 0, "multi_line_deletes": 0}
    nontrivial = set()
    samples = []

    def replay_of(i):
        return {"ops": H.ops[H.start[i]:i + 1], "impl": impl[i] if i < len(impl) else None}

    # ---- ORACLE: the property's predicate on the real code's answers (independent python client)
    contaminated = set()      # histories in which server and client already diverged: later ops are not judged
    nviol = [0]

    def violation(i, key, what, rep, resynced=False):
        if not resynced:                                # (a rejected/shape op is followed by a re-open)
            contaminated.add(H.start[i])
        nviol[0] += 1
        ctx.violation(key, what, rep)

    for i, (op, e) in enumerate(zip(H.ops, H.exp)):
        r = impl[i] if i < len(impl) else "<missing>"
        if e["kind"] == "none" or H.start[i] in contaminated:
            continue
        f = op.split()
        uri = f[1]
        # does the URI pass DidChange's suffix filter as regenerated from the source ("none" = no filter)?
        is_wa = uri_filter == "none" or any(uri.endswith(suf) for suf in re.findall(r'"([^"]*)"', uri_filter))
        in_lone = i >= n_guarded or e.get("lone_cr")
        parts = r.split()
        if r.startswith(("PANIC", "dispatch-error", "bad-op", "<missing>")) or len(parts) < 2:
            violation(i, "impl:" + r.split()[0], "%s -> %s" % (op[:200], r[:200]), replay_of(i))
            continue
        try:
            stored = unhx(parts[-1]).decode("utf-8")
            status = " ".join(parts[:-1])
        except Exception:
            violation(i, "impl:stored-not-utf8", "%s -> %s" % (op[:200], r[:200]), replay_of(i))
            continue
        want = e["text"]
        rep = dict(replay_of(i), required="server text == %r" % want)
        if e["kind"] == "sync":
            for c in e.get("changes", []):
                if c[0] == "F":
                    dist["full_changes"] += 1
                else:
                    dist["incremental_changes"] += 1
                    if c[1] != c[3]:
                        dist["multi_line_deletes"] += 1
            if any(ord(ch) > 0xFFFF for ch in want):
                dist["astral_docs"] += 1
            if "\r\n" in want:
                dist["crlf_docs"] += 1
            if stored == want and status == "ok":
                dist["sync_ok"] += 1
                if f[0] == "change":
                    nontrivial.add(("sync", op.count(","), any(ord(ch) > 0xFFFF for ch in want), "\r\n" in want, "\n" in want.replace("\r\n", ""),
                                    min(len(want), 40) // 8, zlib.crc32(op.encode()) % 64))
            elif in_lone:
                dist["lone_cr_divergences"] += 1          # outside the guard: measured only
            elif f[0] == "change" and not is_wa:
                dist["non_wa_ignored"] += 1
                violation(i, "didchange:non-wa-uri-ignored",
                              "DidChange for %s is dropped (URI does not end in .wa): server keeps %r, client holds %r" % (uri, stored, want), rep)
            else:
                violation(i, "sync:server-text-differs:" + status.replace(" ", "-"),
                              "after %s the server holds %r (%s), the client %r" % (op[:160], stored, status, want), rep)
        elif e["kind"] == "reject":
            why = e["why"]
            if in_lone or not is_wa:
                continue
            if status.startswith("err") and stored == want:
                dist["rejected_invalid"] += 1
                nontrivial.add(("reject", why, status))
            elif why == "mid-surrogate":
                dist["mid_surrogate_rounded_down"] += 1   # guard of the theorems (client text not representable); model-vs-code covers it
                nontrivial.add(("mid", status))
            elif why == "after-cr-of-crlf" and status == "ok":
                dist["after_cr_accepted"] += 1
                violation(i, "invalid-accepted:column-after-cr-of-crlf",
                              "a range whose column is one past the content of a CRLF-terminated line is accepted and edits between \\r and \\n: "
                              "%s -> server text %r (must be rejected, text unchanged %r)" % (op[:160], stored, want), rep, resynced=True)
            else:
                violation(i, "invalid:%s:%s" % (why, "text-changed" if stored != want else status.replace(" ", "-")),
                              "invalid range (%s) not rejected cleanly: %s -> %s, stored %r, required error and %r" % (why, op[:160], status, stored, want), rep, resynced=True)
        elif e["kind"] in ("unchanged", "shape"):
            if in_lone or not is_wa:
                continue
            if stored != want or not status.startswith("err"):
                violation(i, "shape:%s:%s" % (e["why"], status.replace(" ", "-")),
                              "%s: %s -> %s stored %r; expected an error reply and unchanged text %r" % (e["why"], op[:160], status, stored, want), rep, resynced=e["kind"] == "shape")
            else:
                dist["unchanged_empty_list" if e["kind"] == "unchanged" else "shape_rejected"] += 1
                nontrivial.add((e["kind"], e["why"], status))
    dist["eof_line_alias"] = STATS["eof_line_alias"]

    # raw posoff ops: oracle where the bytes are valid UTF-8 without lone \r
    for k, op in enumerate(raw_ops):
        i = len(H.ops) + k
        r = impl[i] if i < len(impl) else "<missing>"
        if r.startswith(("PANIC", "bad-op", "<missing>")):
            ctx.violation("impl:" + r.split()[0], "%s -> %s" % (op, r), {"ops": [op], "impl": r})
            continue
        f = op.split()
        if f[0] != "posoff":
            continue
        try:
            doc = unhx(f[1]).decode("utf-8")
        except UnicodeDecodeError:
            continue
        if has_lone_cr(doc):
            continue
        idx, why = client_index(doc, int(f[2]), int(f[3]))
        if idx is not None:
            want = "ok %d" % len(doc[:idx].encode("utf-8"))
            if r != want:
                ctx.violation("posoff:wrong-offset", "%s -> %s, the position denotes byte offset %s" % (op, r, want), {"ops": [op], "impl": r, "required": want})
            else:
                nontrivial.add(("posoff", min(idx, 6), int(f[2]) > 0))
        elif why not in ("mid-surrogate", "after-cr-of-crlf") and not r.startswith("err"):
            ctx.violation("posoff:invalid-accepted:" + why, "%s -> %s, the position denotes nothing (%s)" % (op, r, why), {"ops": [op], "impl": r})

    # ---- correspondence with the Lean model (server side)
    if model:
        _, mout, _ = ctx.run_bin(model, input_text="\n".join(allops) + "\n")
        for i, op, a, b in ctx.diff_lines(allops, impl, mout.splitlines())[:20]:
            ctx.proof["broken"].append({"theorem": "correspondence C21 model vs internal/lsp", "why": "op %r: impl=%r model=%r" % (op[:300], a[:300], b[:300])})
        # ---- Lean client definitions vs the python client (specification side)
        cops, cexp = gen_client_ops(rng, 300 if quick else 5000)
        _, cout, _ = ctx.run_bin(model, input_text="\n".join(cops) + "\n")
        cl = cout.splitlines()
        ctx.corr["lines"] += len(cops)
        bad = 0
        for op, ex, got in zip(cops, cexp, cl + ["<missing>"] * (len(cops) - len(cl))):
            if ex[0] == "classify":
                _, doc, idx, why = ex
                lone = has_lone_cr(doc)
                want_lsp = "lsp=%s" % ("none" if idx is None else idx)
                ok = want_lsp in got.split() and ("nolonecr=%d" % (0 if lone else 1)) in got.split()
                if ok and not lone:
                    cls = got.split("lsp=")[0].strip()
                    want_cls = ("valid %d" % idx) if idx is not None else {"mid-surrogate": "mid", "after-cr-of-crlf": "aftercr"}.get(why, "none")
                    ok = cls == want_cls
            else:
                _, doc, nd, why = ex
                ok = got == ("invalid" if nd is None else "ok " + hx(nd))
            if not ok:
                bad += 1
                if bad <= 10:
                    ctx.proof["broken"].append({"theorem": "correspondence C21 Lean client vs python client", "why": "op %r: lean=%r python=%r" % (op[:300], got[:300], ex[2:])})
        ctx.corr["diffs"] += bad

    step = max(1, len(H.ops) // 10)
    samples = [{"op": o[:200], "impl": r[:200], "required": e.get("kind")} for o, r, e in list(zip(H.ops, impl, H.exp))[n_corpus + 1:: step]][:12]
    cov = {
        "evaluations": len(allops),
        "distinct_nontrivial": len(nontrivial),
        "rule": "each generated history = open + 3..13 notifications (incremental lists of 1-3 valid ranges incl. line ends, EOF, the EOF-line alias, empty "
                "inserts, multi-line deletes, astral/CRLF/LF text; full changes; lists containing a range that denotes nothing; empty and mixed lists; re-opens) "
                "through the real dispatcher; each notification's server text is judged against the python UTF-16 client. distinct_nontrivial counts distinct "
                "(outcome class, list length, astral?, CRLF?, LF?, size class, op hash bucket) tuples for syncs and distinct (class, reason, status) for rejections, "
                "plus distinct (index class, line>0) for raw PositionOffset calls",
        "samples": samples,
        "distribution": dist,
        "histories": sum(1 for o in H.ops if o == "reset"),
        "regenerated": {"Gen/C21Filter.lean didChangeSuffixes": uri_filter},
        "corpus_ops": n_corpus,
        "deterministic_special_codepoint_ops": n_special,
    }
    return ctx.finish("proof", cov,
                      assumptions=["documents a range is resolved in contain no lone \\r (LSP: line end; server and gopls: ordinary character) — complement measured in distribution.lone_cr_divergences",
                                   "positions inside a surrogate pair are outside the theorems (server rounds down to the rune start; compared model-vs-code only)",
                                   "(lineCount, 0) denotes EOF for the client too (LSP clamping rule; the server accepts exactly this)",
                                   "a didChange is one full change or only incremental changes; a list mixing both is rejected by the server (theorem mixed_list_rejected), text unchanged",
                                   "line/character < 2^32, document < 2^32 lines (uint32 conversions not modelled)",
                                   "fileMap is keyed by URI path: one document per distinct path; concurrency of notifications not modelled"],
                      trusted_base=["hand-written Lean model WaVerif/Model/C21.lean + C21Utf.lean tied by the correspondence run (harness/c21, hooks/internal__lsp/c21_hook.go)",
                                    "python UTF-16 client in checks/c21.py (oracle); Lean client definitions compared with it on generated positions/edits",
                                    "Go encoding/json, unicode/utf8 (DecodeRune transcribed and compared on invalid input)"])
