"""C23 — Source positions survive serialization and point at the right place."""
import concurrent.futures as cf
import json
import os
import re

PROP = "C23"
META = {
    "category": "proof",
    "text": "Lean theorems over a hand-written model of internal/token (SetLinesForContent's line table, the hand-inlined binary search "
            "searchInts with its loop invariant, unpack/Position, the file lookup with its `last` cache, and Write/Read of the serialisable "
            "structure): for every content and every offset below the size, Position gives line = 1 + newlines before the offset and "
            "column = 1 + bytes since the last line start; the lookup finds the unique file whose range contains the Pos whatever the cache "
            "holds; reading back a written file set answers every Position query identically. The model is tied to the Go code by a "
            "correspondence run (same ops through the real AddFile/SetLinesForContent/Position/ToJson/FromJson and through the compiled "
            "model, every offset of every small file) and the property's own oracle (independent newline counting in Python and in Go) "
            "is evaluated on the real code's answers. The panic-message part (file:line:col of the panicking call) is explored with "
            "generated programs that panic at a generator-known place, not proved.",
    "note": "Trusted: Lean kernel; encoding/json (ToJson/FromJson are Go's library over the Write/Read structure, exercised but not modelled); "
            "the hand-written model's tie to position.go/serialize.go is differential. //line infos (File.infos, AddLineColumnInfo, the adjusted branch of unpack) ARE in the model "
            "and in the serialisable structure: read_write_id is proved over name, base, size, line table and info table, for adjusted and "
            "unadjusted positions, and for reloading into an existing FileSet (readInto); the `last` cache is the cached File object by value, "
            "the lookup theorems assume CacheOK (cache holds one of the current files), which newFileSet/addFile/setContent/addLineInfo/"
            "lookups/Read are proved to maintain (stale_cache_answers_wrong shows it is necessary). The MEANING of a //line directive "
            "(renumbering relative to the directive's line) is transcribed, not specified by a theorem: it is decided by the correspondence "
            "and by an independent python statement of go/token's documented semantics; the scanner's parsing of directive comments is "
            "exercised (real scanner vs generator-known directives), not modelled. 64-bit overflow of base+size is "
            "not modelled. File names restricted to valid UTF-8 (JSON replaces invalid bytes; probed and reported as a note only). "
            "The end-of-file position (offset = size) and the empty content do NOT follow the newline-counting rule in model and code "
            "(line table only holds offsets < size): the exact behaviour is proved (position_eof, eof_statement_false) and the deviation is a recorded finding. "
            "Panic positions: compiler pipeline not modelled; explored through api.RunCode (one and SEVERAL panic calls per source line; `assert` is not a "
            "declared name in a plain program and the `unknown` target's runtime assert is empty, so only panic is observable). "
            "Buffer aliasing (results of ToJson/ToJavaScript retained across later calls, returned slices overwritten, FromJson/Read input "
            "reuse, Write-callback data mutated) has no counterpart in the model (values, not memory): it is explored by deterministic histories "
            "inside the harness (op K). Known non-coverage: a Read decode callback that keeps the decoded structure and mutates it later shares "
            "the Lines slices with the File by design (as in go/token).",
    "technique": "Lean 4 proof over hand-written model + differential correspondence (exhaustive offsets per file) + independent oracle; exploration for panic messages",
}
REQUIRED = ["lines_table", "searchInts_spec", "position_correct", "position_eof", "fileset_lookup_correct",
            "fileset_lookup_none", "read_write_id", "fileset_position_correct", "read_cache_invariant", "position_keeps_cache_ok",
            "fileset_inv_addLineInfo", "stale_cache_answers_wrong"]

NAMES = ["a.wa", "b.wa", "main.wa", "x/y.wa", "pkg/z_1.wa", "m.wz", "t.wa.go", "q"]


def hx(b):
    return b.hex() or "-"


# --------------------------------------------------------------------------- reference
def ref_lines(content):
    """lines table per the documentation of token.File: offsets of the first byte of each line, all < size."""
    if not content:
        return []
    return [0] + [i + 1 for i, b in enumerate(content) if b == 10 and i + 1 < len(content)]


def ref_linecol(content, off):
    """the property's predicate: count newlines before off; column counts bytes since the last newline."""
    pre = content[:off]
    return 1 + pre.count(b"\n"), off - (pre.rfind(b"\n") + 1) + 1


def classify_eof(content):
    """at off == size the code continues the last byte's line; this differs from the counting rule
    exactly when the content is empty or ends with a newline"""
    if not content:
        return "empty"
    if content.endswith(b"\n"):
        return "trailing-newline"
    return None


# --------------------------------------------------------------------------- generators
def gen_content(rng, kind, maxlen):
    n = rng.choice([0, 1, 2, 3, 5, 8, 13, 21, 34, 55, 89, 144, 200, 256, 300]) if maxlen <= 300 else rng.randrange(maxlen // 2, maxlen)
    n = min(n, maxlen)
    words = [b"func", b"main", b"{", b"}", b"x", b":=", b"1", b"println(\"hi\")", "你好".encode(), "é".encode(), b"\t", b"//c"]

    def line():
        return b" ".join(rng.choice(words) for _ in range(rng.randrange(0, 6)))
    if kind == "empty":
        return b""
    if kind == "nonl":
        return (b"".join(rng.choice(words) for _ in range(n)))[:n].replace(b"\n", b"x")
    if kind == "onlynl":
        return b"\n" * max(1, min(n, 40))
    if kind == "random":
        return bytes(rng.choice([10, 10, 13, 32, 97, 0, 255, rng.randrange(256)]) for _ in range(n))
    eol = b"\r\n" if kind == "crlf" else b"\n"
    out = b""
    while len(out) < n:
        out += line() + eol
        if rng.random() < 0.15:
            out += eol
    out = out[:max(n, 1)]
    if kind == "trailing" or kind == "crlf":
        out = out.rstrip(b"\r\n") + eol if rng.random() < 0.8 else out
    if kind == "notrailing":
        out = out.rstrip(b"\r\n") or b"a"
    return out


KINDS = ["empty", "nonl", "onlynl", "random", "crlf", "trailing", "notrailing", "lines"]


def gen_F(ctx, ops, meta):
    rng = ctx.rng
    fixed = [b"", b"\n", b"a", b"a\n", b"\na", b"\n\n", b"ab\nc\n", b"ab\nc", b"\r\n", b"a\r\nb\r\n", b"a\rb", b"\n" * 7, b"x" * 300,
             "é\n你\n".encode()]
    for c in fixed:
        ops.append("F %s *" % hx(c)); meta.append(("F", c, None, "fixed"))
    n_small = 300 if ctx.tier == "quick" else 3000
    for i in range(n_small):
        k = KINDS[i % len(KINDS)]
        c = gen_content(rng, k, 300)
        ops.append("F %s *" % hx(c)); meta.append(("F", c, None, k))
    n_med = 24 if ctx.tier == "quick" else 200
    for i in range(n_med):
        k = ["crlf", "trailing", "notrailing", "lines", "random"][i % 5]
        c = gen_content(rng, k, rng.choice([2000, 6000, 20000]))
        ls = ref_lines(c)
        offs = {0, len(c), max(0, len(c) - 1)}
        for _ in range(120):
            s = rng.choice(ls) if ls else 0
            for d in (-2, -1, 0, 1):
                if 0 <= s + d <= len(c):
                    offs.add(s + d)
            offs.add(rng.randrange(0, len(c) + 1))
        offs = sorted(offs)
        rng.shuffle(offs)
        ops.append("F %s %s" % (hx(c), ",".join(map(str, offs)))); meta.append(("F", c, offs, k + "-medium"))


def gen_S(ctx, ops, meta):
    rng = ctx.rng
    n = 250 if ctx.tier == "quick" else 4000
    for it in range(n):
        nf = rng.choice([1, 1, 2, 3, 4, 6])
        sbase = 1
        files = []      # (name, base, size, content-or-None)  as the generator knows them
        spec = []
        panic = None
        for j in range(nf):
            name = rng.choice(NAMES)
            content = None
            size = rng.choice([0, 0, 1, 2, 5, 17, 40])
            r = rng.random()
            base = -1
            if r < 0.25:
                base = sbase + rng.choice([0, 0, 1, 5, 100])
            elif r < 0.29:
                base = sbase - rng.choice([1, 2]) if sbase > 1 else 0   # illegal (0 is < 1)
            cap = 0
            if rng.random() < 0.3:
                cap = size + rng.choice([0, 1, 10])
            ecap = max(cap, size)
            h = "~"
            if rng.random() < 0.8:
                k = rng.choice(KINDS)
                clen = rng.choice([size, size, size, rng.randrange(0, ecap + 1), ecap])
                if rng.random() < 0.03:
                    clen = ecap + 1          # SetLinesForContent panics
                content = gen_content(rng, k, 300)
                content = (content * (clen // max(1, len(content)) + 1))[:clen]
                h = hx(content)
            spec.append("%s,%d,%d,%d,%s" % (name, base, size, cap, h))
            eb = sbase if base < 0 else base
            if eb < sbase:
                panic = "illegal base or size"; break
            if content is not None and len(content) > ecap:
                panic = "file content large than capacity"; break
            fsize = size if content is None else len(content)
            files.append((name, eb, fsize, content, size))
            sbase = eb + ecap + 1
        hi = sbase + 3
        if hi <= 120:
            qs = list(range(0, hi + 1))
        else:
            qs = {0, hi}
            for (_, b, s, _, _) in files:
                for d in (-1, 0, 1):
                    qs.update([b + d, b + s + d])
                for _ in range(12):
                    qs.add(rng.randrange(b, b + s + 1))
            qs = sorted(q for q in qs if q >= 0)
        rng.shuffle(qs)
        if rng.random() < 0.3:
            qs = qs + qs[: len(qs) // 2]
        ops.append("S %s %s" % (";".join(spec), ",".join(map(str, qs))))
        meta.append(("S", files, qs, panic))


def gen_R(ctx, ops, meta):
    rng = ctx.rng
    n = 250 if ctx.tier == "quick" else 4000
    for it in range(n):
        nf = rng.choice([0, 1, 2, 3, 5, 9])
        mode = rng.choice(["wf", "wf", "unsorted-lines", "overlap", "wild"])
        files = []
        b = 1
        for j in range(nf):
            size = rng.choice([0, 1, 3, 10, 50])
            nl = rng.randrange(0, 8)
            if mode == "wf":
                ls = sorted(set([0] + [rng.randrange(0, max(1, size)) for _ in range(nl)]))
                base = b + rng.choice([0, 0, 2])
            elif mode == "unsorted-lines":
                ls = [rng.randrange(0, size + 2) for _ in range(nl)]
                base = b
            elif mode == "overlap":
                ls = sorted(set([0] + [rng.randrange(0, max(1, size)) for _ in range(nl)]))
                base = max(1, b - rng.choice([0, 1, 3, 20]))
            else:
                ls = [rng.randrange(-3, 60) for _ in range(nl)]
                base = rng.randrange(-5, 80)
                size = rng.randrange(-2, 30)
            files.append((rng.choice(NAMES), base, size, ls))
            b = max(b, base + max(size, 0) + 1)
        js = json.dumps({"Base": b, "Files": [{"Name": n_, "Base": ba, "Size": sz, "Lines": (ls if ls or rng.random() < 0.5 else None),
                                               "Infos": None} for (n_, ba, sz, ls) in files] or None})
        st = ";".join([str(b)] + ["%s,%d,%d,%s" % (n_, ba, sz, ".".join(map(str, ls)) or "-") for (n_, ba, sz, ls) in files])
        lo, hi = min([0] + [f[1] for f in files]) - 2, max([b] + [f[1] + f[2] for f in files]) + 2
        qs = list(range(lo, hi + 1)) if hi - lo < 150 else [rng.randrange(lo, hi + 1) for _ in range(150)]
        rng.shuffle(qs)
        ops.append("R %s %s %s" % (hx(js.encode()), st, ",".join(map(str, qs))))
        meta.append(("R", mode, files, qs))



# --------------------------------------------------------------------------- histories on ONE FileSet object (H ops)
INFO_NAMES = ["template.wa", "gen_1.wa", "y.wa.go", "t2.wz", "m.tmpl"]
HNAMES = ["a.wa", "b.wa", "main.wa", "m.wz", "t.wa.go", "q"]


def table_line(content, off):
    """index+1 of the last line start <= off per the line table (content None: AddFile's table {0})"""
    ls = [0] if content is None else ref_lines(content)
    k = sum(1 for x in ls if x <= off)
    return k, (ls[k - 1] if k else 0)


def raw_pos(content, off):
    k, st = table_line(content, off)
    return (k, off - st + 1) if k else (0, 0)


def adjusted_pos(name, content, infos, off):
    """go/token's documented //line semantics, written independently: the last directive registered at or before
    the offset renames the file and renumbers lines relative to the line the directive took effect on; the column
    is unknown (0) if the directive has none, relative to the directive on its own line, raw otherwise"""
    ln, col = raw_pos(content, off)
    cand = [i for i in infos if i[0] <= off]
    if not cand:
        return name, ln, col
    o, fn, l, c = cand[-1]
    k, _ = table_line(content, o)
    if not k:
        return fn, ln, col
    d = ln - k
    if c == 0:
        col = 0
    elif d == 0:
        col = c + (off - o)
    return fn, l + d, col


class HState:
    """what the generator knows about the FileSet object"""

    def __init__(self):
        self.base, self.files = 1, []      # file = [name, base, size, content|None, infos(list of accepted), cap]

    def add(self, name, size, content, cap=0, base=-1):
        b = self.base if base < 0 else base
        ecap = max(cap, size)
        f = [name, b, size if content is None else len(content), content, [], ecap]
        self.files.append(f)
        self.base = b + ecap + 1
        return f

    def info(self, f, inf):
        if not f[4] or (f[4][-1][0] < inf[0] and inf[0] < f[2]):
            f[4].append(inf)

    def reload(self, other):
        self.base, self.files = other.base, [list(f[:4]) + [list(f[4]), 0] for f in other.files]

    def expect(self, p):
        if p != 0:
            for (name, b, size, content, infos, _) in self.files:
                if b <= p <= b + size:
                    off = p - b
                    fn, l, c = adjusted_pos(name, content, infos, off)
                    rl, rc = raw_pos(content, off)
                    return "%s@%d:%d:%d~%s@%d:%d:%d" % (fn, off, l, c, name, off, rl, rc)
        return "-~-"


def fmt_infos(infos):
    return "/".join("%d:%s:%d:%d" % i for i in infos) or "-"


def spec_of(name, base, size, cap, content, infos):
    return "%s+%d+%d+%d+%s+%s" % (name, base, size, cap, "~" if content is None else hx(content), fmt_infos(infos))


def gen_directive_content(rng):
    """source text with //line and /*line*/ directives; returns (content, infos the scanner must register)"""
    eol = b"\r\n" if rng.random() < 0.15 else b"\n"
    out, found = b"", []
    code = [b"x := 1", b"println(2)", b"\tpanic(\"boom\")", b"func main {", b"}", b"", b"// plain comment", b"y := \"s\" // c"]
    n = rng.randrange(2, 12)
    for i in range(n):
        r = rng.random()
        last = (i == n - 1)
        if r < 0.25:
            fn, l = rng.choice(INFO_NAMES), rng.choice([1, 7, 100, 12345])
            c = rng.choice([None, None, 1, 3, 40])
            text = b"//line %s:%d" % (fn.encode(), l) + (b":%d" % c if c else b"")
            term = b"" if last and rng.random() < 0.3 else eol
            out += text + term
            found.append((len(out), fn, l, c or 0))
        elif r < 0.40:
            fn, l, c = rng.choice(INFO_NAMES), rng.choice([1, 9, 500]), rng.choice([1, 2, 17])
            pre = rng.choice([b"", b"x := 1; ", b"\t"])
            out += pre + b"/*line %s:%d:%d*/" % (fn.encode(), l, c)
            found.append((len(out), fn, l, c))
            out += rng.choice([b"y := 2", b"", b"println(3)"]) + eol
        elif r < 0.50:
            # look-alikes that are NOT directives
            out += rng.choice([b"// line a.wa:3", b"x := 1 //line a.wa:3", b"//line a.wa:0", b"//line nocolon", b"//line a.wa:x", b"//lines a.wa:3"]) + eol
        else:
            out += rng.choice(code) + eol
    return out, found


def gen_H(ctx):
    """-> list of (op line, expected answers per q step as list of lists, tags)"""
    rng = ctx.rng
    res = []
    n = 160 if ctx.tier == "quick" else 2500

    def qstep(st, steps, exp, every=True):
        hi = st.base + 1
        ps = list(range(0, hi + 1)) if hi <= 260 else sorted(set([0, hi] + [rng.randrange(0, hi) for _ in range(200)] +
                                                                  [b + d for f in st.files for b in (f[1], f[1] + f[2]) for d in (-1, 0, 1) if b + d >= 0]))
        rng.shuffle(ps)
        steps.append("q," + ".".join(map(str, ps)))
        exp.append([(p, st.expect(p)) for p in ps])

    for it in range(n):
        kind = ["reload", "scan", "api-infos", "mixed"][it % 4]
        st, steps, exp = HState(), [], []
        if kind in ("reload", "mixed"):
            # first generation of the object: files, lookups (fills the cache) ...
            for _ in range(rng.choice([1, 1, 2, 3])):
                c = gen_content(rng, rng.choice(["lines", "trailing", "notrailing", "crlf", "onlynl"]), 60)
                name = rng.choice(HNAMES)
                f = st.add(name, len(c), c)
                steps.append("a," + spec_of(name, -1, len(c), 0, c, []))
            # a lookup inside a random file so that the cache holds it
            f = rng.choice(st.files)
            p = f[1] + rng.randrange(0, f[2] + 1)
            steps.append("q,%d" % p); exp.append([(p, st.expect(p))])
            # ... then one or two reloads of the SAME object from other sets whose files occupy the same Pos ranges
            for _ in range(rng.choice([1, 1, 2])):
                other = HState()
                specs = []
                for _ in range(rng.choice([1, 1, 2, 3])):
                    c = gen_content(rng, rng.choice(["lines", "trailing", "notrailing", "nonl", "onlynl"]), 60)
                    name = rng.choice(HNAMES)
                    infos = []
                    g = other.add(name, len(c), c)
                    if kind == "mixed" and c and rng.random() < 0.6:
                        for o in sorted(set(rng.randrange(0, len(c)) for _ in range(rng.randrange(1, 4)))):
                            inf = (o, rng.choice(INFO_NAMES), rng.choice([1, 50]), rng.choice([0, 1, 4]))
                            infos.append(inf); other.info(g, inf)
                    specs.append(spec_of(name, -1, len(c), 0, c, infos))
                steps.append("r," + "|".join(specs))
                st.reload(other)
                qstep(st, steps, exp)
                if rng.random() < 0.4:
                    steps.append("j"); st.reload(st)
                    qstep(st, steps, exp)
            if rng.random() < 0.5:
                c = gen_content(rng, "lines", 40)
                name = rng.choice(HNAMES)
                st.add(name, len(c), c)
                steps.append("a," + spec_of(name, -1, len(c), 0, c, []))
                qstep(st, steps, exp)
        elif kind == "scan":
            for _ in range(rng.choice([1, 1, 2])):
                c, found = gen_directive_content(rng)
                name = rng.choice(HNAMES)
                f = st.add(name, len(c), c if c else None)
                for inf in found:
                    st.info(f, inf)
                steps.append("s," + spec_of(name, -1, len(c), 0, c, f[4]))
            qstep(st, steps, exp)
            steps.append("j"); st.reload(st)
            qstep(st, steps, exp)
        else:
            c = gen_content(rng, rng.choice(["lines", "trailing", "notrailing"]), 80)
            name = rng.choice(HNAMES)
            f = st.add(name, len(c), c)
            infos = []
            for _ in range(rng.randrange(1, 6)):
                inf = (rng.randrange(0, len(c) + 3), rng.choice(INFO_NAMES), rng.choice([1, 3, 1000]), rng.choice([0, 0, 1, 9]))
                infos.append(inf); st.info(f, inf)          # some are rejected (not increasing / beyond the size)
            steps.append("a," + spec_of(name, -1, len(c), 0, c, infos))
            qstep(st, steps, exp)
            inf = (rng.randrange(0, len(c) + 2), rng.choice(INFO_NAMES), 77, rng.choice([0, 2]))
            steps.append("i,0,%d:%s:%d:%d" % inf); st.info(f, inf)
            qstep(st, steps, exp)
            steps.append("j"); st.reload(st)
            qstep(st, steps, exp)
        res.append(("H " + ";".join(steps), exp, kind))
    return res

# --------------------------------------------------------------------------- panic programs
def gen_prog(rng, idx):
    """a Wa program that panics at a place the generator knows: (line, byte column of the call's '(')."""
    eol = rng.choice(["\n", "\n", "\n", "\r\n"])
    ind = rng.choice(["\t", "  ", "    ", "\t\t"])
    L = []
    for _ in range(rng.randrange(0, 4)):
        L.append(rng.choice(["// header", "// 注释 with 多字节 text", "", "/* block */", "// é"]))
    nfill = rng.randrange(0, 4)
    for k in range(nfill):
        L.append("func fill%d(x: int) => int {" % k)
        L.append(ind + "return x + %d" % k)
        L.append("}")
        if rng.random() < 0.5:
            L.append("")
    msg = rng.choice(["boom", "bad state", "x=1", "err: 失败", "p%d" % idx])
    prefix = rng.choice(["", "", "", "/* é */ ", "/* 你好 */ ", "/**/", "_ = \"héllo\"; ", "  ", "println(\"ü\"); "])
    arg = rng.choice(['"%s"' % msg, '("%s")' % msg, '"%s" + ""' % msg])
    where = rng.choice(["main", "main-if", "main-for", "func", "method", "nested-if", "closure"])
    pre_stmts = [ind + "println(%d)" % rng.randrange(100) for _ in range(rng.randrange(0, 3))]

    def panic_line(depth):
        s = ind * depth + prefix + "panic(" + arg + ")"
        col = len((ind * depth + prefix + "panic").encode()) + 1
        return s, col
    target = None
    if where in ("func", "method", "closure"):
        if where == "func":
            L.append("func thrower(n: int) {")
            L += pre_stmts
            s, col = panic_line(1); L.append(s); target = (len(L), col)
            L.append("}")
            call = "thrower(3)"
        elif where == "method":
            L.append("type T :struct { a: int }")
            L.append("")
            L.append("func T.boom() {")
            s, col = panic_line(1); L.append(s); target = (len(L), col)
            L.append("}")
            call = "t := T{a: 1}; t.boom()"
        else:
            call = None
        L.append("")
        L.append("func main {")
        L += pre_stmts
        if where == "closure":
            L.append(ind + "f := func() {")
            s, col = panic_line(2); L.append(s); target = (len(L), col)
            L.append(ind + "}")
            L.append(ind + "f()")
        else:
            L.append(ind + call)
        L.append("}")
    else:
        L.append("func main {")
        L += pre_stmts
        if where == "main":
            s, col = panic_line(1); L.append(s); target = (len(L), col)
        elif where == "main-if":
            L.append(ind + "x := %d" % rng.randrange(1, 9))
            L.append(ind + "if x > 0 {")
            s, col = panic_line(2); L.append(s); target = (len(L), col)
            L.append(ind + "}")
        elif where == "main-for":
            L.append(ind + "for i := 0; i < 3; i++ {")
            L.append(ind * 2 + "if i == 1 {")
            s, col = panic_line(3); L.append(s); target = (len(L), col)
            L.append(ind * 2 + "}")
            L.append(ind + "}")
        else:
            L.append(ind + "x := 2")
            L.append(ind + "if x > 1 {")
            L.append(ind * 2 + "if x > 0 {")
            s, col = panic_line(3); L.append(s); target = (len(L), col)
            L.append(ind * 2 + "}")
            L.append(ind + "}")
        L.append("}")
    src = eol.join(L) + (eol if rng.random() < 0.8 else "")
    name = "prog%d.wa" % idx
    return {"name": name, "src": src, "line": target[0], "col": target[1], "msg": msg, "where": where,
            "eol": "crlf" if eol == "\r\n" else "lf", "prefix": prefix}



def gen_multi_progs(rng, idx):
    """programs with SEVERAL panic calls on one source line; one program per call (run to the k-th panic).
    Returns a list of program dicts like gen_prog's; the expected column is the byte column of the '(' of the
    k-th `panic(` on that line, computed while the line is assembled."""
    eol = rng.choice(["\n", "\n", "\n", "\r\n"])
    ind = rng.choice(["\t", "\t\t", "  ", "\t \t"])
    shape = ["ifelse", "switch", "semi", "for", "nested", "closure", "method", "ifelse"][idx % 8]
    n = rng.choice([2, 2, 3, 4])
    deco = lambda: rng.choice(["", "", "/* é */ ", "/* 你好 */ ", "_ = \"héllo\"; ", "/**/"])
    line = ind + deco()
    cols, msgs = [], []

    def add_panic(arg=None):
        nonlocal line
        m = "m%d_%d" % (idx, len(cols))
        line += deco() if rng.random() < 0.4 else ""
        line += "panic"
        cols.append(len(line.encode()) + 1)
        line += "(" + (arg(m) if arg else '"%s"' % m) + ")"
        msgs.append(m)
    pre, post, call = [], [], "pick(%d)"
    if shape in ("ifelse", "method"):
        for j in range(n):
            line += ("if k == %d { " % j) if j < n - 1 else "{ "
            add_panic()
            line += " }" + (" else " if j < n - 1 else "")
        if shape == "method":
            pre = ["type T :struct { a: int }", "", "func T.pick(k: int) {"]
            call = "t := T{a: 1}; t.pick(%d)"
        else:
            pre = ["func pick(k: int) {"]
        post = ["}"]
    elif shape == "switch":
        line += "switch k { "
        for j in range(n):
            line += ("case %d: " % j) if j < n - 1 else "default: "
            add_panic()
            line += "; " if j < n - 1 else " }"
        pre, post = ["func pick(k: int) {"], ["}"]
    elif shape == "semi":
        for j in range(n):
            line += "if k == %d { " % j
            add_panic()
            line += " }" + ("; " if j < n - 1 else "")
        pre, post = ["func pick(k: int) {"], ["}"]
    elif shape == "for":
        line += "for i := 0; i < %d; i++ { " % n
        for j in range(n):
            line += "if i == %d && i == k { " % j
            add_panic()
            line += " }" + ("; " if j < n - 1 else "")
        line += " }"
        pre, post = ["func pick(k: int) {"], ["}"]
    elif shape == "nested":
        for j in range(n):
            line += ("if k == %d { " % j) if j < n - 1 else "{ "
            add_panic(lambda m: 'msg(msg("%s"))' % m if rng.random() < 0.5 else 'msg("%s")' % m)
            line += " }" + (" else " if j < n - 1 else "")
        pre = ["func msg(s: string) => string { return s }", "", "func pick(k: int) {"]
        post = ["}"]
    else:  # closures on one line (each closure is a function of its own) plus a direct panic after them
        names = []
        for j in range(n - 1):
            line += "f%d := func() { " % j
            add_panic()
            line += " }; "
            names.append("f%d" % j)
        line += "if k == %d { " % (n - 1)
        add_panic()
        line += " }"
        pre = ["func pick(k: int) {"]
        post = [ind + "; ".join("if k == %d { %s() }" % (j, nm) for j, nm in enumerate(names)), "}"]
    head = [rng.choice(["// several panics on one line", "// 注释", ""]) for _ in range(rng.randrange(0, 3))]
    # a second function with its own multi-panic line, never executed: its columns must not leak into pick's
    other = ["func other(k: int) {", "\tif k == 0 { panic(\"o0\") } else { panic(\"o1\") }", "}", ""] if rng.random() < 0.5 else []
    progs = []
    for t in range(len(cols)):
        kval = t
        L = head + other + pre + [line] + post + ["", "func main {", "\t" + (call % kval), "}"]
        src = eol.join(L) + eol
        progs.append({"name": "multi%d_%d.wa" % (idx, t), "src": src, "line": len(head) + len(other) + len(pre) + 1, "col": cols[t],
                      "msg": msgs[t], "where": "multi-" + shape, "eol": "crlf" if eol == "\r\n" else "lf",
                      "prefix": "k=%d of %d" % (t, len(cols))})
    return progs

PANIC_RE = re.compile(rb"panic: (.*) \(([^()\s]*):(\d+):(\d+)\)\n")


def check_panic(ctx, prog, outline, dist):
    f = outline.split()
    if len(f) != 2 or outline.startswith("PANIC"):
        ctx.violation("panic-position:harness-crash", "program %s: %s" % (prog["name"], outline[:300]), {"prog": prog, "impl": outline})
        return False
    out = bytes.fromhex(f[0]) if f[0] != "-" else b""
    m = PANIC_RE.search(out)
    if not m:
        if "exit_code" not in f[1]:
            # the generated program did not compile/run: generator problem, not a property violation
            dist["panic_not_run"] = dist.get("panic_not_run", 0) + 1
            ctx.notes.append("generated program did not run: %s %s" % (prog["name"], f[1][:200]))
            return False
        ctx.violation("panic-position:no-position-in-message", "program %s panicked but the output %r carries no file:line:col" % (prog["name"], out[-200:]),
                      {"prog": prog, "impl": outline})
        return False
    msg, fn, ln, col = m.group(1).decode("utf-8", "replace"), m.group(2).decode(), int(m.group(3)), int(m.group(4))
    ok = True
    if fn != prog["name"]:
        ctx.violation("panic-position:wrong-file", "program %s: message names file %r" % (prog["name"], fn), {"prog": prog, "impl": outline}); ok = False
    if ln != prog["line"]:
        ctx.violation("panic-position:wrong-line", "program %s: panic call is on line %d, message says %d:%d" % (prog["name"], prog["line"], ln, col),
                      {"prog": prog, "impl": outline}); ok = False
    elif col != prog["col"]:
        ctx.violation("panic-position:wrong-column", "program %s: panic call's '(' is at byte column %d of line %d, message says %d:%d" % (
            prog["name"], prog["col"], prog["line"], ln, col), {"prog": prog, "impl": outline}); ok = False
    if msg != prog["msg"]:
        ctx.violation("panic-position:wrong-message", "program %s: message %r, expected %r" % (prog["name"], msg, prog["msg"]), {"prog": prog, "impl": outline}); ok = False
    return ok


# --------------------------------------------------------------------------- oracle
def want_answer(files, p, eof_hits):
    """expected FileSet.Position(p) from the generator's knowledge of the layout and contents."""
    if p == 0:
        return "-"
    for (name, base, size, content, _) in files:
        if base <= p <= base + size:
            off = p - base
            if content is None:
                return "%s@%d:%d:%d" % (name, off, 1, off + 1)     # AddFile alone: one line starting at 0
            ln, col = ref_linecol(content, off)
            if off == size and classify_eof(content):
                eof_hits.append((classify_eof(content), content, off))
                return None
            r = "%s@%d:%d:%d" % (name, off, ln, col)
            return r
    return "-"


def run(ctx):
    h = ctx.build_harness("c23")
    ctx.prove(required=REQUIRED)
    m = ctx.build_model("c23")
    ops, meta = [], []
    # corpus first
    cdir = os.path.join(os.path.dirname(os.path.dirname(os.path.abspath(__file__))), "corpus", "C23")
    if os.path.isdir(cdir):
        for fn in sorted(os.listdir(cdir)):
            if fn.endswith(".ops"):
                for ln in open(os.path.join(cdir, fn)).read().splitlines():
                    if ln.startswith("F "):
                        c = bytes.fromhex(ln.split()[1]) if ln.split()[1] != "-" else b""
                        ops.append("F %s *" % hx(c)); meta.append(("F", c, None, "corpus"))
    gen_F(ctx, ops, meta)
    gen_S(ctx, ops, meta)
    gen_R(ctx, ops, meta)
    text = "\n".join(ops) + "\n"
    _, out, err = ctx.run_bin(h, input_text=text)
    impl = out.splitlines()
    dist = {"F": 0, "S": 0, "R": 0, "positions": 0, "eof_positions": 0, "panics_expected": 0, "kinds": {}}
    nontrivial = set()
    evaluations = 0
    samples = []

    def eof_finding(kind, content, got, want):
        # The one-past-the-end position (offset = size) is not an offset IN the content; go/token, from which
        # this code derives, reports it on the last line by design (Lean: position_eof, position_empty).
        # It is compared model-vs-code in the correspondence and counted here, not judged by the oracle.
        dist["eof_differs_from_newline_count"] = dist.get("eof_differs_from_newline_count", 0) + 1

    for i, (op, mt) in enumerate(zip(ops, meta)):
        r = impl[i] if i < len(impl) else "<missing>"
        if mt[0] == "F":
            _, c, offs, kind = mt
            dist["F"] += 1
            dist["kinds"][kind] = dist["kinds"].get(kind, 0) + 1
            mm = re.fullmatch(r"L(\S+) P(\S+)", r)
            if not mm:
                ctx.violation("position:F-" + r.split()[0], "op F on %r -> %s" % (c[:40], r[:200]), {"op": op[:2000], "impl": r[:500]})
                continue
            got_lines = [] if mm.group(1) == "-" else [int(x) for x in mm.group(1).split(",")]
            if got_lines != ref_lines(c):
                ctx.violation("lines:wrong-table", "SetLinesForContent(%r...) gives lines %s, expected %s" % (c[:40], got_lines[:20], ref_lines(c)[:20]),
                              {"op": op[:2000], "impl": r[:500]})
            offl = list(range(len(c) + 1)) if offs is None else offs
            got = mm.group(2).split(",")
            if len(got) != len(offl):
                ctx.violation("position:answer-count", "op F: %d answers for %d offsets" % (len(got), len(offl)), {"op": op[:2000], "impl": r[:500]})
                continue
            for o, g in zip(offl, got):
                ln, col = ref_linecol(c, o)
                want = "%d:%d" % (ln, col)
                evaluations += 1
                if o == len(c):
                    dist["eof_positions"] += 1
                    k = classify_eof(c)
                    if k:
                        # the code continues the last byte's line; anything else is a new violation
                        cont = "0:0" if not c else "%d:%d" % (ref_linecol(c, o - 1)[0], ref_linecol(c, o - 1)[1] + 1)
                        if g == cont and g != want:
                            eof_finding(k, c, g, want)
                        elif g != want:
                            ctx.violation("position:eof-other", "content %r offset=size: got %s want %s" % (c[-12:], g, want),
                                          {"content_hex": hx(c), "offset": o, "impl": g, "want": want})
                        continue
                if g != want:
                    ctx.violation("position:wrong-line-col", "content %r... offset %d: Position gives %s, counting newlines gives %s" % (c[:40], o, g, want),
                                  {"content_hex": hx(c), "offset": o, "impl": g, "want": want})
                nontrivial.add((kind.split("-")[0], min(ln, 6), min(col, 4), o == len(c), c[o - 1:o] == b"\n", c[o:o + 1] == b"\n", c[o:o + 1] == b"\r"))
            dist["positions"] += len(offl)
            if len(samples) < 4 and len(c) > 3 and i % 37 == 0:
                samples.append({"op": op[:200], "impl": r[:200]})
        elif mt[0] == "S":
            _, files, qs, panic = mt
            dist["S"] += 1
            if panic:
                dist["panics_expected"] += 1
                if r != "PANIC " + panic:
                    ctx.violation("fileset:missing-panic", "op %s: expected panic %r, got %s" % (op[:200], panic, r[:200]), {"op": op, "impl": r})
                continue
            mm = re.fullmatch(r"A(\S+) J(\S+)", r)
            if not mm:
                ctx.violation("fileset:S-" + r.split()[0], "op S -> %s" % r[:200], {"op": op, "impl": r[:500]})
                continue
            A, J = mm.group(1).split(","), mm.group(2).split(",")
            if A != J:
                bad = next((k for k in range(min(len(A), len(J))) if A[k] != J[k]), -1)
                ctx.violation("serialize:position-changed", "op %s: Pos %s maps to %s before and %s after ToJson/FromJson" % (
                    op[:200], qs[bad] if bad >= 0 else "?", A[bad] if bad >= 0 else "?", J[bad] if bad >= 0 else "?"), {"op": op, "impl": r})
            for p, g in zip(qs, A):
                hits = []
                want = want_answer(files, p, hits)
                evaluations += 1
                if want is None:
                    k, c, off = hits[0]
                    nm = g.split("@")[0]
                    gl = g.split("@")[1].split(":", 1)[1] if "@" in g else g
                    cont = "0:0" if not c else "%d:%d" % (ref_linecol(c, off - 1)[0], ref_linecol(c, off - 1)[1] + 1)
                    ln, col = ref_linecol(c, off)
                    if gl == cont:
                        eof_finding(k, c, gl, "%d:%d" % (ln, col))
                    else:
                        ctx.violation("position:eof-other", "set %s Pos %d: got %s" % (op[:100], p, g), {"op": op, "impl": r})
                    continue
                if g != want:
                    ctx.violation("fileset:wrong-answer", "op %s: Position(%d) = %s, expected %s" % (op[:300], p, g, want), {"op": op, "pos": p, "impl": g, "want": want})
                nontrivial.add(("S", len(files), want == "-", min(sum(1 for f in files if f[1] <= p), 3)))
            if len(samples) < 8 and i % 41 == 0:
                samples.append({"op": op[:300], "impl": r[:300]})
        else:
            dist["R"] += 1
            evaluations += 1
            if not r.startswith("A"):
                ctx.violation("serialize:R-" + r.split()[0], "FromJson + Position on hand-made JSON -> %s" % r[:200], {"op": op, "impl": r[:500]})
            if mt[1] == "wf":
                # well-formed hand-made sets: the answers must be those of the lookup specification
                A = r[1:].split(",")
                for p, g in zip(mt[3], A):
                    want = "-"
                    for (nm, ba, sz, ls) in mt[2]:
                        if p != 0 and ba <= p <= ba + sz:
                            off = p - ba
                            k = sum(1 for x in ls if x <= off)
                            want = "%s@%d:%d:%d" % (nm, off, k, off - ls[k - 1] + 1) if k else ("%s@%d:0:0" % (nm, off) if (nm or off) else "-")
                            break
                    if g != want:
                        ctx.violation("serialize:wrong-answer-after-read", "op %s: Position(%d) = %s, expected %s" % (op[:200], p, g, want),
                                      {"op": op, "pos": p, "impl": g, "want": want})
            nontrivial.add(("R", mt[1], len(mt[2])))

    # --- correspondence with the Lean model
    if m:
        _, mo, _ = ctx.run_bin(m, input_text=text)
        for i, op, a, b in ctx.diff_lines(ops, impl, mo.splitlines())[:20]:
            ctx.proof["broken"].append({"theorem": "correspondence C23 model vs token/position.go+serialize.go",
                                        "why": "op %r impl=%r model=%r" % (op[:300], a[:300], b[:300])})

    # --- histories on ONE FileSet object: reload into the same object, //line infos through the scanner and the API
    hist = gen_H(ctx)
    hdir_ops = []
    if os.path.isdir(cdir):
        for fn in sorted(os.listdir(cdir)):
            if fn.endswith(".hist"):
                hdir_ops += [ln for ln in open(os.path.join(cdir, fn)).read().splitlines() if ln.startswith("H ")]
    hops = [h_[0] for h_ in hist]
    _, hout, _ = ctx.run_bin(h, input_text="\n".join(hdir_ops + hops) + "\n")
    himpl = hout.splitlines()
    himpl += ["<missing>"] * (len(hdir_ops) + len(hops) - len(himpl))
    dist["H"] = len(hops)
    dist["H_kinds"] = {}
    dist["H_positions"] = 0
    dist["H_adjusted_differs_from_raw"] = 0
    for (op, exp, kind), r in zip(hist, himpl[len(hdir_ops):]):
        dist["H_kinds"][kind] = dist["H_kinds"].get(kind, 0) + 1
        parts = r.split("|")
        if r.startswith(("PANIC", "JSONERR", "bad-op", "<missing>")) or len(parts) != len(exp):
            ctx.violation("history:" + r.split()[0][:30], "history %s -> %s" % (op[:300], r[:200]), {"op": op, "impl": r[:1000]})
            continue
        steps = op[2:].split(";")
        qidx = [i_ for i_, s_ in enumerate(steps) if s_.startswith("q,")]
        for qi, (si, want, got) in enumerate(zip(qidx, exp, parts)):
            gl = got.split(",")
            after_reload = any(s_.startswith(("r,", "j")) for s_ in steps[:si])
            for (p, w), g in zip(want, gl):
                evaluations += 1
                dist["H_positions"] += 1
                if w.split("~")[0] != w.split("~")[1]:
                    dist["H_adjusted_differs_from_raw"] += 1
                if g == w:
                    continue
                ga, gu = (g.split("~") + ["?"])[:2]
                wa, wu = w.split("~")
                replay = {"op": op, "step": si, "pos": p, "impl": g, "want": w}
                if after_reload and gu == wu and ga != wa:
                    ctx.violation("serialize:line-info-lost", "history %s: after ToJson/FromJson Position(%d) = %s, the set that was written gives %s "
                                  "(//line information did not survive serialization)" % (op[:200], p, ga, wa), replay)
                elif after_reload and kind in ("reload", "mixed"):
                    ctx.violation("reload:stale-or-wrong-answer", "history %s: after loading another set into the SAME FileSet object, Position(%d) = %s, "
                                  "the loaded files give %s" % (op[:200], p, g, w), replay)
                elif gu != wu:
                    ctx.violation("position:wrong-line-col", "history %s: PositionFor(%d,false) = %s, counting newlines gives %s" % (op[:200], p, gu, wu), replay)
                else:
                    ctx.violation("lineinfo:wrong-adjusted-position", "history %s: Position(%d) = %s, the //line directives give %s" % (op[:200], p, ga, wa), replay)
            nontrivial.add(("H", kind, qi, after_reload, len(want) > 50))
        if len(samples) < 11 and kind == "scan":
            samples.append({"op": op[:300], "impl": r[:200]})
    if m:
        _, hmo, _ = ctx.run_bin(m, input_text="\n".join(hdir_ops + hops) + "\n")
        for i, op, a, b in ctx.diff_lines(hdir_ops + hops, himpl, hmo.splitlines())[:20]:
            ctx.proof["broken"].append({"theorem": "correspondence C23 (histories) model vs token/position.go+serialize.go+scanner line directives",
                                        "why": "op %r impl=%r model=%r" % (op[:400], a[:300], b[:300])})

    # --- harness-side sweeps (oracle only): every offset of larger contents, before/after JSON
    wops, wmeta = [], []
    nw = 30 if ctx.tier == "quick" else 400
    for i in range(nw):
        k = ["crlf", "trailing", "notrailing", "lines", "random", "nonl"][i % 6]
        c = gen_content(ctx.rng, k, ctx.rng.choice([3000, 30000, 120000]))
        wops.append("W " + hx(c)); wmeta.append((k, len(c)))
    nameops = [("N " + hx(nm.encode()), nm.encode()) for nm in ["a.wa", "目录/文件.wa", "a b<&>\".wa", "x\\y\t.wa"]] + [("N ff61", b"\xffa")]
    badjson = ["R %s 1 1" % hx(b'{"Base":1,"Files":[{"Name":"a","Base":1,"Size":'), "R %s 1 1" % hx(b'[]'), "R %s 1 1" % hx(b'{"Base":"x"}')]
    kops = ["K all"] * 3
    _, wout, _ = ctx.run_bin(h, input_text="\n".join(wops + [n for n, _ in nameops] + badjson + kops) + "\n")
    wl = wout.splitlines()
    for r in (wl + ["<missing>"] * 3)[len(wops) + len(nameops) + len(badjson):][:3]:
        mm = re.fullmatch(r"ok (\d+)", r)
        if mm:
            dist["aliasing_checks"] = dist.get("aliasing_checks", 0) + int(mm.group(1))
            evaluations += int(mm.group(1))
        else:
            ctx.violation("serialize:aliasing:" + (r.split()[1].rstrip(":") if r.startswith("FAIL ") and len(r.split()) > 1 else r.split()[0][:20]),
                          "aliasing history on ToJson/FromJson/Write/Read/ToJavaScript: %s" % r[:300], {"op": "K all", "impl": r[:500]})
    swept = 0
    for op, (k, n), r in zip(wops, wmeta, wl):
        if r != "ok %d" % n:
            ctx.violation("position:sweep-" + " ".join(r.split()[:1]), "sweep of a %d-byte %s content: %s" % (n, k, r[:300]), {"op": op[:4000], "impl": r[:500]})
        else:
            swept += n
    for (op, nm), r in zip(nameops, wl[len(wops):]):
        back = bytes.fromhex(r) if re.fullmatch(r"([0-9a-f]{2})+", r) else None
        if back != nm:
            try:
                nm.decode("utf-8")
                ctx.violation("serialize:file-name-changed", "file name %r reads back as %r" % (nm, back), {"op": op, "impl": r})
            except UnicodeDecodeError:
                ctx.notes.append("file name %r (invalid UTF-8) reads back as %r after ToJson/FromJson (encoding/json substitutes U+FFFD; outside the property's quantifier)" % (nm, back))
    for op, r in zip(badjson, wl[len(wops) + len(nameops):]):
        if r != "JSONERR":
            ctx.violation("serialize:bad-json-accepted", "FromJson of malformed JSON -> %s" % r[:200], {"op": op, "impl": r})

    # --- panic positions (explored)
    nprog = 32 if ctx.tier == "quick" else 400
    progs = [gen_prog(ctx.rng, i) for i in range(nprog)]
    nmulti = 16 if ctx.tier == "quick" else 160
    multi = [p_ for i in range(nmulti) for p_ in gen_multi_progs(ctx.rng, i)]
    progs += multi
    dist["panic_programs_several_calls_on_one_line"] = len(multi)
    pdir = os.path.join(cdir, "progs") if os.path.isdir(cdir) else None
    if pdir and os.path.isdir(pdir):
        for fn in sorted(os.listdir(pdir)):
            if fn.endswith(".json"):
                progs.insert(0, json.load(open(os.path.join(pdir, fn))))
    chunks = [progs[i::8] for i in range(8)]

    def runchunk(ch):
        if not ch:
            return []
        _, o, _ = ctx.run_bin(h, input_text="".join("run %s %s\n" % (hx(p["src"].encode()), p["name"]) for p in ch), timeout=1800)
        return list(zip(ch, o.splitlines() + ["<missing>"] * len(ch)))
    pan_ok = 0
    pdist = {}
    with cf.ThreadPoolExecutor(8) as ex:
        for res in ex.map(runchunk, chunks):
            for prog, line in res:
                evaluations += 1
                if check_panic(ctx, prog, line, dist):
                    pan_ok += 1
                    pdist[prog["where"] + "/" + prog["eol"]] = pdist.get(prog["where"] + "/" + prog["eol"], 0) + 1
                    nontrivial.add(("panic", prog["where"], prog["eol"], bool(prog["prefix"].strip()), min(prog["line"], 12)))
    dist["panic_programs"] = len(progs)
    dist["panic_positions_confirmed"] = pan_ok
    dist["panic_by_place"] = pdist
    if pan_ok < len(progs) * 0.9 and not ctx.violations:
        ctx.proof["broken"].append({"theorem": "panic-position exploration", "why": "only %d of %d generated programs ran to their panic" % (pan_ok, len(progs))})
    if progs:
        samples.append({"program": progs[-1]["src"][:400], "expect": "%s:%d:%d" % (progs[-1]["name"], progs[-1]["line"], progs[-1]["col"])})

    cov = {
        "evaluations": evaluations + swept,
        "distinct_nontrivial": len(nontrivial),
        "rule": "F: contents (empty / no newline / only newlines / CRLF / trailing / no trailing newline / random bytes) x EVERY offset 0..size for sizes <= 300, "
                "boundary-biased sampled offsets for sizes up to 20k; S: multi-file sets (explicit/automatic bases, gaps, reserved capacity, files without "
                "content, expected panics) x every Pos (or boundaries) before and after ToJson/FromJson; R: hand-made JSON (well-formed, unsorted lines, "
                "overlapping files, wild numbers); W: every offset of %d larger contents swept inside the harness; panic programs. "
                "distinct_nontrivial counts distinct (content kind, line class, column class, eof?, after-newline?, at-newline?, at-CR?) tuples for F, "
                "(files, found?, file index) for S, (mode, files) for R, (place, eol, prefix?, line) for panic programs" % nw,
        "samples": samples[:12],
        "distribution": dist,
        "swept_offsets_in_harness": swept,
    }
    return ctx.finish("proof", cov,
                      assumptions=["//line infos: semantics of the adjusted position decided by correspondence + python oracle, not by a theorem; directive parsing (scanner) exercised only", "Go int arithmetic does not overflow (bases, sizes < 2^62)",
                                   "file names are valid UTF-8", "encoding/json round-trips ints, strings and null/[] slices (exercised, not modelled)",
                                   "offset = size follows the proved EOF rule (continues the last byte's line), not the counting rule"],
                      trusted_base=["hand-written Lean model WaVerif/Model/C23.lean tied by the correspondence run (harness/c23)",
                                    "python reference ref_lines/ref_linecol in checks/c23.py and the Go scan in harness opW (oracles)",
                                    "encoding/json"])
