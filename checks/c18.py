"""C18 — PC-relative hi/lo relocation splitting is exact."""
from lib.vlib import boundary_ints
import concurrent.futures as cf

PROP = "C18"
META = {
    "category": "proof",
    "text": "Lean theorems over a BitVec 32/64 transcription of pcrel.go and la64.go: for all 2^32 offsets SplitOffset/CombineOffset recombine "
            "exactly, lo is a signed 12-bit value, hi = floor((d+2^11)/2^12) over the integers, and the RV32 auipc+addi pair computed from the "
            "emitted fields is pc+d; MakePCRel/MakeAbs reach their target; for every 64-bit pc and every target in the pcalau12i range the "
            "LoongArch pcalau12i+addi.d pair computed from the emitted (hi20, lo12) equals the target, and the fields fit their masks. "
            "All proofs are kernel-only (omega after bridging lemmas), no bv_decide. The model is hand-written and tied to the Go functions "
            "by a correspondence run, and the property's own oracle is run on the real code over all 2^32 offsets / in-range page deltas.",
    "note": "Trusted: Lean kernel; the CPU semantics of auipc/addi and pcalau12i/addi.d are hand-written specifications from the ISA manuals "
            "(three independent copies — Lean, Go harness, Python — are cross-checked against each other); the model/code tie is differential. "
            "Modelled-not-verified: the assembler's bookkeeping around the calls (hi/lo pairing maps in asm_func_*_x.go, uint32(addr) truncation in MakeAbs callers); "
            "the LoongArch call site is exercised end to end (assemble, read the instruction fields back, apply the CPU semantics); the RISC-V call site cannot be "
            "reached through the assembler on this tree (abi.BuiltinFn.IsValid rejects %pcrel_hi/%pcrel_lo for RISC-V). "
            "Remark proved, not a finding: on RV64 the top 2048 offsets (d >= 2^31-2^11) are beyond auipc reach (rv64_guard_tight); "
            "GetTargetAddressLa64 omits sign extension (getTargetAddressLa64_agrees_iff).",
    "technique": "Lean 4 proof over hand-written BitVec model + differential correspondence + exhaustive 2^32 sweep of the real code",
}
REQUIRED = ["split_combine", "split_lo_range", "split_hi_range", "split_exact", "rv32_cpu_target", "makeAbs_target",
            "makePCRel_target", "getTargetAddress_makePCRel", "rv64_cpu_target", "rv64_guard_tight",
            "la64_cpu_target", "la64_fields_fit", "getTargetAddressLa64_agrees_iff"]

M32, M64 = (1 << 32) - 1, (1 << 64) - 1


def s32(v): v &= M32; return v - (1 << 32) if v >> 31 else v
def s64(v): v &= M64; return v - (1 << 64) if v >> 63 else v
def sext(v, bits): v &= (1 << bits) - 1; return v - (1 << bits) if v >> (bits - 1) else v


# CPU semantics, from the ISA manuals (python integers; independent of the Go code and of the Lean model)
def cpu_rv32(pc, hi, lo):
    return (pc + ((hi & 0xFFFFF) << 12) + sext(lo, 12)) & M32


def cpu_rv64(pc, hi, lo):
    return s64(pc + sext((hi & 0xFFFFF) << 12, 32) + sext(lo, 12))


def cpu_la64(pc, hi, lo):
    return s64(((pc + (sext(hi, 20) << 12)) & ~0xFFF) + sext(lo, 12))


def gen_ops(ctx):
    rng = ctx.rng
    quick = ctx.tier == "quick"
    ds = set(boundary_ints(32, True))
    for k in list(range(-6, 7)) + [(1 << 19) - 2, (1 << 19) - 1, -(1 << 19), -(1 << 19) + 1]:
        for off in (-2049, -2048, -2047, -1, 0, 1, 2047, 2048, 2049):
            ds.add(k * 4096 + off)
    for _ in range(3000 if quick else 200000):
        w = rng.choice([8, 11, 12, 13, 16, 20, 24, 31, 32])
        ds.add(s32(rng.getrandbits(w) * rng.choice([1, -1])))
        ds.add(s32(rng.getrandbits(32)))
    ds = sorted(d for d in ds if -(1 << 31) <= d < (1 << 31))
    ops = []
    for d in ds:
        ops.append("split %d" % d)
    for d in ds[::3]:
        ops.append("abs %d" % (d & M32))
    # pcs
    pcs64 = [0, 4, 0xFFC, 0x1000, 0x12000010c, 0x80000000, 0xFFFFF000, (1 << 63) - 4, -(1 << 63), -4, -0x1000, -0x800,
             0x7FFFFFFFFFFFF800, 0x100000000]
    pcs64 += [s64(rng.getrandbits(64)) & ~3 for _ in range(20 if quick else 200)]
    pcs64 += [rng.getrandbits(rng.choice([16, 31, 32, 40, 48])) & ~3 for _ in range(20 if quick else 200)]
    # LoongArch page deltas: range edges (D + 0x800 in [-2^31, 2^31)), page-boundary neighbourhood, random; and out of range
    Ds = set()
    lo_edge, hi_edge = -(1 << 31) - 2048, (1 << 31) - 2048 - 1
    for e in (lo_edge, hi_edge):
        for k in range(-3, 4):
            Ds.add(e + k)
    for k in (-(1 << 19), -(1 << 19) + 1, -2, -1, 0, 1, 2, (1 << 19) - 2, (1 << 19) - 1):
        for off in (-2049, -2048, -2047, -1, 0, 1, 2047, 2048, 2049, 4095):
            Ds.add(k * 4096 + off)
    for _ in range(300 if quick else 5000):
        Ds.add(rng.randrange(lo_edge, hi_edge + 1))
        Ds.add(s64(rng.getrandbits(rng.choice([12, 13, 20, 31, 32, 33, 48, 64]))))
    Ds = sorted(Ds)
    for i, D in enumerate(Ds):
        for pc in ([pcs64[0], pcs64[4], pcs64[9]] + [rng.choice(pcs64) for _ in range(3)]):
            t = s64((pc & ~0xFFF) + D)
            ops.append("la %d %d" % (t, pc))
    # RISC-V MakePCRel: target - pc inside and outside int32
    for d in ds[::2] + [(1 << 31), -(1 << 31) - 1, (1 << 32) + 5, -(1 << 40)]:
        for pc in [0x80000000, rng.choice(pcs64)]:
            ops.append("pcrel %d %d" % (s64(pc + d), pc))
    # the repo's inverses and CombineOffset on arbitrary int32 arguments
    for _ in range(500 if quick else 20000):
        hi = s32(rng.getrandbits(rng.choice([12, 20, 21, 32])))
        lo = s32(rng.getrandbits(rng.choice([11, 12, 13, 32])) * rng.choice([1, -1]))
        ops.append("combine %d %d" % (hi, lo))
        ops.append("gta %d %d %d" % (rng.getrandbits(32), hi, lo))
        ops.append("gtla %d %d %d" % (rng.choice(pcs64), hi, lo))
    return ops


GAPS = [0, 1, 16, 500, 1023, 1024, 1100, 2100, 5000]


def gen_programs(ctx):
    """LoongArch programs for the assembler: 'asmprog <base> <t|d> <data pads> <text items>' (see harness/c18)."""
    rng = ctx.rng
    bases = [0x120000000, 0x10000, 0x7fff0000, 0xffff0000, 0x10000000000, 0x80000000]
    progs = []
    # fixed shapes: one symbol referenced again and again across pages (data, label before, label after, function)
    for order in "td":
        progs.append("asmprog %d %s 0 rD0,n1100,rD0,n2100,rD0,n5000,rD0,n0,rD0" % (bases[0], order))
        progs.append("asmprog %d %s 2040,4088 n1003,rD1,rD0,n1023,rD1,n1024,rD0,iD0/D1,n500,iD1/D0" % (bases[1], order))
    progs.append("asmprog %d t - l0,rL0,n1100,rL0,n2100,rL0,n5000,rL0" % bases[2])
    progs.append("asmprog %d t - rL0,n1100,rL0,n5000,rL0,l0,n16,rL0" % bases[3])
    progs.append("asmprog %d t 8 rF2,n1100,rF2,rS0,n2100,rS0,rF2,F,rS0,n5000,rS0,rF2,n1023,rF2,rD0,n1024,rD0" % bases[0])
    n = 16 if ctx.tier == "quick" else 300
    for _ in range(n):
        nd = rng.choice([0, 1, 1, 2, 3])
        pads = [rng.choice([0, 1, 8, 2039, 2040, 2047, 2048, 4087, 4088, 4096, rng.randrange(0, 12000)]) for _ in range(nd)]
        items = []
        for fn in range(rng.choice([1, 1, 2])):
            if fn == 1:
                items.append("F")
            nlab = rng.choice([0, 1, 2])
            labs = ["L%d" % (10 * fn + j) for j in range(nlab)]
            syms = ["D%d" % i for i in range(nd)] + labs + ["S0"] + (["F2"] if "F" in items or rng.random() < 0.0 else [])
            # labels get defined at a random position among the items of this function (before or after their uses)
            k = rng.choice([3, 4, 5, 6])
            lab_at = {l: rng.randrange(0, k + 1) for l in labs}
            hot = rng.choice(syms)                    # the symbol referenced repeatedly
            for pos in range(k + 1):
                for l in labs:
                    if lab_at[l] == pos:
                        items.append("l" + l[1:])
                if pos == k:
                    break
                sname = hot if rng.random() < 0.6 else rng.choice(syms)
                if rng.random() < 0.2:
                    items.append("i%s/%s" % (sname, rng.choice(syms)))
                else:
                    items.append("r" + sname)
                g = rng.choice(GAPS)
                if g:
                    items.append("n%d" % g)
        if rng.random() < 0.3:
            items.insert(0, "n%d" % rng.choice([979, 980, 1003, 1004, rng.randrange(0, 1100)]))
        # F2 may only be named if the program has a second function
        if "F" not in items:
            items = [it.replace("F2", "S0") for it in items]
        progs.append("asmprog %d %s %s %s" % (rng.choice(bases), rng.choice("td"), ",".join(map(str, pads)) or "-", ",".join(items)))
    return progs


def run(ctx):
    harness = ctx.build_harness("c18")
    ctx.prove(required=REQUIRED)
    model = ctx.build_model("c18")
    ops = []
    import glob, os
    from lib import vlib
    for fn in sorted(glob.glob(os.path.join(vlib.VERIF, "corpus", "C18", "*.ops"))):
        ops += [l.strip() for l in open(fn) if l.strip() and not l.startswith("#")]
    if ctx.replay:
        import json
        ops = [json.load(open(ctx.replay))["replay"]["op"]]
    else:
        ops += gen_ops(ctx)
    _, out, _ = ctx.run_bin(harness, input_text="\n".join(ops) + "\n")
    impl = out.splitlines()

    # ---------------- oracle: the property's predicate on the REAL code's answers ----------------
    dist = {}
    nontrivial = set()
    spec_ops, spec_expect = [], []          # CPU-spec lines for the Lean model, with the python spec's answer
    samples = []

    def bump(k):
        dist[k] = dist.get(k, 0) + 1

    e2e_model_ops, e2e_fields = [], []

    first_ref = {}

    def check_pair(op, r, pc, sym, hi, lo, cpu, name, key):
        bump("asm-e2e-pair")
        f0 = first_ref.setdefault(key, pc)
        dist_pages = abs((pc >> 12) - (f0 >> 12))
        nontrivial.add(("e2e", name[:1], pc != f0, min(dist_pages, 2), lo >= 0x800, sym < pc))
        if pc != f0:
            bump("asm-e2e-repeat:%s" % ("same-page" if dist_pages == 0 else "adjacent-page" if dist_pages == 1 else "far-page"))
        if cpu != sym or cpu_la64(pc, hi, lo) != sym:
            ctx.violation("asm-e2e:la64-wrong-address",
                          "%s: the pcalau12i/addi.d pair for %s at pc=%#x has hi20=%d lo12=%d and gives %#x; the symbol is at %#x "
                          "(%s reference to it in the function, %d page(s) from the first)" % (
                              op, name, pc, hi, lo, cpu_la64(pc, hi, lo), sym, "first" if pc == f0 else "repeated", dist_pages),
                          {"op": op, "impl": r})
        e2e_model_ops.append("la %d %d" % (sym, pc)); e2e_fields.append("%d %d" % (hi, lo))

    def check_e2e(op, r):
        if not r.startswith("ok "):
            ctx.violation("asm-e2e:" + r.split()[0], "%s -> %s" % (op, r), {"op": op, "impl": r}); return
        if op.startswith("asmprog"):
            parts = [x.strip() for x in r.split("|")]
            # the function a reference is in = number of "F" items before it; count pairs per (program, function, symbol)
            fn_of = []
            fn = 0
            for it in op.split()[4].split(","):
                if it == "F":
                    fn += 1
                elif it[0] == "r":
                    fn_of.append(fn)
                elif it[0] == "i":
                    fn_of += [fn, fn]
            if len(parts) - 1 != len(fn_of) or int(parts[0].split()[1]) != len(fn_of):
                ctx.violation("asm-e2e:pair-count", "%s -> %d pairs reported, %d generated" % (op, len(parts) - 1, len(fn_of)), {"op": op, "impl": r}); return
            for k, ptxt in enumerate(parts[1:]):
                w = ptxt.split()
                pc, sym, hi, lo, cpu = map(int, w[:5])
                check_pair(op, r, pc, sym, hi, lo, cpu, w[5], (op, fn_of[k], w[5]))
            return
        kv = dict(x.split("=") for x in r.split()[1:])
        pc, sym, hi, lo, cpu = (int(kv[k]) for k in ("pc", "sym", "hi", "lo", "cpu"))
        check_pair(op, r, pc, sym, hi, lo, cpu, "D", (op, 0, "D"))

    for op, r in zip(ops, impl):
        f = op.split()
        if f[0] in ("asmla", "asmprog"):
            check_e2e(op, r); continue
        if r.startswith("PANIC") or r == "bad-op":
            ctx.violation("%s:%s" % (f[0], r.split()[0]), "%s -> %s" % (op, r), {"op": op, "impl": r})
            continue
        if f[0] in ("split", "abs"):
            d = s32(int(f[1]))
            hi, lo = map(int, r.split())
            cls = (f[0], d < 0, bool(d & 0x800), hi == (1 << 19), lo < 0, d % 4096 == 0)
            nontrivial.add(cls)
            bump(f[0] + (":lo<0" if lo < 0 else ":lo>=0"))
            if s32((hi << 12) + lo) != d:
                ctx.violation("split:recombine", "%s -> hi=%d lo=%d; (hi<<12)+lo = %d, not the offset" % (op, hi, lo, s32((hi << 12) + lo)),
                              {"op": op, "impl": r})
            if not (-2048 <= lo <= 2047):
                ctx.violation("split:lo-range", "%s -> lo=%d outside [-2048, 2047]" % (op, lo), {"op": op, "impl": r})
            if not (-(1 << 20) <= hi < (1 << 20)):
                ctx.violation("split:hi-range", "%s -> hi=%d is rejected by the U-type range check" % (op, hi), {"op": op, "impl": r})
            for pc in (0, 0x80000000, 0xFFFFFFFC):
                if cpu_rv32(pc, hi, lo) != (pc + d) & M32:
                    ctx.violation("split:rv32-cpu", "%s -> hi=%d lo=%d; auipc+addi at pc=%#x give %#x, want %#x" % (
                        op, hi, lo, pc, cpu_rv32(pc, hi, lo), (pc + d) & M32), {"op": op, "impl": r})
            spec_ops.append("cpurv32 %d %d %d" % (0xFFFFFFFC, hi, lo)); spec_expect.append(str(cpu_rv32(0xFFFFFFFC, hi, lo)))
        elif f[0] == "la":
            t, pc = int(f[1]), int(f[2])
            hi, lo = map(int, r.split())
            D = s64(t - (pc & ~0xFFF))
            inrange = -(1 << 31) <= D + 2048 < (1 << 31)
            wraps = not (-(1 << 63) <= (pc & ~0xFFF) + D < (1 << 63))
            cls = ("la", inrange, lo >= 0x800, hi >= 0x80000, D < 0, wraps, pc < 0)
            nontrivial.add(cls)
            bump("la:in-range" if inrange else "la:out-of-range")
            if not (0 <= hi <= 0xFFFFF and 0 <= lo <= 0xFFF):
                ctx.violation("la64:fields", "%s -> hi=%d lo=%d do not fit 20/12 bits" % (op, hi, lo), {"op": op, "impl": r})
            if inrange and cpu_la64(pc, hi, lo) != t:
                ctx.violation("la64:cpu-target", "%s -> hi20=%d lo12=%d; pcalau12i+addi.d give %d, want the target" % (
                    op, hi, lo, cpu_la64(pc, hi, lo)), {"op": op, "impl": r})
            spec_ops.append("cpula %d %d %d" % (pc, hi, lo)); spec_expect.append(str(cpu_la64(pc, hi, lo)))
        elif f[0] == "pcrel":
            t, pc = int(f[1]), int(f[2])
            hi, lo = map(int, r.split())
            D = s64(t - pc)
            fits = -(1 << 31) <= D < (1 << 31)
            reach = -(1 << 31) <= D < (1 << 31) - 2048
            nontrivial.add(("pcrel", fits, reach, D < 0, lo < 0))
            bump("pcrel:fits32" if fits else "pcrel:truncated")
            if fits and s64(pc + s32((hi << 12) + lo)) != t:
                ctx.violation("pcrel:target", "%s -> hi=%d lo=%d; pc + combine = %d, want the target" % (op, hi, lo, s64(pc + s32((hi << 12) + lo))),
                              {"op": op, "impl": r})
            if reach and cpu_rv64(pc, hi, lo) != t:
                ctx.violation("pcrel:rv64-cpu", "%s -> hi=%d lo=%d; RV64 auipc+addi give %d, want the target" % (op, hi, lo, cpu_rv64(pc, hi, lo)),
                              {"op": op, "impl": r})
            spec_ops.append("cpurv64 %d %d %d" % (pc, hi, lo)); spec_expect.append(str(cpu_rv64(pc, hi, lo)))
        elif f[0] == "combine":
            hi, lo = int(f[1]), int(f[2])
            bump("combine")
            if int(r) != s32((hi << 12) + lo):
                ctx.violation("combine:wrong", "%s -> %s, (hi<<12)+lo mod 2^32 is %d" % (op, r, s32((hi << 12) + lo)), {"op": op, "impl": r})
        else:
            bump(f[0])          # gta / gtla: the repo's own inverses, compared model-vs-code only
        if len(samples) < 14 and (len(ops) < 14 or ctx.rng.random() < 14.0 / len(ops)):
            samples.append({"op": op, "impl": r})

    # ---------------- end to end through the assembler (the user of MakeLa64PCRel) ----------------
    # a data symbol's address is loaded with pcalau12i/addi.d %pc_hi20/%pc_lo12; the instruction fields are read back
    # from the linked text and must (a) be what the model computes for (symbol, pc) and (b) give the symbol on the CPU.
    e2e_ops = []
    if not ctx.replay:
        bases = [0x120000000, 0x10000, 0x7fff0000, 0xffff0000, 0x10000000000, 0x80000000]
        for i in range(48 if ctx.tier == "quick" else 600):
            nops = ctx.rng.choice([0, 1, 2, 3, 979, 980, 981, 1003, 1004, ctx.rng.randrange(0, 2100)])
            pad = ctx.rng.choice([0, 1, 7, 8, 2039, 2040, 2047, 2048, 2049, 4087, 4088, 4095, 4096, ctx.rng.randrange(0, 20000)])
            e2e_ops.append("asmla %d %d %d %s" % (ctx.rng.choice(bases), nops, pad, ctx.rng.choice("td")))
        # programs with SEVERAL references: the same symbol (data, label, function) referenced two or more times in one
        # function, with gaps that put the references in the same page, in adjacent pages and in far pages, before and
        # after the symbol's definition, plain and interleaved pairs; every emitted pair is checked.
        e2e_ops += gen_programs(ctx)
        _, eo, _ = ctx.run_bin(harness, input_text="\n".join(e2e_ops) + "\n")
        for op, r in zip(e2e_ops, eo.splitlines()):
            check_e2e(op, r)
        # probe: is the RISC-V %pcrel_hi/%pcrel_lo call site reachable through the assembler on this tree?
        _, po, _ = ctx.run_bin(harness, input_text="rvprobe\n")
        rv_reachable = po.strip() == "reachable"
        if rv_reachable:
            print("NOTE property=C18 the RISC-V %pcrel_hi/%pcrel_lo call site is now reachable through the assembler; "
                  "running the single-reference end-to-end stream for it (extend gen_programs to RISC-V)")
            rv_ops = ["%s %d %d %d %s" % (k, b, n, pd, o) for k in ("asmrv64", "asmrv32") for b in (0x80000000, 0x10000)
                      for n in (0, 1, 1003, 1023) for pd in (0, 2040, 2048, 4088) for o in "td"]
            _, ro, _ = ctx.run_bin(harness, input_text="\n".join(rv_ops) + "\n")
            for op, r in zip(rv_ops, ro.splitlines()):
                if not r.startswith("ok "):
                    ctx.notes.append("riscv e2e: %s -> %s" % (op, r)); continue
                kv = dict(x.split("=") for x in r.split()[1:])
                pc, sym, hi, lo, cpu = (int(kv[k]) for k in ("pc", "sym", "hi", "lo", "cpu"))
                bump("asm-e2e-riscv")
                want = sym & M32 if op.startswith("asmrv32") else sym
                if cpu != want:
                    ctx.violation("asm-e2e:riscv-wrong-address", "%s: auipc/addi fields hi=%d lo=%d at pc=%#x give %#x, the symbol is at %#x" % (
                        op, hi, lo, pc, cpu, sym), {"op": op, "impl": r})
        else:
            ctx.notes.append("RISC-V %%pcrel call site not reachable through the assembler: %s" % po.strip())

    # ---------------- correspondence with the Lean model ----------------
    if model and e2e_model_ops:
        _, mo, _ = ctx.run_bin(model, input_text="\n".join(e2e_model_ops) + "\n")
        for i, op, a, b in ctx.diff_lines(e2e_model_ops, e2e_fields, mo.splitlines())[:20]:
            ctx.proof["broken"].append({"theorem": "correspondence C18 assembler-emitted fields vs model", "why": "op %r: emitted=%r model=%r" % (op, a, b)})
    mpairs = [(op, r) for op, r in zip(ops, impl) if not op.startswith("asm")]
    if model and mpairs:
        mops, mimpl = [x[0] for x in mpairs], [x[1] for x in mpairs]
        _, mout, _ = ctx.run_bin(model, input_text="\n".join(mops) + "\n")
        for i, op, a, b in ctx.diff_lines(mops, mimpl, mout.splitlines())[:20]:
            ctx.proof["broken"].append({"theorem": "correspondence C18 model vs pcrel.go/la64.go", "why": "op %r: impl=%r model=%r" % (op, a, b)})
    if model and spec_ops:
        # the Lean CPU specifications against the python ones (specification cross-validation)
        _, sout, _ = ctx.run_bin(model, input_text="\n".join(spec_ops) + "\n")
        for i, op, a, b in ctx.diff_lines(spec_ops, spec_expect, sout.splitlines())[:20]:
            ctx.proof["broken"].append({"theorem": "CPU specification cross-check (python vs Lean)", "why": "op %r: python=%r lean=%r" % (op, a, b)})

    # ---------------- exhaustive sweeps of the real code (oracle only; the Go harness has a third copy of the CPU semantics) ----------------
    swept = 0
    if not ctx.replay:
        blk = 1 << 28
        jobs = [("sweep", s, blk) for s in range(0, 1 << 32, blk)] + [("sweepla", s, blk) for s in range(0, 1 << 32, blk)]
        with cf.ThreadPoolExecutor(16) as ex:
            futs = {ex.submit(ctx.run_bin, harness, (), "%s %d %d\n" % j, 3000): j for j in jobs}
            for fu in cf.as_completed(futs):
                j = futs[fu]
                _, o, _ = fu.result()
                swept += j[2]
                if o.strip() != "ok":
                    w = o.split()
                    ctx.violation("%s:%s" % (j[0], w[1] if len(w) > 1 else "crash"), "%s over [%d,+%d): %s" % (j[0], j[1], j[2], o.strip()),
                                  {"op": "%s %d %d" % j, "impl": o.strip()})
    cov = {
        "evaluations": len(ops) + len(spec_ops) + len(e2e_ops) + swept,
        "distinct_nontrivial": len(nontrivial),
        "rule": "line ops: boundary (every power of two +-2, every k*4096 + {0,+-1,+-2047,+-2048,+-2049} near 0 and near +-2^19 pages) and random "
                "int32 offsets through SplitOffset/MakeAbs/MakePCRel; LoongArch (target, pc) with page deltas at the range edges +-3, page boundaries, "
                "random in range and out of range, pcs including negative / wrap-around ones; arbitrary (hi, lo) through CombineOffset and the repo's inverses. "
                "distinct_nontrivial = distinct (op, sign of d, bit 11, hi=2^19 edge, lo sign, page-aligned | in-range, lo>=0x800, hi>=0x80000, delta sign, "
                "address wrap, pc sign) classes seen. Sweeps: all 2^32 offsets (RISC-V oracle) and all 2^32 in-range page deltas (LoongArch oracle) on the real code.",
        "samples": samples,
        "distribution": dist,
        "swept_values": swept,
        "exhaustive": swept == 2 * (1 << 32),
        "riscv_pcrel_call_site_reachable": (not ctx.replay) and rv_reachable,
    }
    return ctx.finish("proof", cov,
                      assumptions=["CPU semantics of auipc/addi (RV32I/RV64I) and pcalau12i/addi.d (LA64) as written in Model/C18.lean, checks/c18.py and harness/c18 (three copies cross-checked)",
                                   "the encoders place the low 20 / 12 bits of the int32 immediates in the instruction fields (riscv/encode.go imm<<12, imm<<20; loong64/encode.go &0xFFFFF, &0xFFF)",
                                   "RV64: offsets d >= 2^31-2^11 are outside auipc reach (proved tight); the property is stated for 32-bit recombination"],
                      trusted_base=["hand-written Lean model WaVerif/Model/C18.lean tied by the correspondence run (harness/c18)",
                                    "python CPU reference in checks/c18.py (oracle)"])
