"""C12 — Discarded acyclic data is reclaimed: loops run in bounded heap."""
import glob, os
from lib import vlib
from gen import c11_progs, c11_run
from checks import c11 as c11chk

PROP = "C12"
META = {
    "category": "exploration",
    "text": "Partial. Proved in Lean over the reference-counting protocol model shared with C11: on an acyclic heap whose counts equal the "
            "number of references, allocated = reachable (live_iff_reachable); dropping a held reference frees exactly the blocks that were "
            "reachable only through it and leaves the rest untouched (acyclic_garbage_reclaimed); a loop whose iterations are disciplined, "
            "acyclic and leave the retained structure alone has the same allocated set at every loop head (loop_bounded); and the boundary: a "
            "2-cycle whose references are all dropped stays allocated with correct counts (cycle_leaks). That compiled code follows the "
            "discipline is explored, not proved: loops over hand-written acyclic bodies (strings, slices, structs, maps, closures, interface "
            "boxing, defer, early exits, multi-value results ...) and over every (value type, usage context) cell of the feature matrix are "
            "compiled by the real pipeline and run instrumented; host-side malloc/free accounting at loop checkpoints after 4, 10, 100, 300, 1000 "
            "(thorough: 5000) iterations must show the same number of allocated blocks, a heap pointer (__heap_ptr, the heap's high-water mark) "
            "that does not move after iteration 100, and at exit nothing left of what non-final iterations allocated. Bodies include a systematic discarded-result family (7 call kinds x every "
            "discarding statement position incl. defer x 10 reference-bearing result types, 329 loops), data parked "
            "in package-level variables / fields of global structs and dropped again inside the iteration, and bursts of 60/100/300 frees of one "
            "size class (across the capacity of the allocator's fixed-size free lists), where only the heap-size clause can see a loss. Two cyclic bodies are run as a sensitivity control and must be flagged.",
    "note": "Trusted: as C11 (WAT rewriting, host accounting, wazero). Modelled-not-verified: the compiler's release placement on scope exit / "
            "overwrite / early exit (explored per loop body), the allocator's ability to re-use freed memory (heap pointer observed; C10 proves "
            "the allocator). Blocks retained by design are excluded by construction of the measurement: one-time allocations happen before the "
            "first checkpoint, a global or loop-carried variable only holds blocks of the final iteration.",
    "technique": "Lean 4 proof over the protocol state machine + instrumented execution of compiled loops with checkpointed heap accounting",
}
REQUIRED = ["live_iff_reachable", "acyclic_garbage_reclaimed", "loop_bounded", "cycle_leaks", "garbage_never_freed",
            "cycle_never_freed", "unreachable_not_held"]


def groups_of(mr):
    g = {}
    for cp in mr.get("checkpoints") or []:
        f = cp["label"].split()
        if len(f) != 3:
            continue
        g.setdefault(int(f[1]), []).append((int(f[2]), cp))
    return {k: [c for _, c in sorted(v, key=lambda t: t[0])] for k, v in g.items()}


def verdicts(cps):
    """the property's predicate on one loop's checkpoints -> list of (kind, text)"""
    out = []
    if len(cps) < 2:
        return out
    base = cps[0]
    for c in cps[1:]:
        if c["live"] != base["live"]:
            out.append(("live-blocks-grow", "allocated blocks: %s" % ", ".join("%s=%d" % (x["label"].split()[2], x["live"]) for x in cps)))
            break
    leaked = sum(c["leak_at_exit"] for c in cps[1:-1])
    if leaked:
        smp = [s for c in cps[1:-1] for s in c.get("leak_sample", [])][:3]
        out.append(("blocks-of-earlier-iterations-allocated-at-exit", "%d blocks allocated in iterations %s..%s are still allocated at exit (%s)" % (
            leaked, cps[0]["label"].split()[2], cps[-2]["label"].split()[2], "; ".join(smp))))
    # heap size: after the warm-up (every allocation shape has occurred by iteration 100) the bump pointer must not move any
    # more, whatever the allocated-block count says (memory lost inside the allocator shows only here)
    late = [c for c in cps if int(c["label"].split()[2]) >= 100]
    if len(late) >= 2 and any(c["heap_ptr"] != late[0]["heap_ptr"] for c in late[1:]):
        out.append(("heap-pointer-grows", "__heap_ptr: %s" % ", ".join("%s=%d" % (x["label"].split()[2], x["heap_ptr"]) for x in cps)))
    return out


def run(ctx):
    harness = ctx.build_harness("c11")
    c11chk.regen_header(ctx)          # Props.C12 imports the same lemma tree
    ctx.prove(required=REQUIRED)
    model = ctx.build_model("c11")
    quick = ctx.tier == "quick"
    n_loop = int(os.environ.get("VERIF_C12_N", "1000" if quick else "5000"))
    n_matrix = int(os.environ.get("VERIF_C12_NMATRIX", "300" if quick else "1000"))
    n_burst = int(os.environ.get("VERIF_C12_NBURST", "300" if quick else "1000"))
    progs = []      # (name, src, [group construct names], expect_leak, trace)
    cdir = os.path.join(vlib.VERIF, "corpus", "C12")
    corpus_cause = {}
    for f in sorted(glob.glob(os.path.join(cdir, "*.wa.go"))):
        # file name: [<root cause>__]<name>.wa.go — a minimised past failure carries the cause it was attributed to
        base = os.path.basename(f)[:-6]
        if "__" in base:
            corpus_cause["corpus:" + base] = base.split("__")[0]
        progs.append(("corpus:" + base, open(f).read(), None, False, False))
    bodies = [(k,) + v for k, v in c11_progs.LOOP_BODIES.items()]
    per = 3                        # bodies per program: the instrumented runs are the long pole, so spread them
    for j in range(0, len(bodies), per):
        part = bodies[j:j + per]
        progs.append(("loops:%d" % (j // per), c11_progs.loop_program(part, n_loop), ["loop:" + b[0] for b in part], False, False))
    # bursts of frees of one size class across the capacity (64) of the allocator's fixed-size lists: heap-size clause
    for bname, bsrc, bnames in c11_progs.burst_programs(n_burst, per=1):
        progs.append((bname, bsrc, ["burst:" + x for x in bnames], False, False))
    # discarded results: every call kind x discarding statement position x reference-bearing result type
    n_discard = int(os.environ.get("VERIF_C12_NDISCARD", "300" if quick else "1000"))
    for dname, dsrc, dnames in c11_progs.discard_programs(n_discard):
        progs.append((dname, dsrc, dnames, False, False))
    progs.append(("loops:traced", c11_progs.loop_program(bodies, 10), ["loop:" + b[0] for b in bodies], False, True))
    cyc = [(k,) + v for k, v in c11_progs.CYCLE_BODIES.items()]
    progs.append(("cycles", c11_progs.loop_program(cyc, min(n_loop, 1000)), ["cycle:" + b[0] for b in cyc], True, False))
    from gen import matrix
    types = list(matrix.TYPES)
    if quick:
        # reference-bearing types always, plus two scalar types chosen by the seed
        scal = [t for t in types if t not in c11chk.REF_TYPES]
        types = c11chk.REF_TYPES + ctx.rng.sample(scal, 2)
    for t, src, cnames in c11_progs.matrix_loop_programs(n_matrix, types=types):
        progs.append(("matrix:" + t, src, ["matrix:%s/%s" % (t, c) for c in cnames], False, False))
    workers = int(os.environ.get("VERIF_WORKERS", "12" if quick else "14"))
    traced = [(n, s) for n, s, _, _, tr in progs if tr]
    plain = [(n, s) for n, s, _, _, tr in progs if not tr]
    # the long loops run under poisoning only in the quick tier (C11 runs every construct under quarantine as well)
    results = c11_run.run_programs(ctx, harness, plain, trace=False, workers=workers, timeout=1500,
                                   modes="poison" if quick else "poison,quarantine")
    results.update(c11_run.run_programs(ctx, harness, traced, trace=True, workers=1, timeout=1500))
    dist = {"loops": 0, "loops_bounded": 0, "loops_flagged": 0, "control_cycles_flagged": 0, "checkpoints": 0}
    evals, samples, c11dist = 0, [], {}
    for name, src, gnames, expect_leak, _ in progs:
        res = results[name]
        if res.get("status") == "rewrite-error":
            raise vlib.InfraError("the WAT rewriting no longer applies (%s)" % res.get("error"))
        if res.get("status") != "ok":
            ctx.notes.append("%s not run: %s %s" % (name, res.get("status"), str(res.get("error"))[:200]))
            dist["status:" + str(res.get("status"))] = dist.get("status:" + str(res.get("status")), 0) + 1
            continue
        # the C11 oracles hold on these runs too (poisoning, quarantine, zeroing, no bad free)
        evals += c11_run.judge_c11(ctx, name, name, src, res, c11dist)
        mr = res["modes"]["poison"]
        if mr.get("err") or res.get("base_err"):
            ctx.notes.append("%s: run ended with %s" % (name, (mr.get("err") or res.get("base_err"))[:160].replace("\n", " ")))
        for g, cps in sorted(groups_of(mr).items()):
            construct = gnames[g] if gnames and g < len(gnames) else "%s#%d" % (name, g)
            dist["loops"] += 1
            dist["checkpoints"] += len(cps)
            evals += 3
            vs = verdicts(cps)
            if expect_leak:
                # negative control (cycle_leaks): the oracle must see the growth; it is by design, not a violation
                if any(k == "live-blocks-grow" for k, _ in vs):
                    dist["control_cycles_flagged"] += 1
                else:
                    ctx.proof["broken"].append({"theorem": "C12 oracle sensitivity", "why": "the cyclic control loop %s was not flagged" % construct})
                continue
            if vs:
                dist["loops_flagged"] += 1
            else:
                dist["loops_bounded"] += 1
            cause = c11_progs.KNOWN_CAUSE.get(construct) or corpus_cause.get(name)
            for kind, text in vs:
                ctx.violation(("leak:" + cause) if cause else "%s:%s" % (kind, construct),
                              "loop body %s run %s times: %s" % (construct, cps[-1]["label"].split()[2], text),
                              {"program": src, "name": name, "loop": g, "construct": construct,
                               "checkpoints": [{k: c[k] for k in ("label", "live", "live_bytes", "heap_ptr", "leak_at_exit")} for c in cps]})
            if len(samples) < 10 and (g % 5 == 0):
                samples.append({"loop": construct, "iterations": cps[-1]["label"].split()[2],
                                "allocated_blocks_at_checkpoints": [c["live"] for c in cps],
                                "heap_ptr_at_checkpoints": [c["heap_ptr"] for c in cps],
                                "mallocs_total_program": mr["stats"]["mallocs"]})
    if dist["loops"] == 0:
        raise vlib.InfraError("no loop could be run: %s" % ctx.notes[:3])
    nev, diffs = c11_run.replay_traces(ctx, model, [(n, results[n]) for n, _, _, _, tr in progs if tr])
    for owner, i, op, a, b in diffs:
        ctx.proof["broken"].append({"theorem": "correspondence C12 trace replay (wamodel_c11 vs real run)",
                                    "why": "program %s event %d %r: real=%r model=%r" % (owner, i, op, a, b)})
    dist["trace_events_replayed"] = nev
    dist["mallocs"] = c11dist.get("poison:mallocs", 0)
    dist["frees"] = c11dist.get("poison:frees", 0)
    cov = {
        "evaluations": evals + nev,
        "distinct_nontrivial": dist["loops_bounded"] + dist["loops_flagged"],
        "rule": "one loop = one body (hand-written acyclic body, or one (type, context) cell of the feature matrix) run N times in the compiled "
                "program; evaluations = 3 verdicts per loop (allocated-block count equal at all checkpoints; nothing allocated by non-final "
                "iterations is still allocated at exit; heap pointer equal at the last two checkpoints) + the C11 oracles on the same runs + "
                "replayed trace events; distinct_nontrivial = loops that ran to their last checkpoint (control loops excluded)",
        "samples": samples,
        "distribution": dist,
        "iterations": {"bodies": n_loop, "matrix": n_matrix},
    }
    return ctx.finish("exploration", cov,
                      assumptions=["loop bodies are periodic in the iteration number (period 37) so that every allocation size occurs before the checkpoint at 100",
                                   "a leak is visible as growth of the allocated-block count between checkpoints or as blocks of non-final iterations allocated at exit"],
                      trusted_base=["harness/c11 (WAT rewriting + host-side accounting), internal/wazero hook VerifC11Run",
                                    "hand-written protocol model WaVerif/Model/C11RC.lean (shared with C11)"])
