"""C26 — Debug-adapter messages survive encode/decode and stream framing."""
import hashlib, json, os
from lib import vlib

PROP = "C26"
META = {
    "category": "proof",
    "text": "Proof for framing and dispatch, exploration for the JSON field round trip. Lean theorems over a model of go-dap's "
            "base protocol: ReadBaseMessage applied to WriteBaseMessage's output followed by anything returns exactly the content and "
            "leaves exactly what followed, for every content up to the 4 MiB limit (read_write_base; decimal_roundtrip for the "
            "Content-Length number); every sequence of contents is read back exactly (base_stream_roundtrip) over every split of the "
            "stream into non-empty reads and every buffer size (base_chunking_irrelevant, read_write_base_chunked, via the shared Stream "
            "model); dispatch over the constructor maps regenerated from the compiled codec is total and injective (dispatch_total, "
            "dispatch_injective). The header format, delimiter, limit, regex text and the three constructor maps are regenerated on every "
            "run. The hand-written transcription is tied to io.go/codec.go by a differential correspondence run (real "
            "WriteBaseMessage/ReadBaseMessage through bufio over a chunking io.Reader, real DecodeProtocolMessage). Field-level round trip: "
            "reflection-generated values of every registered message type (+ ErrorResponse) are written with WriteProtocolMessage and read "
            "back with ReadProtocolMessage through a chunking reader and compared with reflect.DeepEqual after canonicalisation.",
    "note": "Trusted: Lean kernel; Go's encoding/json (not modelled: the field-level round trip is exploration, not proof); the tie of the "
            "hand-written framing/dispatch model to the Go code is the correspondence run. Guards / excluded points (proved or observed, "
            "compared with the real code): contents over 4 MiB are written but refused by the reader (too_long_rejected); a message must "
            "carry the type/command/event strings of its own Go type and success=true unless it is an ErrorResponse (otherwise it is decoded "
            "as another registered type / ErrorResponse); strings must be valid UTF-8, interface{} values JSON-native (float64, not int), "
            "json.RawMessage compact; canonicalisation: empty slice/map in an omitempty field == nil, nil RawMessage == null, RawMessage "
            "compared as JSON, InitializeRequestArguments.PathFormat \"\" == \"path\" (decoder default).",
    "glue": "The server loop of `wa dap` (internal/dap handleConnection/handleRequest/sendFromQueue) is driven on the real code over net.Pipe "
            "under 15 chunkings of the request stream (oracle only: one response per request with its request_seq/command/success, complete "
            "frames, no crash). Requests outside dispatchRequest's switch (e.g. modules) end the mock server with log.Fatalf by design and are "
            "not sent. Known finding srv:error-response-nil-pointer-dereference (proposed_fixes/C26-dap-error-response-nil-deref.diff).",
    "technique": "Lean 4 proof over regenerated constants/tables + hand-written framing/dispatch model, differential correspondence, "
                 "reflection-driven round-trip exploration of every registered type on the real code",
}
REQUIRED = ["takeN_short", "base_truncated_content", "header_regex_is_modelled", "regex_prefix_is_writer_prefix", "header_suffix_is_delimiter", "max_length_fits_int64",
            "decimal_roundtrip", "read_len_write_header", "read_write_base", "too_long_rejected", "base_stream_roundtrip_rest",
            "base_stream_roundtrip", "base_chunking_irrelevant", "read_write_base_chunked", "kind_literals",
            "request_names_distinct", "response_names_distinct", "event_names_distinct", "dispatch_total", "dispatch_injective",
            "failed_response_is_error", "request_response_same_commands"]
GEN_REL = os.path.join("WaVerif", "Gen", "C26Dap.lean")
MAXLEN = 4 * 1024 * 1024


def hx(bs):
    return bytes(bs).hex() or "-"


def sx(s):
    return s.encode().hex() or "-"


def splits_s(sp):
    return ",".join(str(x) for x in sp)


def gen_splits(rng):
    k = rng.random()
    if k < 0.2:
        return [1]
    if k < 0.3:
        return [4096]
    return [rng.choice([1, 1, 2, 3, 4, 5, 7, 8, 15, 16, 17, 64, 100]) for _ in range(rng.randint(1, 5))]


PIECES = [b"\r", b"\n", b"\r\n", b"\r\n\r\n", b"Content-Length: ", b"Content-Length: 3\r\n\r\nabc", b"{}", b"{\"seq\":1}", b"0", b"12",
          b"\x00", b"\xff", b" ", b"\n\r\n", b":"]


def gen_content(rng, maxlen):
    m = rng.random()
    if m < 0.1:
        return b""
    if m < 0.55:
        return b"".join(rng.choice(PIECES) for _ in range(rng.randint(1, 6)))
    if m < 0.9:
        return bytes(rng.choice([13, 10, 48, 57, 32, 58]) if rng.random() < 0.5 else rng.randrange(256) for _ in range(rng.randint(1, 40)))
    # lengths around the powers of ten (number of header digits changes) and larger
    n = rng.choice([9, 10, 11, 99, 100, 101, 999, 1000, 1001, rng.randint(1, maxlen)])
    return bytes(rng.randrange(256) for _ in range(min(n, maxlen)))


def frame(c):
    return b"Content-Length: %d\r\n\r\n" % len(c) + c


def gen_raw(rng):
    """malformed / borderline headers"""
    c = rng.choice([b"abc", b"", b"{}", b"\r\n\r\n"])
    good = frame(c)
    k = rng.randrange(14)
    if k == 0:
        i = rng.randrange(len(good) + 1)
        return good[:i]                                    # truncation at every position
    if k == 1:
        i = rng.randrange(len(good))
        return good[:i] + bytes([good[i] ^ (1 << rng.randrange(8))]) + good[i + 1:] + good
    if k == 2:
        return b"Content-Length: %s\r\n\r\n" % rng.choice([b"", b"-1", b"+1", b"1 ", b" 1", b"0x10", b"1_0", b"1.0", b"\xd9\xa1", b"003", b"00", b"0"]) + b"abc" + good
    if k == 3:
        return rng.choice([b"content-length: 3", b"Content-Length:3", b"Content-Length:  3", b" Content-Length: 3", b"Content-Length: 3 ",
                           b"Content-Type: x\r\nContent-Length: 3", b"\nContent-Length: 3", b"Content-Length: 3\n", b"XContent-Length: 3"]) + b"\r\n\r\nabc" + good
    if k == 4:
        return b"Content-Length: 3" + rng.choice([b"\r\n\r", b"\r\r\n\r\n", b"\r\n\n\r\n", b"\n\r\n\r\n", b"\r\n\r\r", b"\r", b"\r\n", b"\r\nX\r\n", b"\rabc"]) + b"abc" + good
    if k == 5:
        n = rng.choice([2 ** 63 - 1, 2 ** 63, 2 ** 63 + 1, 2 ** 64, 10 ** 19, 10 ** 30, 99999999999999999999, MAXLEN + 1, MAXLEN * 10,
                        9223372036854775807, 9223372036854775808])
        return b"Content-Length: %d\r\n\r\n" % n + b"abc"
    if k == 6:
        return b"Content-Length: %d\r\n\r\n" % rng.choice([4, 5, 100, MAXLEN]) + b"abc"          # content shorter than announced
    if k == 7:
        return good + b"Content-Length: 1\r\n\r\n" + b"xy" + good                               # content longer than announced
    if k == 8:
        return bytes(rng.choice(b"\r\nC: 019") for _ in range(rng.randint(0, 12)))
    if k == 9:
        return b"Content-Length: " + bytes(rng.choice(b"0123456789") for _ in range(rng.randint(1, 25))) + b"\r\n\r\n" + b"x" * rng.randint(0, 20)
    if k == 10:
        return good + good[:rng.randrange(len(good))]
    if k == 11:
        return b"\r\n\r\n" + good
    if k == 12:
        return good + b"\r"
    return bytes(rng.randrange(256) for _ in range(rng.randint(0, 30)))


def load_corpus():
    d = os.path.join(vlib.VERIF, "corpus", PROP)
    ops = []
    if os.path.isdir(d):
        for f in sorted(os.listdir(d)):
            if f.endswith(".ops"):
                ops += [l.strip() for l in open(os.path.join(d, f)) if l.strip() and not l.startswith("#")]
    return ops


def gen_ops(ctx, types):
    rng = ctx.rng
    quick = ctx.tier == "quick"
    ops = []
    # framing: content sequences through the real writer/reader
    for _ in range(2500 if quick else 25000):
        n = rng.choice([1, 1, 2, 3, 5, 8])
        cs = [gen_content(rng, 1200 if quick else 3000) for _ in range(n)]
        ops.append("base %s %d %s" % (splits_s(gen_splits(rng)), rng.choice([16, 17, 64, 4096]), " ".join(hx(c) for c in cs)))
    # every content length 0..130 once (digit-count boundaries 9/10, 99/100)
    for n in range(0, 131):
        ops.append("base %s 16 %s" % (rng.choice(["1", "3", "16", "4096"]), hx(bytes((13, 10)[i % 2] for i in range(n)))))
    # malformed / borderline streams
    for _ in range(4000 if quick else 40000):
        ops.append("rawbase %s %d %s" % (splits_s(gen_splits(rng)), rng.choice([16, 64, 4096]), hx(gen_raw(rng))))
    good = frame(b"abc") + frame(b"")
    for i in range(len(good) + 1):
        ops.append("rawbase 1 16 %s" % hx(good[:i]))
    # the 4 MiB boundary on the real code
    for n in ([MAXLEN - 1, MAXLEN, MAXLEN + 1] if quick else [MAXLEN - 1, MAXLEN, MAXLEN + 1, MAXLEN + 2, 2 * MAXLEN, 999999, 1000000]):
        ops.append("basebig %s %d" % (rng.choice(["4096", "65536", "1000,7"]), n))
    # dispatch
    names = sorted({t[1] for t in types if t[1] != "-"})
    kinds = ["request", "response", "event", "", "Request", "reponse", "events", "null"]
    for kind, name, gotype in types:
        if name == "-":
            continue
        for k in ["request", "response", "event"]:
            for s in "tf-":
                ops.append("kind %s %s %s %s" % (sx(k), sx(name), sx(name), s))
    for _ in range(600 if quick else 6000):
        nm = [rng.choice(names), rng.choice(names), rng.choice(names).capitalize(), rng.choice(names) + "x", "", "é"]
        ops.append("kind %s %s %s %s" % (sx(rng.choice(kinds)), sx(rng.choice(nm)), sx(rng.choice(nm)), rng.choice("tf-")))
    # field-level round trip: every registered type, then random mixes
    seeds = 6 if quick else 60
    for kind, name, gotype in types:
        for s in range(seeds):
            ops.append("msg %d %s %d %d %s" % (rng.randrange(1 << 40), splits_s(gen_splits(rng)), rng.choice([16, 64, 4096]),
                                               12 if quick else 25, gotype))
    for _ in range(300 if quick else 4000):
        ops.append("msg %d %s %d %d *" % (rng.randrange(1 << 40), splits_s(gen_splits(rng)), rng.choice([16, 64, 4096]), rng.randint(1, 40)))
    return ops


# ------------------------------------------------------------------ the real server glue (internal/dap)
SRV_OK = {"initialize", "launch", "disconnect", "setBreakpoints", "setExceptionBreakpoints", "configurationDone", "continue",
          "stackTrace", "scopes", "variables", "threads"}
# kinds the server answers with newErrorResponse(...) ("... is not yet supported")
SRV_ERR = ["attach", "terminate", "restart", "setFunctionBreakpoints", "next", "stepIn", "stepOut", "stepBack", "reverseContinue",
           "restartFrame", "goto", "pause", "setVariable", "setExpression", "source", "terminateThreads", "evaluate", "stepInTargets",
           "gotoTargets", "completions", "exceptionInfo", "loadedSources", "dataBreakpointInfo", "setDataBreakpoints", "readMemory",
           "disassemble", "cancel", "breakpointLocations"]
SRV_SEQS = ["initialize threads stackTrace",
            "initialize launch setBreakpoints:3 setExceptionBreakpoints scopes variables threads disconnect",
            "threads threads threads threads threads threads",
            "initialize:5000 threads launch",                       # one message larger than the server's 4096-byte bufio buffer
            "initialize setBreakpoints:2 configurationDone continue"]
SRV_MODES = ["all", "each", "2x", "1", "2", "3", "7", "64", "4096", "hdr", "body", "plus1", "plus7", "plus20", "plus40"]


def gen_srv_ops(ctx):
    """deterministic: request sequences delivered to handleConnection under every chunking"""
    ops = []
    for seq in SRV_SEQS:
        for mode in SRV_MODES:
            ops.append("srv %s 3000 %s" % (mode, seq))
    for i, k in enumerate(SRV_ERR):
        ops.append("srv %s 3000 threads %s scopes" % (["all", "each", "3", "plus7"][i % 4], k))
    return ops


def srv_oracle(ctx, op, r, dist, nontrivial):
    f = op.split()
    mode, specs = f[1], f[3:]
    names = [x.split(":")[0] for x in specs]
    if r.startswith("CRASH"):
        kv = parse_kv(r)
        if kv.get("why") == "nil-pointer-dereference" and kv.get("where") == "newErrorResponse":
            bad = [n for n in names if n in SRV_ERR]
            ctx.violation("srv:error-response-nil-pointer-dereference",
                          "request %r makes the DAP server process crash: newErrorResponse writes er.Body.Error.Format through the nil "
                          "pointer ErrorResponseBody.Error, so no ErrorResponse is ever sent (%s)" % (bad[:1], op), {"op": op, "impl": r})
        else:
            ctx.violation("srv:crash-%s-%s" % (kv.get("why"), kv.get("where")), "%s -> %s" % (op, r[:300]), {"op": op, "impl": r})
        return
    if not r.startswith("chunks="):
        ctx.violation("srv:%s" % r.split()[0].lower(), "%s -> %s" % (op, r[:300]), {"op": op, "impl": r})
        return
    kv = parse_kv(r)
    items = [] if kv["got"] == "none" else kv["got"].split(",")
    resp = {}
    for it in items:
        p = it.split(":")
        if p[0] == "R":
            resp.setdefault(int(p[1]), []).append((p[2], p[3]))
    coalesced = mode in ("all", "2x", "4096", "64") or mode.startswith("plus")
    missing = [(i + 1, n) for i, n in enumerate(names) if i + 1 not in resp]
    if missing:
        ctx.violation("srv:request-without-response" + ("-when-one-read-carries-several-messages" if coalesced else ""),
                      "requests %s delivered to handleConnection with chunking %r (%s writes): no response for %s within %s ms; got %s" % (
                          " ".join(specs), mode, kv["chunks"], missing, f[2], kv["got"][:300]), {"op": op, "impl": r})
    for i, n in enumerate(names):
        rs = resp.get(i + 1, [])
        if len(rs) > 1:
            ctx.violation("srv:duplicate-response", "%s: request seq %d answered %d times: %s" % (op, i + 1, len(rs), kv["got"][:300]), {"op": op, "impl": r})
        for cmd, ok in rs:
            if cmd != n or ok != ("true" if n in SRV_OK else "false"):
                ctx.violation("srv:response-does-not-match-request", "%s: request seq %d (%s) answered by %s success=%s" % (op, i + 1, n, cmd, ok),
                              {"op": op, "impl": r})
    extra = [k for k in resp if not 1 <= k <= len(names)]
    if extra:
        ctx.violation("srv:response-for-unknown-request", "%s -> %s" % (op, kv["got"][:300]), {"op": op, "impl": r})
    if kv["leftover"] != "0" or any(it.startswith(("READERR", "OTHER")) for it in items):
        ctx.violation("srv:incomplete-or-undecodable-frame-written", "%s -> %s" % (op, r[:300]), {"op": op, "impl": r})
    if not missing:
        for ev, req in (("E:initialized", "initialize"), ("E:thread", "configurationDone")):
            if items.count(ev) != names.count(req):
                ctx.violation("srv:event-count", "%s: %d %s events for %d %s requests" % (op, items.count(ev), ev, names.count(req), req),
                              {"op": op, "impl": r})
    dist["srv_requests"] = dist.get("srv_requests", 0) + len(names)
    nontrivial.add(("srv", mode, tuple(names)))


def regenerate(ctx, harness):
    rc, out, err = ctx.run_bin(harness, ["gen"])
    if rc != 0 or "def requestTable" not in out:
        raise vlib.InfraError("c26 gen failed: %s" % err[-2000:])
    path = os.path.join(vlib.LEAN, GEN_REL)
    with vlib.Lock("gen.c26"):
        if os.path.exists(path):
            os.remove(path)
        tmp = path + ".tmp.%d" % os.getpid()
        with open(tmp, "w") as f:
            f.write(out)
        os.replace(tmp, path)
    return out


def parse_kv(line):
    d = {}
    for tok in line.split():
        if "=" in tok:
            k, v = tok.split("=", 1)
            d[k] = v
    return d


def path_class(p):
    """root-cause class of a DIFF path: field path without indices + the kind of difference"""
    import re
    return re.sub(r"<([a-z-]+)[^>]*>", r"<\1>", p)[:120]


def run(ctx):
    harness = ctx.build_harness("c26")
    gen_text = regenerate(ctx, harness)
    ctx.prove(required=REQUIRED)
    model = ctx.build_model("c26")
    _, tout, _ = ctx.run_bin(harness, ["types"])
    types = [tuple(l.split()) for l in tout.splitlines() if l.strip()]

    if ctx.replay:
        r = json.load(open(ctx.replay))
        ops = [r["replay"]["op"]] if "op" in r.get("replay", {}) else []
    else:
        ops = load_corpus() + gen_ops(ctx, types)
    rc, out, err = ctx.run_bin(harness, input_text="\n".join(ops) + "\n", timeout=1500)
    impl = out.splitlines()
    # the server-glue stream: independent child processes, run 8 harnesses in parallel
    srv_ops = [] if ctx.replay and not (ops and ops[0].startswith("srv")) else (ops if ctx.replay else gen_srv_ops(ctx))
    if ctx.replay and srv_ops:
        ops, impl = [], []
    srv_out = {}
    if srv_ops:
        import concurrent.futures as cf
        parts = [srv_ops[i::8] for i in range(8)]
        with cf.ThreadPoolExecutor(8) as ex:
            futs = {ex.submit(ctx.run_bin, harness, (), "\n".join(p) + "\n", 1500): p for p in parts if p}
            for fu in cf.as_completed(futs):
                p = futs[fu]
                lines = fu.result()[1].splitlines()
                for o, l in zip(p, lines + ["<missing>"] * (len(p) - len(lines))):
                    srv_out[o] = l

    nontrivial = set()
    dist = {"base": 0, "rawbase": 0, "basebig": 0, "kind": 0, "msg": 0, "base_contents": 0, "messages": 0,
            "messages_exact": 0, "messages_canonicalised": 0, "message_bytes": 0}
    types_seen = {}
    raw_ends = {}

    # ---------------- oracle: the property itself on the real code's answers
    for op, r in zip(ops, impl):
        f = op.split()
        kind = f[0]
        dist[kind] = dist.get(kind, 0) + 1
        if r.startswith(("PANIC", "bad-op", "CONTENT-WITH-ERROR")) or (r.startswith("ERR") and kind != "msg"):
            ctx.violation("%s:%s" % (kind, r.split()[0].lower()), "%s -> %s" % (op[:300], r[:200]), {"op": op, "impl": r})
            continue
        kv = parse_kv(r)
        if kind == "base":
            cs = [bytes.fromhex(h) if h != "-" else b"" for h in f[3:]]
            got = [] if kv["out"] == "none" else [bytes.fromhex(h) if h != "-" else b"" for h in kv["out"].split(",")]
            dist["base_contents"] += len(cs)
            if got != cs or kv["end"] != "eof":
                key = "base:content-count-differs" if len(got) != len(cs) else "base:content-differs" if got != cs else "base:no-eof-after-last-message"
                ctx.violation(key, "contents %s read back as %s end=%s (splits %s buf %s)" % (
                    " ".join(f[3:])[:200], kv["out"][:200], kv["end"], f[1], f[2]), {"op": op, "impl": r})
            for c in cs:
                nontrivial.add(("base", len(str(len(c))), b"\r" in c, b"Content-Length" in c, f[1] == "1", f[2], min(len(c), 40)))
        elif kind == "basebig":
            n = int(f[2])
            want = "ok %d same" % n if n <= MAXLEN else "err toolong"
            if not r.endswith(want):
                ctx.violation("basebig:%s" % ("within-limit-not-read-back" if n <= MAXLEN else "over-limit-not-refused"),
                              "%s -> %s (expected %s)" % (op, r[-60:], want), {"op": op, "impl": r})
            nontrivial.add(("basebig", n))
        elif kind == "rawbase":
            raw_ends[kv.get("end", "?")] = raw_ends.get(kv.get("end", "?"), 0) + 1
            nontrivial.add(("rawbase", kv.get("end"), kv.get("out", "")[:12], f[1] == "1"))
        elif kind == "kind":
            nontrivial.add(("kind", r))
        elif kind == "msg":
            t = f[5]
            if r.startswith("ok"):
                dist["messages"] += int(kv["n"])
                dist["messages_exact"] += int(kv["exact"])
                dist["messages_canonicalised"] += int(kv["canon"])
                dist["message_bytes"] += int(kv["bytes"])
                types_seen[t] = types_seen.get(t, 0) + int(kv["n"])
                nontrivial.add(("msg", t, f[2] == "1", f[3], int(kv["canon"]) > 0))
            else:
                ty = kv.get("type", t)
                if r.startswith("DIFF"):
                    key = "msg:%s:%s" % (ty, path_class(kv.get("path", r[5:])))
                else:
                    # framing / decoding failure: the root cause is not the message type
                    key = "msg:%s:%s" % ("-".join(r.split()[:2]).lower(), kv.get("err", "")[:60])
                ctx.violation(key, "%s -> %s" % (op, r[:300]), {"op": op, "impl": r})

    dist["srv"] = len(srv_ops)
    for o in srv_ops:
        srv_oracle(ctx, o, srv_out.get(o, "<missing>"), dist, nontrivial)

    missing = [t[2] for t in types if t[2] not in types_seen]
    if missing and not ctx.replay and not ctx.violations:
        raise vlib.InfraError("registered types never exercised: %s" % missing[:10])

    # ---------------- correspondence with the Lean model (framing + dispatch)
    mops = [(o, r) for o, r in zip(ops, impl) if o.split()[0] in ("base", "rawbase", "basebig", "kind")]
    if model and mops:
        rcm, mout, merr = ctx.run_bin(model, input_text="\n".join(o for o, _ in mops) + "\n", timeout=1500)
        diffs = ctx.diff_lines([o for o, _ in mops], [r for _, r in mops], mout.splitlines())
        for i, op, a, b in diffs[:20]:
            ctx.proof["broken"].append({"theorem": "correspondence C26 model vs io.go/codec.go",
                                        "why": "op %r: impl=%r model=%r" % (op[:300], a[:300], b[:300])})

    # ---------------- observations at the excluded points (never violations)
    obs_ops = ["obs pathformat-default", "obs invalid-utf8", "obs int-in-interface", "obs failed-typed-response",
               "obs command-mismatch", "obs raw-with-space"]
    _, oout, _ = ctx.run_bin(harness, input_text="\n".join(obs_ops) + "\n")
    obs = dict(zip(obs_ops, [l[:200] for l in oout.splitlines()]))

    pairs = list(zip(ops, impl))
    samples = [{"op": o[:160], "impl": r[:160]} for o, r in pairs[:: max(1, len(pairs) // 12)]][:12]
    cov = {
        "evaluations": len(ops) + dist["messages"] + dist.get("srv_requests", 0),
        "distinct_nontrivial": len(nontrivial),
        "rule": "srv (deterministic, both tiers): 5 request sequences (incl. a message larger than the 4096-byte bufio buffer and the "
                "setBreakpoints/configurationDone/continue flow) delivered to the REAL server loop internal/dap.handleConnection over net.Pipe "
                "under 15 chunkings (all requests in one write, one per write, two per write, every 1/2/3/7/64/4096 bytes, split inside every "
                "header, inside every body, a whole message plus 1/7/20/40 bytes of the next), + the 28 request kinds answered with an "
                "ErrorResponse; oracle: exactly one response per request with its request_seq, command and success flag, expected events, every "
                "byte written by the server belongs to a complete decodable frame, no crash. base: 1-8 contents (pieces CR/LF/CRLFCRLF/'Content-Length: '/JSON, random bytes biased to CR LF digits, lengths at "
                "digit-count boundaries, every length 0..130) through the real WriteBaseMessage then ReadBaseMessage over bufio(16/17/64/4096) "
                "over a chunking io.Reader (incl. 1-byte reads); rawbase: truncations at every position, bit flips, bad numbers (sign, space, "
                "hex, non-ASCII digits, leading zeros, 2^63 boundary, over 4 MiB), bad header names, bad delimiters, short/long content, junk; "
                "basebig: 4 MiB-1, 4 MiB, 4 MiB+1; kind: every registered name x {request,response,event} x success {t,f,absent} + unknown "
                "names/kinds; msg: reflection-generated values of every registered type (%d types incl. ErrorResponse), %d messages; "
                "distinct_nontrivial counts distinct feature tuples (kind, digits of length, has CR, has header text, split class, buffer, "
                "length / outcome class / type, chunking, canonicalisation needed)." % (len(types), dist["messages"]),
        "samples": samples,
        "distribution": dist,
        "rawbase_outcomes": raw_ends,
        "registered_types": len(types),
        "registered_types_exercised": len(types_seen),
        "min_messages_per_type": min(types_seen.values()) if types_seen else 0,
        "regenerated": {"file": "lean/" + GEN_REL, "sha1": hashlib.sha1(gen_text.encode()).hexdigest()},
        "observations_at_excluded_points": obs,
    }
    return ctx.finish("proof", cov,
                      assumptions=["transport: every Read returns >= 1 byte until EOF; bufio.Reader modelled as a buffer of `cap` bytes refilled by one Read when empty (the theorem holds for every cap >= 1)",
                                   "JSON marshalling/unmarshalling is Go's encoding/json (trusted; explored, not modelled)",
                                   "messages carry the type/command/event strings of their own Go type; strings valid UTF-8; interface{} values JSON-native"],
                      trusted_base=["hand-written Lean transcription of WriteBaseMessage/ReadBaseMessage/readContentLengthHeader/DecodeMessage dispatch (Model/C26.lean) tied by the correspondence run (harness/c26)",
                                    "regenerated constants/tables via harness `c26 gen` (hook harness/hooks/internal__3rdparty__go-dap/c26_export.go)",
                                    "reflection generator + canonicaliser + reflect.DeepEqual in harness/c26/main.go (oracle for the field-level round trip)",
                                    "Go encoding/json"])
