"""C19 — LEB128 encoding round-trips and decoding enforces the spec limits."""
from lib.vlib import boundary_ints
import concurrent.futures as cf

PROP = "C19"
META = {
    "category": "proof",
    "text": "Lean theorems over a model of the LEB128 encoders/decoders: round trip with byte count for u32/s32/s33/s64 for every value, "
            "length characterisation (minimality), exact value of every encoding, and soundness of each decoder (accepted => terminated, "
            "within the length limit, returned value is the exact value of the consumed bytes and in the type's range) and completeness (every such sequence is accepted). The model is hand-written and tied to "
            "internal/wasm/leb128 by a correspondence run (exhaustive on short byte strings) plus the property's own oracle run on the real code.",
    "note": "Trusted: Lean kernel; the hand-written model's tie to the Go code is the correspondence run (differential, not a proof); "
            "bitwise OR of disjoint ranges is modelled as addition; python reference decoder used as oracle.",
    "technique": "Lean 4 proof over hand-written model + differential correspondence + exhaustive 32-bit sweep of the real code",
}
REQUIRED = ["decodeU32_encU", "decodeS32_encS", "decodeS33_encS", "decodeS64_encS",
            "encU_length_le_iff", "valU_encU", "terminated_encU", "bytes_encU", "valU_lt",
            "encS_length_le_iff", "valS_encS", "terminated_encS", "bytes_encS", "valS_range",
            "decodeU32_sound", "decodeS32_sound", "decodeS33_sound", "decodeS64_sound",
            "decodeU32_complete", "decodeS32_complete", "decodeS33_complete", "decodeS64_complete"]

DECS = {"decu32": (32, False, 5), "decs32": (32, True, 5), "decs33": (33, True, 5), "decs64": (64, True, 10)}


def spec_decode(bs, bits, signed, maxlen):
    """Independent specification (WebAssembly binary format): accept iff the sequence up to
    the first byte without continuation bit has at most maxlen bytes and its exact value fits."""
    k = next((i for i, b in enumerate(bs) if b < 128), None)
    if k is None:
        return None                       # unterminated: must not be accepted
    n = k + 1
    if n > maxlen:
        return None
    v = 0
    for i in range(n):
        v |= (bs[i] & 0x7f) << (7 * i)
    if signed and bs[k] & 0x40:
        v -= 1 << (7 * n)
    lo, hi = (-(1 << (bits - 1)), (1 << (bits - 1)) - 1) if signed else (0, (1 << bits) - 1)
    if not (lo <= v <= hi):
        return None
    return (v, n)


def tohex(bs):
    return "".join("%02x" % b for b in bs) or "-"


def gen_ops(ctx):
    rng = ctx.rng
    ops = []
    us = set(boundary_ints(64, False)); ss = set(boundary_ints(64, True))
    nrand = 2000 if ctx.tier == "quick" else 50000
    for _ in range(nrand):
        w = rng.choice([7, 14, 21, 28, 31, 32, 33, 35, 42, 49, 56, 63, 64])
        us.add(rng.getrandbits(w))
        v = rng.getrandbits(w)
        ss.add(v - (1 << (w - 1)) if w > 1 else v)
    ss = {v for v in ss if -(1 << 63) <= v < (1 << 63)}
    for v in sorted(us):
        ops.append("encu %d" % v)
    for v in sorted(ss):
        ops.append("encs %d" % v)
    # decoders: exhaustive short sequences
    maxexh = 2
    seqs = [[]]
    for a in range(256):
        seqs.append([a])
    for a in range(256):
        for b in range(256):
            seqs.append([a, b])
    if ctx.tier == "thorough":
        for a in (0x80, 0xff, 0xc0, 0x81, 0xbf):
            for b in range(256):
                for c in range(256):
                    seqs.append([a, b, c])
    # structured: k continuation bytes then every terminal byte (the overflow checks live on
    # the 5th / 10th byte), plus over-long and unterminated sequences
    for k in range(0, 12):
        for rep in range(6 if ctx.tier == "quick" else 40):
            pre = [rng.choice([0x80, 0xff, 0x80 | rng.getrandbits(7)]) for _ in range(k)]
            if rep == 0:
                pre = [0x80] * k
            if rep == 1:
                pre = [0xff] * k
            for last in (range(256) if k in (4, 9) or rep < 2 else [rng.getrandbits(8) for _ in range(16)]):
                seqs.append(pre + [last])
    for s in seqs:
        h = tohex(s)
        for d in DECS:
            ops.append("%s %s" % (d, h))
    return ops


def replay(ctx, harness):
    import json
    r = json.load(open(ctx.replay))["replay"]
    op = r["op"]
    _, out, _ = ctx.run_bin(harness, input_text=op + "\n")
    model = ctx.build_model("c19")
    mo = ctx.run_bin(model, input_text=op + "\n")[1] if model else "?"
    print("replay op: %s\n  impl now : %s\n  model    : %s\n  recorded : %s" % (op, out.strip(), mo.strip(), r.get("impl")))
    f = op.split()
    if f[0] in DECS:
        bs = list(bytes.fromhex(f[1])) if f[1] != "-" else []
        print("  spec     : %s" % (spec_decode(bs, *DECS[f[0]]),))
    return 0


def run(ctx):
    harness = ctx.build_harness("c19")
    if ctx.replay:
        return replay(ctx, harness)
    ctx.prove(required=REQUIRED)
    model = ctx.build_model("c19")
    ops = gen_ops(ctx)
    text = "\n".join(ops) + "\n"
    rc, out, err = ctx.run_bin(harness, input_text=text)
    impl = out.splitlines()
    # second round: feed every encoding produced by the real encoders to the real decoders
    ops2 = []
    for op, r in zip(ops, impl):
        if op.startswith("enc") and not r.startswith(("PANIC", "MISMATCH", "bad")):
            for d in DECS:
                ops2.append("%s %s" % (d, r))
            ops2.append("%s %s00" % ("decs64", r))      # with trailing bytes: count must not change
    rc2, out2, _ = ctx.run_bin(harness, input_text="\n".join(ops2) + "\n")
    impl2 = out2.splitlines()
    allops, allimpl = ops + ops2, impl + impl2
    samples = []
    nontrivial = set()
    dist = {"enc": 0, "dec_ok": 0, "dec_eof": 0, "dec_overflow": 0}

    # --- oracle: the property itself, evaluated on the real code's answers
    enc_of = {}
    for op, r in zip(allops, allimpl):
        f = op.split()
        if r.startswith(("PANIC", "MISMATCH")):
            ctx.violation("impl-%s:%s" % (f[0], r.split()[0]), "%s -> %s" % (op, r), {"op": op, "impl": r})
            continue
        if f[0] in ("encu", "encs"):
            dist["enc"] += 1
            v = int(f[1]); bs = list(bytes.fromhex(r)) if r != "-" else []
            signed = f[0] == "encs"
            sp = spec_decode(bs, 64, signed, 10)
            ml = 1
            if signed:
                while not (-(1 << (7 * ml - 1)) <= v < (1 << (7 * ml - 1))):
                    ml += 1
            else:
                while v >= (1 << (7 * ml)):
                    ml += 1
            if sp != (v, len(bs)):
                ctx.violation("%s:wrong-bytes" % f[0], "%s -> %s does not denote the value" % (op, r), {"op": op, "impl": r})
            elif len(bs) != ml:
                ctx.violation("%s:not-minimal" % f[0], "%s -> %s is not the minimal encoding (%d bytes)" % (op, r, ml), {"op": op, "impl": r})
            enc_of[(f[0], r)] = v
            nontrivial.add((f[0], len(bs), v < 0))
        else:
            bits, signed, maxlen = DECS[f[0]]
            bs = list(bytes.fromhex(f[1])) if f[1] != "-" else []
            sp = spec_decode(bs, bits, signed, maxlen)
            if r.startswith("ok"):
                dist["dec_ok"] += 1
                got = (int(r.split()[1]), int(r.split()[2]))
                if sp is None:
                    k = next((i for i, b in enumerate(bs) if b < 128), None)
                    why = "unterminated" if (k is None or k + 1 > maxlen) else "out-of-range"
                    ctx.violation("%s:accepts-%s" % (f[0], why),
                                  "%s accepts %s as %s; the WebAssembly format requires rejection (%s)" % (f[0], f[1], r, why),
                                  {"op": op, "impl": r, "spec": "reject"})
                elif sp != got:
                    ctx.violation("%s:wrong-value" % f[0], "%s %s -> %s, exact value/count is %s" % (f[0], f[1], r, sp),
                                  {"op": op, "impl": r, "spec": sp})
            else:
                dist["dec_" + r.split()[1]] = dist.get("dec_" + r.split()[1], 0) + 1
                if sp is not None:
                    ctx.violation("%s:rejects-valid" % f[0], "%s rejects %s (%s) but it is a valid encoding of %s" % (f[0], f[1], r, sp),
                                  {"op": op, "impl": r, "spec": sp})
            nontrivial.add((f[0], min(len(bs), 11), r.split()[0] + (r.split()[1] if r.startswith("err") else "")))

    # --- results are the caller's: a later call must not return storage an earlier result still owns
    aops = []
    for kind in ("u32", "u64", "s32", "s64"):
        for v in [0, 1, -1, 5, 62, 63, 64, -63, -64, -65, 126, 127, 128, 255, 8191, 8192, 16383, 16384, 1 << 31, -(1 << 31)] + \
                 [ctx.rng.randrange(-(1 << 40), 1 << 40) for _ in range(40)]:
            aops.append("alias %s %d" % (kind, v))
    _, aout, _ = ctx.run_bin(harness, input_text="\n".join(aops) + "\n")
    for op, r in zip(aops, aout.splitlines() + ["(no answer)"] * len(aops)):
        if r != "ok":
            ctx.violation("enc:result-shares-storage-with-later-results", "%s -> %s" % (op, r), {"op": op, "impl": r})
    dist["alias_histories"] = len(aops)

    # --- correspondence with the Lean model
    if model:
        rcm, mout, _ = ctx.run_bin(model, input_text="\n".join(allops) + "\n")
        diffs = ctx.diff_lines(allops, allimpl, mout.splitlines())
        for i, op, a, b in diffs[:20]:
            # the model disagrees with the code: which one violates the property was decided by
            # the oracle above; a pure model/code difference is a broken correspondence
            ctx.proof["broken"].append({"theorem": "correspondence C19 model vs leb128.go", "why": "op %r: impl=%r model=%r" % (op, a, b)})
    # --- sweep of the real code (oracle only)
    total = 1 << 32
    if ctx.tier == "quick":
        starts = [0, (1 << 31) - (1 << 19), (1 << 32) - (1 << 20)] + [ctx.rng.randrange(0, total - (1 << 20)) for _ in range(13)]
        jobs = [(s, 1 << 20) for s in starts]
    else:
        jobs = [(s, 1 << 26) for s in range(0, total, 1 << 26)]
    swept = 0
    with cf.ThreadPoolExecutor(16) as ex:
        futs = {ex.submit(ctx.run_bin, harness, (), "sweep32 %d %d\n" % j, 3000): j for j in jobs}
        for fu in cf.as_completed(futs):
            j = futs[fu]
            _, o, _ = fu.result()
            swept += j[1]
            if o.strip() != "ok":
                ctx.violation("sweep32:" + " ".join(o.split()[1:2]), "sweep over [%d,+%d): %s" % (j[0], j[1], o.strip()), {"op": "sweep32 %d %d" % j, "impl": o.strip()})
    samples = [{"op": o, "impl": r} for o, r in list(zip(allops, allimpl))[:: max(1, len(allops) // 12)]][:12]
    cov = {
        "evaluations": len(allops) + swept,
        "distinct_nontrivial": len(nontrivial),
        "rule": "ops = boundary/random 64-bit values through the encoders; every byte sequence of length <=2 (thorough: selected length 3), "
                "k continuation bytes + every terminal byte for k=4,9, through the 4 decoders; encoder output fed back to decoders; "
                "distinct_nontrivial counts distinct (operation, length class, outcome class) triples; plus a sweep of the real code's round trip "
                "over %d 32-bit values (thorough: all 2^32)" % swept,
        "samples": samples,
        "distribution": dist,
        "swept_32bit_values": swept,
        "exhaustive": ctx.tier == "thorough",
    }
    return ctx.finish("proof", cov,
                      assumptions=["model bytes are naturals < 256; OR of disjoint bit ranges is modelled as addition (checked by correspondence)",
                                   "EOF vs overflow error kinds are compared model-vs-code only; the property needs rejection"],
                      trusted_base=["hand-written Lean model WaVerif/Model/C19.lean tied by the correspondence run (harness/c19)",
                                    "python reference spec_decode in checks/c19.py (oracle)"])
