"""C31 — The embedded runtime executes Wa output like an independent engine."""
import collections, concurrent.futures as cf, glob, hashlib, json, os, subprocess, sys

from lib import vlib
from gen import instmod

PROP = "C31"
META = {
    "category": "translation_validation",
    "text": "Three-way translation validation. (1) One exported function per numeric / conversion / memory / parametric / control instruction "
            "the Wa assembler can encode (gen/instmod.py, assembled by watutil.Wat2Wasm from /repo's working tree) is executed on an operand "
            "grid (boundary x boundary, NaN payloads, trunc limits, unaligned and out-of-range addresses, 32-bit offsets, seeded random) on the "
            "embedded engine exactly as wa configures it (internal/wazero.BuildModule + RunFunc), on the vendored engine's interpreter and "
            "compiler selected explicitly, on V8 (node) and - integer, select and memory rows - on the Lean reference semantics; results are "
            "compared as bit patterns, traps by kind, memory by size + hash after every memory instruction. (2) Whole modules compiled by the "
            "real compiler (api.BuildFile) from /repo's example and test programs and a fixed corpus are run with the same host imports on the "
            "embedded engine and on V8; printed output and exit / trap outcome are compared. The Lean theorems make the reference trustworthy "
            "(they are about the reference, not about wazero); the property itself is decided per executed artefact.",
    "note": "Theorems in Props/C31.lean are spec-sanity lemmas about the REFERENCE semantics (Base/WasmNum.lean + Model/C31.lean), not about the "
            "engine: rotations invert, div_s truncates and traps exactly on 0 and (min,-1), rem_s sign, shift counts modulo width, clz/ctz zero "
            "characterisation, wrap/extend round trips, typed straight-line code never gets stuck, store-then-load per width, bounds trap exactly "
            "when addr+offset+width > size, fill/copy/grow characterisation. Trusted: Lean kernel; V8 as the independent engine for floats and "
            "control instructions (no Lean float model); the python NaN rule (spec 4.3.3: a NaN result of an arithmetic float instruction may have "
            "any sign, and any arithmetic payload unless all NaN inputs are canonical - such results are compared as a class, everything else bit "
            "for bit); trap causes are compared at the granularity both engines can express (trunc: NaN and range are one class in V8; "
            "call_indirect: null and signature mismatch are one class in V8) and wazero's finer causes against the spec-derived expectation; "
            "the node mirror of internal/wazero/js.go's host functions (Go float formatting re-implemented). Not verified: wazero's internals; "
            "SIMD, reference types beyond funcref tables, threads (the assembler cannot emit them); `select (result t)`, extendN_s and trunc_sat "
            "(the Wa assembler rejects / cannot encode them, so no Wa-produced module contains them); i32 results are compared as their low 32 bits "
            "(the compiler engine leaves garbage in the upper half of the host-side uint64; counted in the evidence as dirty_i32_results).",
    "technique": "differential execution wazero(embedded, interpreter, compiler) vs V8 vs Lean 4 reference semantics + Lean proofs about the reference",
}
REQUIRED = ["rotr_rotl32", "rotr_rotl64", "div_s_trunc", "div_s_trap_iff", "rem_s_trap_iff", "rem_s_sign", "rem_s_min_neg_one",
            "shl_count_mod32", "shl_count_mod64", "clz_eq_width_iff32", "clz_eq_width_iff64", "ctz_eq_width_iff",
            "wrap_extend_s", "wrap_extend_u", "extend_u_wrap",
            "stepNum_eq_base", "exec_deterministic", "exec_append", "step_progress", "exec_total",
            "load_trap_iff", "store_trap_iff", "load_after_store", "load_after_store_i32", "load_after_store_i64", "load_after_store_full",
            "store_frame", "writeLE_byte", "fill_trap_iff", "fill_spec", "copy_trap_iff", "copy_spec", "grow_ok", "grow_fail"]

HERE = os.path.dirname(os.path.abspath(__file__))
NODE_JS = os.path.join(vlib.VERIF, "harness", "c31", "node_engine.js")
ENGINES = ["emb", "interpreter", "compiler"]


# ----------------------------------------------------------------------------- spec-side helpers (python oracle)
def ftype_of(name):
    """float type an instruction computes in (for the NaN rule), or None"""
    ins = name.split(";")[-1]
    if ins.startswith("f32.") or ins == "f32.demote_f64":
        return "f32"
    if ins.startswith("f64.") or ins == "f64.promote_f32":
        return "f64"
    return None


def nan_nondet(f):
    ins = f.instr
    if f.cls in ("fbin", "fun") and ins.split(".")[1] in instmod.NAN_NONDET:
        return True
    return ins in ("f32.demote_f64", "f64.promote_f32")


def norm(f, out, args, notes):
    """normalise one engine answer: strip markers, coarsen trap causes to what every engine can express,
    replace a spec-nondeterministic NaN result by its class (after checking it is a legal member)."""
    if out.endswith(" !dirty"):
        out = out[:-7]
        notes["dirty"] += 1
    out = out.replace(" !dirty", "")
    p = out.split()
    if not p:
        return out
    if p[0] == "trap":
        pend = f is not None and f.cls.startswith(("pend", "mpend"))
        if f is not None and (f.cls == "ftrunc" or (pend and ".trunc_" in f.instr)) and p[1] in ("ovf", "nanconv", "floatconv"):
            p[1] = "floatconv"
        if f is not None and (f.cls == "callind" or (pend and "call_indirect" in f.instr)) and p[1] in ("tableaccess", "sigmismatch", "nullorsig"):
            p[1] = "indirect"
        return " ".join(p)
    if p[0] == "ok" and f is not None and f.cls.startswith(("pend", "mpend")) and f.instr.endswith("@A") and len(p) >= 3:
        # shape A returns (comparison result, K result): the NaN rule applies to K's result
        ins = f.instr[:-2]
        t, _, op = ins.partition(".")
        if (t in ("f32", "f64") and op in instmod.NAN_NONDET) or ins in ("f32.demote_f64", "f64.promote_f32"):
            r = int(p[2], 16)
            if instmod.is_nan(t, r):
                p[2] = "nan" if instmod.is_arith_nan(t, r) else "ILLEGAL-NAN(%s:not-arithmetic)" % p[2]
                return " ".join(p)
    if p[0] == "ok" and f is not None and len(p) >= 2 and nan_nondet(f):
        rt = ftype_of(f.instr)
        r = int(p[1], 16)
        if instmod.is_nan(rt, r):
            it = "f64" if f.instr == "f32.demote_f64" else "f32" if f.instr == "f64.promote_f32" else rt
            nan_in = [a for a in args if instmod.is_nan(it, a)]
            all_canon = all(instmod.is_canon_nan(it, a) for a in nan_in)
            if not instmod.is_arith_nan(rt, r):
                p[1] = "ILLEGAL-NAN(%s:not-arithmetic)" % p[1]
            elif all_canon and not instmod.is_canon_nan(rt, r):
                p[1] = "ILLEGAL-NAN(%s:non-canonical-from-canonical-inputs)" % p[1]
            else:
                p[1] = "nan"
            return " ".join(p)
    return out


def s32(v):
    return v - (1 << 32) if v & 0x80000000 else v


def oracle(f, name, args):
    """spec-derived expectation for the rows that have no Lean model and a trivial specification; None = no oracle"""
    if f.cls == "brtable":
        i = args[0]
        return "ok %x" % (instmod.BRT_TARGETS[i] if i < 4 else instmod.BRT_DEFAULT)
    if f.cls == "callind":
        i, x = args
        if i == 1:
            return "ok %x" % ((x + 1) & 0xffffffff)
        if i == 2:
            return "ok %x" % ((x << 1) & 0xffffffff)
        return "trap indirect"
    if f.cls == "select" and name.startswith("select."):
        return "ok %x" % (args[0] if args[2] != 0 else args[1])
    if f.cls == "unreachable":
        return "trap unreachable"
    if f.cls == "rec":
        return "ok %x" % ((7 + args[0]) & 0xffffffff) if args[0] < 100000 else "trap stack"
    if f.cls == "reint":
        return "ok %x" % args[0]
    return None


def wazero_cause_expected(f, args):
    """the finer trap cause wazero should name (its own vocabulary), where the spec determines the situation"""
    if f.cls == "callind":
        return "sigmismatch" if args[0] == 3 else "tableaccess"
    if f.cls == "ftrunc":
        ft = "f32" if f.sig[0] == "i" else "f64"
        return "nanconv" if instmod.is_nan(ft, args[0]) else "ovf"
    return None


def opclass(f, name, args):
    """operand class of a case, for root-cause keys and the distribution"""
    c = f.cls
    if c in ("ibin", "irel", "iun", "ieqz", "icvt"):
        b = 32 if f.sig[0] == "i" else 64
        m = (1 << b) - 1
        if c == "ibin" and len(args) == 2:
            x, y = args
            k = f.instr.split(".")[1]
            if k in ("div_s", "div_u", "rem_s", "rem_u"):
                if y == 0:
                    return "divisor=0"
                if x == 1 << (b - 1) and y == m:
                    return "min,-1"
            if k in ("shl", "shr_s", "shr_u", "rotl", "rotr") and y >= b:
                return "count>=width"
        if any(a in (0, m, 1 << (b - 1), (1 << (b - 1)) - 1) for a in args):
            return "boundary"
        return "general"
    if c in ("fbin", "frel", "fun", "ftrunc", "fcvt") or (c == "reint" and "reinterpret_f" in name):
        ft = "f32" if f.sig[0] == "i" else "f64"
        eb, mb = (8, 23) if ft == "f32" else (11, 52)
        cl = set()
        for a in args:
            e = (a >> mb) & ((1 << eb) - 1)
            mant = a & ((1 << mb) - 1)
            if e == (1 << eb) - 1:
                cl.add("nan" if mant else "inf")
            elif e == 0:
                cl.add("subnormal" if mant else "zero")
        for k in ("nan", "inf", "subnormal", "zero"):
            if k in cl:
                return k
        return "normal"
    if c in ("load", "store"):
        ea = args[0] + f.off
        n = instmod.WIDTH.get(f.instr, 4)
        if ea >= 1 << 32:
            return "ea>=2^32"
        return "oob" if ea + n > instmod.PAGE else ("edge" if ea + n == instmod.PAGE else "inbounds")
    if c == "mfill" or (c == "mcombo" and f.instr == "memory.fill"):
        d, v, n = [a & 0xffffffff for a in args]
        if d + n > instmod.PAGE:
            return "oob"
        return ("value>255" if v > 255 else "value<=255") + (",len>=16" if n >= 16 else ",len<16")
    if c == "mcopy":
        d, s, n = args
        if d + n > instmod.PAGE or s + n > instmod.PAGE:
            return "oob"
        return "overlap" if n and abs(d - s) < n else "disjoint"
    if c.startswith(("pend", "mpend")):
        return "comparison-pending" if f.instr.endswith("@A") else "comparison-is-top-operand"
    return "general"


def grow_class(ds):
    pages = instmod.MEM_MIN
    for d in ds:
        if pages + d >= 1 << 32:
            return "pages+delta>=2^32"
        if pages + d <= instmod.MEM_MAX:
            pages += d
    return "within-u32"


# ----------------------------------------------------------------------------- runners
def run_engine(ctx, h, engine, wasm, grow, text):
    p = subprocess.run([h, "exec", engine, wasm, grow], input=text, stdout=subprocess.PIPE, stderr=subprocess.PIPE, text=True, timeout=3000)
    if p.returncode != 0:
        raise vlib.InfraError("harness exec %s failed rc=%d: %s" % (engine, p.returncode, p.stderr[-2000:]))
    return p.stdout.splitlines()


def run_node(ctx, wasm, grow, text):
    p = subprocess.run(["node", NODE_JS, "exec", wasm, grow], input=text, stdout=subprocess.PIPE, stderr=subprocess.PIPE, text=True, timeout=3000)
    if p.returncode != 0:
        raise vlib.InfraError("node engine failed rc=%d: %s" % (p.returncode, p.stderr[-2000:]))
    return p.stdout.splitlines()


def lean_lines(funcs, ops):
    """(indices, lines) of the ops the Lean reference can execute"""
    idx, lines = [], []
    for i, op in enumerate(ops):
        p = op.split()
        if p[0] == "g":
            idx.append(i)
            lines.append(op)
            continue
        f = funcs[p[1]]
        if not f.lean:
            continue
        idx.append(i)
        lines.append("%s %s %s %s" % ("x" if p[0] == "c" else "xm", p[2], instmod.lean_prog(f), " ".join(p[3:])))
    return idx, lines


def grid(ctx, h, model, ev):
    """deliverable 1: per-instruction modules on the operand grid, 4 or 5 engines"""
    wat, funcs = instmod.build()
    watf, wasm = os.path.join(ctx.tmp, "instmod.wat"), os.path.join(ctx.tmp, "instmod.wasm")
    gwatf, gwasm = os.path.join(ctx.tmp, "growmod.wat"), os.path.join(ctx.tmp, "growmod.wasm")
    open(watf, "w").write(wat)
    open(gwatf, "w").write(instmod.build_grow())
    for a, b in ((watf, wasm), (gwatf, gwasm)):
        rc, out, err = ctx.run_bin(h, ["asm", a, b])
        if rc != 0:
            raise vlib.InfraError("the repo's assembler rejects the per-instruction module %s: %s" % (a, err[-1500:]))
    ops = []
    if ctx.replay:
        rp = json.load(open(ctx.replay)).get("replay", {})
        ops = [rp["op"]] if rp.get("kind") == "grid" else []
        ncorpus = 0
    else:
        cdir = os.path.join(vlib.VERIF, "corpus", PROP)
        for fn in sorted(glob.glob(os.path.join(cdir, "*.ops"))):          # minimised past failures first
            ops += [l for l in open(fn).read().splitlines() if l and not l.startswith("#")]
        ncorpus = len(ops)
        ops += instmod.ops(funcs, ctx.rng, ctx.tier)
    if not ops:
        ev.update({"grid_ops": 0, "grid_distribution": {}})
        return 0, set(), []
    text = "\n".join(ops) + "\n"
    lidx, llines = lean_lines(funcs, ops)
    outs = {}
    with cf.ThreadPoolExecutor(6) as ex:
        fut = {e: ex.submit(run_engine, ctx, h, e, wasm, gwasm, text) for e in ENGINES}
        fut["node"] = ex.submit(run_node, ctx, wasm, gwasm, text)
        if model:
            fut["lean"] = ex.submit(ctx.run_bin, model, (), "\n".join(llines) + "\n", 3000)
        import time
        tt = time.time()
        for k, fu in fut.items():
            outs[k] = fu.result()
            ev.setdefault("grid_engine_done_s", {})[k] = round(time.time() - tt, 1)
    lean = {}
    if model:
        lo = outs.pop("lean")[1].splitlines()
        if len(lo) != len(llines):
            ctx.proof["broken"].append({"theorem": "correspondence C31 reference driver", "why": "wamodel_c31 answered %d of %d lines" % (len(lo), len(llines))})
        lean = dict(zip(lidx, lo))
    if ctx.replay:
        for k in outs:
            print("REPLAY %-12s %s -> %s" % (k, ops[0], outs[k][0] if outs[k] else "<no answer>"))
        print("REPLAY %-12s %s -> %s" % ("lean", llines[0] if llines else "-", lean.get(0, "<not modelled>")))
    for k, v in outs.items():
        if len(v) != len(ops):
            raise vlib.InfraError("engine %s answered %d of %d lines" % (k, len(v), len(ops)))

    notes = collections.Counter()
    dist = collections.Counter()
    nontrivial = set()
    samples = []
    ref_bad = 0
    for i, op in enumerate(ops):
        p = op.split()
        if p[0] == "g":
            f, name, args = None, "memory.grow", [int(x, 16) for x in p[1:]]
            cls, oc = "mgrow", grow_class(args)
        else:
            name = p[1]
            f = funcs[name]
            args = [int(x, 16) for x in p[3:]]
            cls, oc = f.cls, opclass(f, name, args)
        raw = {k: outs[k][i] for k in outs}
        n = {k: norm(f, raw[k], args, notes if k == "emb" else collections.Counter()) for k in raw}
        ref = n["node"]
        ln = lean.get(i)
        orc = oracle(f, name, args) if f is not None else None
        dist[cls] += 1
        outcome = "trap" if " trap" in (" " + ref) else "ok"
        nontrivial.add((name, oc, outcome))
        if i % max(1, len(ops) // 14) == 0 and len(samples) < 14:
            samples.append({"op": op, "embedded": raw["emb"], "node": raw["node"], "lean": ln})
        # the reference side must be coherent before it can judge anybody
        spec = ref
        if ln is not None and ln != ref:
            # node and the Lean reference disagree: the spec is the arbiter; whoever wazero agrees with, this is a reference problem
            ref_bad += 1
            if ref_bad <= 10:
                ctx.proof["broken"].append({"theorem": "correspondence C31 reference: V8 vs Lean semantics",
                                            "why": "op %r: node=%r lean=%r wazero(emb)=%r" % (op, ref, ln, n["emb"])})
            continue
        if orc is not None and orc != ref:
            ref_bad += 1
            if ref_bad <= 10:
                ctx.proof["broken"].append({"theorem": "correspondence C31 reference: V8 vs python oracle",
                                            "why": "op %r: node=%r oracle=%r" % (op, ref, orc)})
            continue
        if "ILLEGAL-NAN" in ref:
            ref_bad += 1
            ctx.proof["broken"].append({"theorem": "correspondence C31 reference: V8 NaN outside the spec's set", "why": "op %r: %r" % (op, raw["node"])})
            continue
        bad = [e for e in ENGINES if n[e] != spec]
        if bad:
            eng = "all-engines" if len(bad) == 3 else "compiler" if set(bad) == {"emb", "compiler"} else "+".join(bad)
            kname = f.instr if (f is not None and f.cls == "mcombo" and f.instr == "memory.fill") else name.split("@")[0]
            if f is not None and f.cls.startswith(("pend", "mpend")):
                kname = "cmp;" + f.instr[:-2]          # root cause = the instruction kind K, whatever the comparison
            key = "%s:%s:%s" % (kname, oc, eng)
            backing = "V8" + (" and the Lean reference" if ln is not None else "") + (" and the spec oracle" if orc is not None else "")
            ctx.violation(key, "%s on [%s]: embedded runtime (%s) gives %r, %s give %r" % (
                name, " ".join(p[3:] if p[0] != "g" else p[1:]), eng, n[bad[0]], backing, spec),
                {"kind": "grid", "op": op, "wazero": {e: raw[e] for e in ENGINES}, "node": raw["node"], "lean": ln, "oracle": orc})
            continue
        # wazero's finer trap vocabulary against the spec-determined situation
        if f is not None and raw["emb"].startswith("trap"):
            exp = wazero_cause_expected(f, args)
            for e in ENGINES:
                got = raw[e].split()[1]
                if exp is not None and got != exp:
                    ctx.violation("%s:trap-cause:%s" % (name, e), "%s on %s: trap cause %r, the situation is %r" % (name, p[3:], got, exp),
                                  {"kind": "grid", "op": op, "wazero": {e: raw[e] for e in ENGINES}, "node": raw["node"]})
    ctx.corr["lines"] += len(ops) * (len(outs)) + len(lean)
    ctx.corr["diffs"] += ref_bad
    ev.update({"grid_ops": len(ops), "grid_corpus_ops": ncorpus, "grid_functions": len(funcs), "grid_lean_rows": len(lean),
               "grid_engines": ENGINES + ["node"] + (["lean"] if model else []),
               "dirty_i32_results": notes["dirty"], "grid_distribution": dict(dist)})
    return len(ops), nontrivial, samples


# ----------------------------------------------------------------------------- deliverable 2: whole modules
def status_compatible(w, n):
    """wazero / V8 end-of-run status; trap causes compared at the granularity V8 can express"""
    if w == n:
        return True
    if not (w.startswith("trap:") and n.startswith("trap:")):
        return False
    a, b = w[5:], n[5:]
    if a in ("ovf", "nanconv") and b == "floatconv":
        return True
    if a in ("tableaccess", "sigmismatch") and b in ("nullorsig", "tableaccess"):
        return True
    return False


def discover_programs(ctx):
    """(tag, path, virtual name) of candidate Wa programs: fixed corpus, /repo examples and tests, generated ones if available"""
    if ctx.replay:
        rp = json.load(open(ctx.replay)).get("replay", {})
        if rp.get("kind") != "program":
            return []
        path = os.path.join(vlib.REPO if not rp["file"].startswith("corpus") else vlib.VERIF, rp["file"])
        return [("replay", path, os.path.basename(path))]
    progs = [("corpus", f, os.path.basename(f)) for f in sorted(glob.glob(os.path.join(vlib.VERIF, "corpus", PROP, "*.wa")))]
    repo = []
    for root in ("waroot/examples", "tests"):
        for dp, dn, fn in os.walk(os.path.join(vlib.REPO, root)):
            dn.sort()
            for f in sorted(fn):
                if f.endswith(".wa") and not f.endswith("_test.wa"):
                    try:
                        src = open(os.path.join(dp, f), errors="replace").read()
                    except OSError:
                        continue
                    if "\nfunc main" in "\n" + src:           # a program, not a package file
                        repo.append(("repo", os.path.join(dp, f), f))
    if ctx.tier == "quick" and len(repo) > 8:
        repo = sorted(ctx.rng.sample(repo, 8), key=lambda t: t[1])
    progs += repo
    try:
        from gen import progs as genprogs          # shared type-directed program generator (WaGo text, owner: gen/progs.py)
        d = os.path.join(ctx.tmp, "genprogs")
        os.makedirs(d, exist_ok=True)
        for k in range(4 if ctx.tier == "quick" else 40):
            size = ("small", "medium", "medium", "large")[k % 4] if ctx.tier != "quick" else ("small", "medium")[k % 2]
            src = genprogs.gen_program(ctx.rng, size=size, stream="safe").render_go()
            fn = os.path.join(d, "g%03d.wa.go" % k)
            open(fn, "w").write(src)
            progs.append(("generated", fn, "g%03d.wa.go" % k))
    except Exception as e:                          # the generator is not part of this check: its absence only narrows the stream
        ctx.notes.append("gen/progs.py not used: %s" % str(e)[:200])
    return progs


def run_one_program(ctx, h, tag, path, vname, k, engines):
    pre = os.path.join(ctx.tmp, "prog%04d" % k)
    try:
        p = subprocess.run([h, "build", path, pre, vname], stdout=subprocess.PIPE, stderr=subprocess.PIPE, text=True, timeout=300,
                           stdin=subprocess.DEVNULL, cwd=ctx.tmp)
    except subprocess.TimeoutExpired:
        return {"skip": "build-timeout"}
    if p.returncode != 0 or not os.path.exists(pre + ".wasm"):
        return {"skip": "does-not-build-as-single-file", "why": "rc=%d %s" % (p.returncode, (p.stderr or p.stdout)[-160:].replace("\n", " "))}
    wat = open(pre + ".wat", errors="replace").read()
    mods = set(l.split('"')[1] for l in wat.splitlines() if l.lstrip().startswith("(import "))
    if mods - {"syscall_js"}:
        return {"skip": "imports:" + ",".join(sorted(mods - {"syscall_js"}))}
    mainf = open(pre + ".main").read()
    if '(export "%s")' % mainf not in wat:
        return {"skip": "no-main-function"}          # a package file, not a program
    res = {}
    for e in engines:
        cmd = ["node", NODE_JS, "run", pre + ".wasm", pre + ".fset", mainf] if e == "node" else [h, "run", e, pre + ".wasm", pre + ".fset", mainf]
        for limit in (120, 900):                     # a time-out is retried once with a generous limit (loaded machine) before it counts
            try:
                q = subprocess.run(cmd, stdout=subprocess.PIPE, stderr=subprocess.PIPE, text=True, timeout=limit, stdin=subprocess.DEVNULL, cwd=ctx.tmp)
                res[e] = (q.stdout.strip().splitlines() or ["crash rc=%d %s" % (q.returncode, q.stderr[-300:].replace("\n", " "))])[-1]
                break
            except subprocess.TimeoutExpired:
                res[e] = "timeout"
    for f in (".wat", ".wasm", ".fset", ".main"):
        try:
            os.remove(pre + f)
        except OSError:
            pass
    return {"res": res, "wasm_bytes": len(wat)}


def whole_modules(ctx, h, ev):
    progs = discover_programs(ctx)
    engines = ["emb", "node"] + (["interpreter", "compiler"] if ctx.tier != "quick" else [])
    skipped = collections.Counter()
    ran, samples, outcomes = 0, [], collections.Counter()
    with cf.ThreadPoolExecutor(8) as ex:
        futs = [(t, ex.submit(run_one_program, ctx, h, t[0], t[1], t[2], k, engines)) for k, t in enumerate(progs)]
        for (tag, path, vname), fu in futs:
            r = fu.result()
            rel = os.path.relpath(path, vlib.REPO) if path.startswith(vlib.REPO) else os.path.relpath(path, vlib.VERIF)
            if "skip" in r:
                skipped[r["skip"].split(":")[0]] += 1
                if tag != "repo" and r["skip"].startswith("does-not-build"):
                    # corpus and generated programs are expected to compile: say why one did not (not a C31 matter, but visible)
                    ctx.notes.append("program %s does not build: %s" % (rel, r.get("why", "")))
                continue
            res = r["res"]
            if any(v == "timeout" for v in res.values()):
                if len(set(res.values())) == 1:
                    skipped["timeout-everywhere"] += 1
                    continue
            ran += 1
            if ctx.replay:
                for e in engines:
                    print("REPLAY %-12s %s -> %s" % (e, rel, res[e][:400]))
            nd = res["node"].split()
            outcomes[tag + ":" + nd[0].split(":")[0]] += 1
            for e in engines:
                if e == "node":
                    continue
                w = res[e].split()
                if len(w) < 2 or len(nd) < 2:
                    ctx.violation("program:%s:engine-failure" % e, "%s: %s=%r node=%r" % (rel, e, res[e][:200], res["node"][:200]),
                                  {"kind": "program", "file": rel, "engine": e, "wazero": res[e][:2000], "node": res["node"][:2000]})
                elif w[1] != nd[1]:
                    ctx.violation("program:%s:output" % e, "%s: printed output differs on %s (%d vs %d hex chars; status %s vs %s)" % (
                        rel, e, len(w[1]), len(nd[1]), w[0], nd[0]),
                        {"kind": "program", "file": rel, "engine": e, "wazero": res[e][:4000], "node": res["node"][:4000]})
                elif not status_compatible(w[0], nd[0]):
                    ctx.violation("program:%s:status" % e, "%s: ends with %s on %s, %s on V8" % (rel, w[0], e, nd[0]),
                                  {"kind": "program", "file": rel, "engine": e, "wazero": res[e][:2000], "node": res["node"][:2000]})
            if len(samples) < 8:
                samples.append({"program": rel, "embedded": res["emb"][:80], "node": res["node"][:80]})
    ctx.corr["lines"] += ran * len(engines)
    ev.update({"programs_candidates": len(progs), "programs_run": ran, "programs_skipped": dict(skipped), "program_engines": engines,
               "program_outcomes": dict(outcomes), "program_samples": samples})
    return ran


def run(ctx):
    import time
    t0 = time.time()
    h = ctx.build_harness("c31")
    t1 = time.time()
    ctx.prove(required=REQUIRED)
    model = ctx.build_model("c31")
    t2 = time.time()
    ev = {}
    n1, nontrivial, samples = grid(ctx, h, model, ev)
    t3 = time.time()
    n2 = whole_modules(ctx, h, ev)
    t4 = time.time()
    ev["timing_s"] = {"go_build": round(t1 - t0, 1), "lean": round(t2 - t1, 1), "grid": round(t3 - t2, 1), "programs": round(t4 - t3, 1)}
    cov = {
        "evaluations": n1 + n2,
        "distinct_nontrivial": len(nontrivial),
        "rule": "grid: one case = one exported function of the per-instruction module on one operand tuple, executed on every engine; "
                "distinct_nontrivial counts distinct (instruction[@offset], operand class, outcome ok/trap) triples; "
                "programs: one case = one Wa program compiled by api.BuildFile + Wat2Wasm and run to completion on each engine "
                "(programs that do not build as a single file, import a non-console host, or time out everywhere are skipped and counted)",
        "samples": samples,
        "distribution": ev.pop("grid_distribution"),
    }
    cov.update(ev)
    return ctx.finish("translation_validation", cov,
                      assumptions=["memory.grow within the declared limit succeeds (the spec allows failure; all engines here succeed)",
                                   "call-stack exhaustion is compared only as 'traps' (resource limits are implementation-defined)"],
                      trusted_base=["V8 (node %s) as independent engine" % subprocess.run(["node", "--version"], stdout=subprocess.PIPE, text=True).stdout.strip(),
                                    "hand-written reference semantics Base/WasmNum.lean + Model/C31.lean (validated against V8 and wazero by the grid)",
                                    "python NaN rule / trap-cause coarsening / operand classes in checks/c31.py", "gen/instmod.py"])
