"""C25 — SLIP framing delivers exactly the packets that were sent."""
import hashlib, json, os
from lib import vlib

PROP = "C25"
META = {
    "category": "proof",
    "text": "Lean theorems over a model of internal/3rdparty/slip: the reader applied to the writer's output returns the payload, "
            "marks it complete and leaves exactly the following bytes (read_encode); every sequence of non-empty payloads of any "
            "length is read back exactly and in order (stream_roundtrip); the reader computes the same result over every split of "
            "the stream into non-empty reads (chunking_irrelevant, via the shared Stream model of a transport read through a bounded "
            "buffer); a message followed by its FCS-16 always checks good, proved over the table regenerated from the Go package "
            "(fcs_good; fcstab_is_crc16 shows all 256 entries are the bitwise CRC-16/X-25); SLIPMUX frames meeting the MuxWF guard "
            "come back with the same payload and frame type, singly, as a stream and over any chunking (mux_roundtrip, "
            "mux_stream_roundtrip_chunked); the wire format is self-delimiting (stuffed_no_end, stream_end_count: END occurs exactly "
            "twice per packet) and a stream cut at any byte delivers exactly a prefix of the sent packets (stream_truncation_safe). The framing bytes, frame classes, frame filter and FCS table are regenerated from the "
            "compiled package on every run; the hand-written transcription of the writer/reader loops is tied to the Go code by a "
            "differential correspondence run through the real Writer/Reader/SlipMuxWriter/SlipMuxReader over a chunking io.Reader, "
            "and the property's own oracle (packets out == packets in, frame types equal) is evaluated on the real code's answers.",
    "note": "Trusted: Lean kernel; the tie of the hand-written loops (Model/C25.lean) to slip.go/slipmux.go is the correspondence run "
            "(differential, not a proof); constants/table/frame predicates are regenerated and checked by theorems. Transport model: every "
            "Read returns >= 1 byte until EOF, and EOF is reported by a read of 0 bytes. Outside that model: a 0-byte read in the middle of an escape loses the ESC state (observation only, "
            "DESIGN C25); a transport that returns its last byte together with io.EOF (n>0 and err!=nil in one Read, legal for an io.Reader) "
            "makes the reader drop that byte (the final END), so the last packet is reported with isPrefix=true: exercised by the oracle-only "
            "`slipeof` ops and recorded as known finding slip:byte-returned-together-with-error-is-dropped (proposed_fixes/C25-read-byte-with-error.diff). "
            "MuxWF excludes: "
            "frame bytes END/ESC/0 (filtered by the reader), IP frame bytes that are not the payload's first byte (the writer does not prepend "
            "them), CoAP payloads shorter than 4 bytes (dropped by design); the excluded points are proved to behave that way in the model "
            "and compared with the real code.",
    "technique": "Lean 4 proof over regenerated constants/table + hand-written loops, differential correspondence through a chunking "
                 "io.Reader, oracle on the real code",
}
REQUIRED = ["readGo_no_end", "readPacket_truncated", "stream_truncation_safe", "stuffed_no_end", "encode_end_count", "stream_end_count", "encode_length_bounds", "read_encode", "stream_roundtrip", "stream_roundtrip_rest", "chunking_irrelevant", "stream_roundtrip_chunked",
            "fcs_good", "check_append", "fcstab_length", "fcstab_is_crc16", "invalid_frames_table", "ip_frames_table",
            "mux_roundtrip", "mux_stream_roundtrip", "mux_chunking_irrelevant", "mux_stream_roundtrip_chunked",
            "mux_invalid_frame_dropped", "mux_short_coap_dropped", "mux_ip_frame_not_prepended", "empty_payload_dropped"]

END, ESC, ESC_END, ESC_ESC = 0xC0, 0xDB, 0xDC, 0xDD
SPECIAL = [END, ESC, ESC_END, ESC_ESC]
COAP, DIAG = 0xA9, 0x0A
GEN_REL = os.path.join("WaVerif", "Gen", "C25Slip.lean")


def hx(bs):
    return "".join("%02x" % b for b in bs) or "-"


def unhx(s):
    return [] if s == "-" else list(bytes.fromhex(s))


def is_ip(f):
    return 0x45 <= f <= 0x4F or 0x60 <= f <= 0x6F


def mux_wf(ft, p):
    """the guard of mux_roundtrip, restated independently (RFC-style reading of slipmux)"""
    if ft in (END, ESC, 0):
        return False
    if is_ip(ft):
        return len(p) > 0 and p[0] == ft
    if ft == COAP:
        return len(p) >= 4
    return True


def crc16_x25_state(data):
    """bitwise FCS-16 (RFC 1662 appendix C), state before the final complement"""
    f = 0xFFFF
    for b in data:
        f ^= b
        for _ in range(8):
            f = (f >> 1) ^ 0x8408 if f & 1 else f >> 1
    return f


# ------------------------------------------------------------------ generators
def gen_payload(rng, maxlen):
    mode = rng.random()
    if mode < 0.15:
        n = 1
    elif mode < 0.75:
        n = rng.randint(1, 8)
    elif mode < 0.97:
        n = rng.randint(1, 40)
    else:
        n = rng.randint(1, maxlen)
    dens = rng.choice([0.0, 0.3, 0.6, 1.0])
    p = [rng.choice(SPECIAL) if rng.random() < dens else rng.randrange(256) for _ in range(n)]
    if rng.random() < 0.4:
        p[-1] = rng.choice(SPECIAL)          # escape at the packet end
    if rng.random() < 0.3:
        p[0] = rng.choice(SPECIAL)
    return p


def gen_splits(rng):
    k = rng.random()
    if k < 0.25:
        return [1]
    if k < 0.35:
        return [4096]
    return [rng.choice([1, 1, 2, 3, 4, 5, 7, 8, 16, 64]) for _ in range(rng.randint(1, 5))]


def splits_s(sp):
    return ",".join(str(x) for x in sp)


def gen_frame(rng):
    c = rng.random()
    if c < 0.18:
        ft = DIAG
    elif c < 0.40:
        ft = COAP
    elif c < 0.55:
        ft = rng.randint(0x45, 0x4F)
    elif c < 0.70:
        ft = rng.randint(0x60, 0x6F)
    elif c < 0.90:
        ft = rng.choice([0x01, 0x44, 0x50, 0x5F, 0x70, ESC_END, ESC_ESC, 0xFF, 0xA8, 0xAA, rng.randrange(1, 256)])
    else:
        ft = rng.choice([0x00, END, ESC])    # excluded: filtered by the reader
    return ft


def gen_framed(rng, wf_only):
    for _ in range(50):
        ft = gen_frame(rng)
        p = gen_payload(rng, 60)
        if is_ip(ft) and rng.random() < 0.85:
            p = [ft] + p[1:] if rng.random() < 0.5 else [ft] + p
        if ft == COAP and rng.random() < 0.8 and len(p) < 4:
            p = p + [rng.choice(SPECIAL + [0, 1]) for _ in range(4 - len(p))]
        if rng.random() < 0.03:
            p = []
        if not wf_only or (mux_wf(ft, p) and p):
            return ft, p
    return DIAG, [1]


_PAT = {}


def pattern(n, kind, seed):
    """the harness's fillPattern, restated (periodic, so built by tiling one period)"""
    key = (kind, seed)
    if key not in _PAT or len(_PAT[key]) < n:
        if kind == "p":
            per = bytes(1 + (i * 7 + seed) % 0xBF for i in range(0xBF))
        elif kind == "e":
            per = bytes(SPECIAL[(i + seed + i // 5) % 4] for i in range(20))
        else:
            per = bytes((i * 31 + seed + i // 251) & 0xFF for i in range(251 * 256))
        _PAT[key] = per * (max(n, 1 << 19) // len(per) + 1)
    return _PAT[key][:n]


def digest(b):
    return "%d:%s" % (len(b), hashlib.sha1(bytes(b)).hexdigest()[:12]) if len(b) else "-"


BIG_SIZES = [4095, 4096, 4097, 8192, 16383, 16384, 16385, 32768, 65533, 65534, 65535, 65536, 65537, 70000,
             131069, 131070, 131071, 131072, 131073, 196608, 262143, 262144, 262145]
ALIAS_FRAMES = [DIAG, COAP, 0x45, 0x4F, 0x60, 0x6F, 0x01, ESC_END, ESC_ESC, 0xFF, 0x00, END, ESC]
ALIAS_SPECS = [[(0, 16), (16, 16), (32, 16), (48, 16), (64, 16), (80, 16)],          # consecutive blocks of one image
               [(0, 16), (8, 16), (16, 16), (4, 24), (0, 40)],                        # overlapping blocks
               [(5, 10), (5, 10), (5, 10)],                                           # the same slice again (retransmission)
               [(0, 4), (4, 4), (0, 4), (8, 88), (0, 96)],                            # tiny, then up to the end (no spare capacity)
               [(90, 6), (0, 1), (1, 1), (2, 5), (40, 7)]]


def alias_buffer(ft, specs, salt):
    b = bytearray((i * 37 + salt) & 0xFF for i in range(96))
    for i in range(0, 96, 7):
        b[i] = SPECIAL[(i + salt) % 4]
    if ft is not None and is_ip(ft):
        for off, n in specs:
            b[off] = ft          # IP frames are not prepended: the payload starts with the frame byte
    return bytes(b)


def gen_deterministic_ops(ctx):
    """size-boundary payloads and caller-buffer aliasing: fixed (seed-independent) streams in both tiers"""
    ops = []
    small = ["3:p:1", "5:e:2", "2:m:3"]
    splitsets = ["4096", "1", "7,4096,1", "65536", "3"]
    k = 0
    for n in BIG_SIZES:
        for kind in "pem":
            for pos in range(3):                      # first / middle / last packet of the stream
                spec = "%d:%s:%d" % (n, kind, k % 4)
                seq = small[:]
                seq.insert([0, 1, 3][pos], spec)
                ops.append("big %s %s" % (splitsets[k % len(splitsets)], " ".join(seq)))
                k += 1
    ops.append("big 4096 65536:p:0 65536:e:1 131072:m:2 1:p:3")
    ops.append("big 1 65536:e:0 65536:e:0")
    ops.append("big 4096 300000:m:1 300000:e:2 65536:p:3 65536:p:3")
    mux_small = ["0a:3:p:1", "a9:5:e:2", "45:4:m:3"]
    for n in BIG_SIZES:
        for j, ft in enumerate([DIAG, COAP, 0x45, 0x6F, ESC_ESC]):
            spec = "%02x:%d:%s:%d" % (ft, n, "pem"[(k + j) % 3], k % 4)
            seq = mux_small[:]
            seq.insert([0, 1, 3][(k + j) % 3], spec)
            ops.append("bigmux %s %s" % (splitsets[k % len(splitsets)], " ".join(seq)))
            k += 1
    ops.append("bigmux 4096 0a:65535:p:0 0a:65535:e:1 a9:65533:m:2 45:65536:p:3 0a:1:p:1")
    # aliasing: every writer entry point, payloads cut from ONE caller buffer with spare capacity
    for si, specs in enumerate(ALIAS_SPECS):
        sp = " ".join("%d:%d" % x for x in specs)
        ops.append("alias slip %s %s" % (hx(alias_buffer(None, specs, si)), sp))
        for ft in ALIAS_FRAMES:
            ops.append("alias %02x %s %s" % (ft, hx(alias_buffer(ft, specs, si + ft)), sp))
    for ft in range(256):                             # every frame byte
        specs = [(0, 8), (8, 8), (0, 8), (3, 9)]
        ops.append("alias %02x %s %s" % (ft, hx(alias_buffer(ft, specs, ft)), " ".join("%d:%d" % x for x in specs)))
    for off, n in [(0, 0), (0, 1), (0, 2), (2, 6), (10, 40), (0, 96), (90, 6), (5, 4)]:
        ops.append("aliasfcs %s %d:%d" % (hx(alias_buffer(None, [], off + n)), off, n))
    return ops


def gen_ops(ctx):
    rng = ctx.rng
    quick = ctx.tier == "quick"
    ops = []
    maxlen = 300 if quick else 1500
    # SLIP: payload sequences
    for _ in range(6000 if quick else 60000):
        n = rng.choice([1, 1, 2, 3, 4, 6, 10])
        ps = [gen_payload(rng, maxlen) for _ in range(n)]
        if rng.random() < 0.05:
            ps.insert(rng.randrange(len(ps) + 1), [])      # excluded point: empty payload
        ops.append("slip %s %s" % (splits_s(gen_splits(rng)), " ".join(hx(p) for p in ps)))
    # the same, over a transport that returns its LAST byte together with io.EOF (n > 0 and err != nil in one Read,
    # which the io.Reader contract allows); oracle only, not part of the Lean transport model
    for _ in range(300 if quick else 3000):
        n = rng.choice([1, 1, 2, 3])
        ps = [gen_payload(rng, 40) for _ in range(n)]
        ops.append("slipeof %s %s" % (splits_s(gen_splits(rng)), " ".join(hx(p) for p in ps)))
    # every payload over the special alphabet up to length 3 (quick) / 4, one-byte reads and one big read
    alpha = SPECIAL + [0x41]
    seqs = [[]]
    frontier = [[]]
    for _ in range(3 if quick else 4):
        frontier = [s + [a] for s in frontier for a in alpha]
        seqs += frontier
    for s in seqs:
        if s:
            ops.append("slip %s %s %s" % (rng.choice(["1", "2", "3", "4096"]), hx(s), hx(s[::-1])))
    # raw streams through the reader: exhaustive over the alphabet up to length 5 (quick) / 6
    raws = [[]]
    frontier = [[]]
    for _ in range(5 if quick else 6):
        frontier = [s + [a] for s in frontier for a in alpha]
        raws += frontier
    for s in raws:
        ops.append("raw %s %s" % (rng.choice(["1", "2", "3,1", "4096"]), hx(s)))
    for _ in range(3000 if quick else 30000):
        n = rng.randint(0, 40)
        s = [rng.choice(SPECIAL + [0x41, 0x00, COAP]) if rng.random() < 0.7 else rng.randrange(256) for _ in range(n)]
        ops.append("raw %s %s" % (splits_s(gen_splits(rng)), hx(s)))
    # SLIPMUX
    for _ in range(5000 if quick else 50000):
        n = rng.choice([1, 1, 2, 3, 5, 8])
        wf_only = rng.random() < 0.5
        fs = [gen_framed(rng, wf_only) for _ in range(n)]
        ops.append("mux %s %s" % (splits_s(gen_splits(rng)), " ".join("%02x:%s" % (ft, hx(p)) for ft, p in fs)))
    # every frame byte once, well-formed and with a foreign first byte
    for ft in range(256):
        p = [ft, END, ESC, 1, 2] if is_ip(ft) else [END, ESC, 1, 2]
        ops.append("mux 1 %02x:%s" % (ft, hx(p)))
        ops.append("mux 3 %02x:%s %02x:%s" % (ft, hx([0x61, 1, 2, 3]), DIAG, "68"))
    # CoAP lengths around the 4-byte limit
    for n in range(0, 8):
        ops.append("mux 2 a9:%s 0a:01" % hx([rng.choice(SPECIAL) for _ in range(n)]))
    # raw streams through the mux reader: corrupted FCS, short CoAP, junk
    for _ in range(2000 if quick else 20000):
        body = [COAP] + gen_payload(rng, 20)
        f = crc16_x25_state(body) ^ 0xFFFF
        body = body + [f & 0xFF, f >> 8]
        if rng.random() < 0.6:
            i = rng.randrange(len(body))
            body[i] ^= 1 << rng.randrange(8)
        st = [END]
        for b in body:
            st += [ESC, ESC_END] if b == END else [ESC, ESC_ESC] if b == ESC else [b]
        st += [END] + [END, DIAG, 0x31, END]
        if rng.random() < 0.3:
            st = [rng.choice(SPECIAL + [0, 0x45]) for _ in range(rng.randint(0, 6))] + st
        ops.append("rawmux %s %s" % (splits_s(gen_splits(rng)), hx(st)))
    for s in raws[: (1500 if quick else len(raws))]:
        ops.append("rawmux 1 %s" % hx(s))
    # FCS
    for n in list(range(0, 20)) + [rng.randint(20, 400) for _ in range(200 if quick else 3000)]:
        ops.append("fcs %s" % hx([rng.randrange(256) for _ in range(n)]))
    for a in range(256):
        ops.append("fcs %02x" % a)
    return ops


def load_corpus():
    d = os.path.join(vlib.VERIF, "corpus", PROP)
    ops = []
    if os.path.isdir(d):
        for f in sorted(os.listdir(d)):
            if f.endswith(".ops"):
                ops += [l.strip() for l in open(os.path.join(d, f)) if l.strip() and not l.startswith("#")]
    return ops


def regenerate(ctx, harness):
    """Gen/C25Slip.lean from the compiled package (constants, frame predicates, FCS table)."""
    rc, out, err = ctx.run_bin(harness, ["gen"])
    if rc != 0 or "def fcstab" not in out:
        raise vlib.InfraError("c25 gen failed: %s" % err[-2000:])
    path = os.path.join(vlib.LEAN, GEN_REL)
    with vlib.Lock("gen.c25"):
        if os.path.exists(path):
            os.remove(path)
        tmp = path + ".tmp.%d" % os.getpid()
        with open(tmp, "w") as f:
            f.write(out)
        os.replace(tmp, path)
    return out


def parse_kv(line):
    d = {}
    for tok in line.split():
        if "=" in tok:
            k, v = tok.split("=", 1)
            d[k] = v
    return d


def run(ctx):
    harness = ctx.build_harness("c25")
    gen_text = regenerate(ctx, harness)
    ctx.prove(required=REQUIRED)
    model = ctx.build_model("c25")

    if ctx.replay:
        r = json.load(open(ctx.replay))
        ops = [r["replay"]["op"]] if "op" in r.get("replay", {}) else []
    else:
        ops = load_corpus() + gen_deterministic_ops(ctx) + gen_ops(ctx)
    rc, out, err = ctx.run_bin(harness, input_text="\n".join(ops) + "\n")
    impl = out.splitlines()

    nontrivial = set()
    dist = {"slip": 0, "slipeof": 0, "raw": 0, "mux": 0, "rawmux": 0, "fcs": 0, "slip_packets": 0, "mux_frames": 0,
            "mux_frames_excluded": 0, "escaped_bytes": 0, "one_byte_reads": 0}

    # ---------------- oracle: the property itself on the real code's answers
    for op, r in zip(ops, impl):
        f = op.split()
        kind = f[0]
        dist[kind] = dist.get(kind, 0) + 1
        if r.startswith(("PANIC", "ERR", "bad-op")):
            ctx.violation("%s:%s" % (kind, r.split()[0].lower()), "%s -> %s" % (op[:300], r[:200]), {"op": op, "impl": r})
            continue
        kv = parse_kv(r)
        if kind == "slipeof":
            ps = [unhx(h) for h in f[2:]]
            want = [p for p in ps if p]
            got = [] if kv["pk"] == "none" else [unhx(h) for h in kv["pk"].split(",")]
            if got != want or kv["tail"] != "-":
                if got == want[:-1] and unhx(kv["tail"]) == want[-1]:
                    key = "slip:byte-returned-together-with-error-is-dropped"
                    what = ("Reader.ReadPacket discards a byte that Read returned together with an error (`if n == 0 || err != nil`): over a "
                            "transport that returns its last byte with io.EOF the final END is lost and the last packet %s is reported with "
                            "isPrefix=true instead of complete" % hx(want[-1])[:60])
                else:
                    key, what = "slip:data-with-eof-transport-other", "payloads %s read back as %s tail=%s" % (" ".join(f[2:])[:200], kv["pk"][:200], kv["tail"])
                ctx.violation(key, what, {"op": op, "impl": r})
            nontrivial.add(("slipeof", len(want), f[1] == "1"))
        elif kind == "slip":
            ps = [unhx(h) for h in f[2:]]
            want = [p for p in ps if p]                  # empty payloads are not packets (excluded point)
            got = [] if kv["pk"] == "none" else [unhx(h) for h in kv["pk"].split(",")]
            dist["slip_packets"] += len(want)
            dist["escaped_bytes"] += sum(1 for p in ps for b in p if b in (END, ESC))
            if f[1] == "1":
                dist["one_byte_reads"] += 1
            if got != want or kv["tail"] != "-":
                if len(got) != len(want):
                    key = "slip:packet-count-differs"
                else:
                    i = next(i for i in range(len(got)) if got[i] != want[i]) if got != want else -1
                    bad = set(want[i]) & set(SPECIAL) if i >= 0 else set()
                    key = "slip:payload-differs" + ("-with-%s" % "-".join("%02x" % b for b in sorted(bad)) if bad else "")
                    if i < 0:
                        key = "slip:trailing-partial-packet"
                ctx.violation(key, "payloads %s read back as %s tail=%s (splits %s)" % (
                    " ".join(f[2:])[:200], kv["pk"][:200], kv["tail"], f[1]), {"op": op, "impl": r})
            feats = (len(want) if len(want) < 4 else 4,
                     tuple(sorted({b for p in want for b in p if b in SPECIAL})),
                     bool(want) and want[-1][-1] in SPECIAL, bool(want) and want[0][0] in SPECIAL,
                     "1" if f[1] == "1" else "big" if f[1] == "4096" else "mixed",
                     min(max([len(p) for p in want] or [0]), 64) // 8)
            nontrivial.add(("slip",) + feats)
        elif kind == "mux":
            fs = []
            for h in f[2:]:
                fs.append((int(h[:2], 16), unhx(h[3:])))
            got = [] if kv["pk"] == "none" else [(int(x[:2], 16), unhx(x[3:])) for x in kv["pk"].split(",")]
            wf = [mux_wf(ft, p) for ft, p in fs]
            dist["mux_frames"] += len(fs)
            dist["mux_frames_excluded"] += wf.count(False)
            if all(wf):
                if got != fs:
                    i = next((i for i in range(min(len(got), len(fs))) if got[i] != fs[i]), min(len(got), len(fs)))
                    cls = "coap" if i < len(fs) and fs[i][0] == COAP else "ip" if i < len(fs) and is_ip(fs[i][0]) else "plain"
                    what = "frame-type" if i < len(got) and i < len(fs) and got[i][1] == fs[i][1] else "payload-or-count"
                    ctx.violation("mux:%s-%s-differs" % (cls, what), "frames %s read back as %s (splits %s)" % (
                        " ".join(f[2:])[:200], kv["pk"][:200], f[1]), {"op": op, "impl": r})
            else:
                # excluded points present: the well-formed frames must still arrive, in order
                wfl = [x for x, w in zip(fs, wf) if w]
                it = iter(got)
                if not all(any(x == y for y in it) for x in wfl):
                    ctx.violation("mux:wellformed-frame-lost-next-to-excluded-frame", "frames %s read back as %s" % (
                        " ".join(f[2:])[:200], kv["pk"][:200]), {"op": op, "impl": r})
            for (ft, p), w in zip(fs, wf):
                cls = "coap" if ft == COAP else "ip4" if 0x45 <= ft <= 0x4F else "ip6" if 0x60 <= ft <= 0x6F else \
                    "invalid" if ft in (0, END, ESC) else "diag" if ft == DIAG else "other"
                nontrivial.add(("mux", cls, w, min(len(p), 8), tuple(sorted(set(p) & set(SPECIAL))), f[1] == "1"))
        elif kind == "big":
            want = [digest(pattern(int(a), b, int(c))) for a, b, c in (x.split(":") for x in f[2:]) if int(a) > 0]
            got = [] if kv["pk"] == "none" else kv["pk"].split(",")
            sizes = [int(x.split(":")[0]) for x in f[2:]]
            if got != want or kv["prefixes"] != "0" or kv["tail"] != "-" or kv["end"] != "eof":
                if kv["prefixes"] != "0":
                    key = "slip:large-packet-handed-out-in-pieces-without-transport-cause"
                    what = ("a packet of %d bytes is not returned as one payload: ReadPacket reported isPrefix=true with err=nil although every "
                            "Read delivered data" % max(sizes))
                elif len(got) != len(want):
                    key, what = "slip:large-packets-merged-or-lost", "packet count differs"
                else:
                    key, what = "slip:large-payload-differs", "payload bytes differ"
                ctx.violation(key, "%s: sent %s, ReadPacket returned %s prefixes=%s tail=%s end=%s (splits %s)" % (
                    what, " ".join(f[2:]), kv["pk"][:300], kv["prefixes"], kv["tail"], kv["end"], f[1]), {"op": op, "impl": r})
            dist["big_bytes"] = dist.get("big_bytes", 0) + sum(sizes)
            nontrivial.add(("big", max(sizes), [x.split(":")[1] for x in f[2:] if int(x.split(":")[0]) == max(sizes)][0],
                            sizes.index(max(sizes)), f[1]))
        elif kind == "bigmux":
            want = []
            for x in f[2:]:
                ft, a, b, c = x.split(":")
                ft = int(ft, 16)
                pl = bytearray(pattern(int(a), b, int(c)))
                if is_ip(ft) and pl:
                    pl[0] = ft
                want.append("%02x:%s" % (ft, digest(pl)))
            got = [] if kv["pk"] == "none" else kv["pk"].split(",")
            sizes = [int(x.split(":")[1]) for x in f[2:]]
            if got != want:
                key = "mux:large-packets-merged-or-lost" if len(got) != len(want) else "mux:large-payload-or-frame-differs"
                ctx.violation(key, "sent %s, SlipMuxReader returned %s (splits %s)" % (" ".join(f[2:]), kv["pk"][:300], f[1]),
                              {"op": op, "impl": r})
            dist["big_bytes"] = dist.get("big_bytes", 0) + sum(sizes)
            nontrivial.add(("bigmux", max(sizes), f[2 + sizes.index(max(sizes))][:2], sizes.index(max(sizes)), f[1]))
        elif kind == "alias":
            who = f[1]
            buf = unhx(f[2])
            specs = [tuple(int(v) for v in x.split(":")) for x in f[3:]]
            pls = [buf[o:o + n] for o, n in specs]                       # the payloads as the caller sees them
            cls = "slip" if who == "slip" else "mux-coap" if int(who, 16) == COAP else "mux-ip" if is_ip(int(who, 16)) else "mux-plain"
            if kv["clobber"] != "none":
                ctx.violation("alias:%s-write-modifies-callers-buffer" % cls,
                              "WritePacket(%s) changed the caller's backing array (call@index %s): payloads were sub-slices %s of one "
                              "buffer with spare capacity" % (who, kv["clobber"], " ".join(f[3:])), {"op": op, "impl": r})
            sent = [unhx(h) for h in kv["sent"].split(",")]
            if who == "slip":
                want = [p for p in pls if p]
                got = [] if kv["pk"] == "none" else [unhx(h) for h in kv["pk"].split(",")]
                ok = got == want and kv.get("tail") == "-"
            else:
                ft = int(who, 16)
                got = [] if kv["pk"] == "none" else [(int(x[:2], 16), unhx(x[3:])) for x in kv["pk"].split(",")]
                want = [(ft, p) for p in pls]
                ok = got == want if all(mux_wf(ft, p) for p in pls) else True
            if sent != pls or not ok:
                ctx.violation("alias:%s-received-differs-from-payloads-at-call-time" % cls,
                              "sub-slices %s of buffer %s through WritePacket(%s): reader delivered %s" % (
                                  " ".join(f[3:]), f[2][:80], who, kv["pk"][:300]), {"op": op, "impl": r})
            dist["alias_calls"] = dist.get("alias_calls", 0) + len(specs)
            nontrivial.add(("alias", who, tuple(specs)))
        elif kind == "aliasfcs":
            if r != "readonly=ok append=ok":
                ctx.violation("alias:fcs-helper-modifies-callers-data", "%s -> %s" % (op[:200], r), {"op": op, "impl": r})
            nontrivial.add(("aliasfcs", f[2]))
        elif kind == "fcs":
            d = unhx(f[1])
            ref = crc16_x25_state(d)
            if kv["good"] != "true":
                ctx.violation("fcs:appended-fcs-does-not-check", "%s -> %s" % (op[:200], r), {"op": op, "impl": r})
            elif int(kv["fcs"], 16) != ref:
                ctx.violation("fcs:table-differs-from-crc16-x25", "%s -> %s, bitwise CRC gives %04x" % (op[:200], r, ref),
                              {"op": op, "impl": r})
            nontrivial.add(("fcs", min(len(d), 32), ref & 0xFF))
        else:
            nontrivial.add((kind, r[:40]))

    # ---------------- correspondence with the Lean model
    if model:
        # oracle only: slipeof (transport outside the model), big/bigmux (64 KiB+ payloads; the list-append model is quadratic),
        # aliasfcs (memory effects only).  alias ops ARE compared: the model has no mutable memory, so it predicts clobber=none.
        keep = [i for i, o in enumerate(ops) if not o.startswith(("slipeof", "big", "aliasfcs"))]
        mops = [ops[i] for i in keep]
        rcm, mout, merr = ctx.run_bin(model, input_text="\n".join(mops) + "\n")
        diffs = ctx.diff_lines(mops, [impl[i] for i in keep], mout.splitlines())
        for i, op, a, b in diffs[:20]:
            ctx.proof["broken"].append({"theorem": "correspondence C25 model vs slip.go/slipmux.go/fcs.go",
                                        "why": "op %r: impl=%r model=%r" % (op[:300], a[:300], b[:300])})

    # ---------------- observations outside the transport model (never violations)
    obs_ops = ["obs-dataeof 0102 03", "obs-dataeof c0", "obs-stall 2 db 01", "obs-stall 1 4142 43"]
    _, oout, _ = ctx.run_bin(harness, input_text="\n".join(obs_ops) + "\n")
    obs = dict(zip(obs_ops, oout.splitlines()))
    ctx.notes.append("observations outside the transport model (reads >= 1 byte until a 0-byte EOF): %s" % json.dumps(obs))

    pairs = list(zip(ops, impl))
    samples = [{"op": o[:200], "impl": r[:200]} for o, r in pairs[:: max(1, len(pairs) // 12)]][:12]
    cov = {
        "evaluations": len(ops),
        "distinct_nontrivial": len(nontrivial),
        "rule": "deterministic (both tiers): big/bigmux = payloads of 23 sizes around powers of two from 4095 to 262145 bytes (incl. 65533..65537, "
                "70000, 131069..131073) x escape-free/escape-only/mixed content x first/middle/last packet, through Writer/Reader and "
                "SlipMuxWriter/SlipMuxReader (frames diag, CoAP, IPv4, IPv6, 0xDD), every ReadPacket return listed (isPrefix pieces marked); "
                "alias = payloads handed to slip.Writer.WritePacket and SlipMuxWriter.WritePacket (13 representative frames x 5 block layouts + "
                "all 256 frame bytes) as sub-slices with spare capacity of ONE caller buffer (consecutive, overlapping, same slice again, up to the "
                "end), buffer compared with a pristine copy after every call and received packets compared with the payloads at call time; "
                "aliasfcs = CalcFcs16/CalcFcs16WithInit/CheckFsc16/RemoveFcs16 read-only, AppendFcs16 leaves data[:len] alone. "
                "Randomised: slip: 1-10 payloads (bytes drawn from END/ESC/ESC_END/ESC_ESC with density 0/0.3/0.6/1, specials forced at packet "
                "ends/starts, lengths 1-%d, plus every payload over {C0,DB,DC,DD,41} up to length 3/4) written by the real Writer and read by "
                "the real Reader over a chunking io.Reader (splits incl. 1-byte reads and one big read); raw: every stream over that alphabet "
                "up to length 5/6 + random streams through the Reader; mux: frames of every class (diag, CoAP, IPv4, IPv6, other, filtered) "
                "incl. every frame byte and CoAP lengths 0-7 through SlipMuxWriter/SlipMuxReader; rawmux: corrupted-FCS / junk streams; fcs: "
                "random data + all single bytes. distinct_nontrivial counts distinct feature tuples (kind, #packets, set of special bytes, "
                "special at end/start, split class, length class / frame class, guard met, payload length, specials)." % (300 if ctx.tier == "quick" else 1500),
        "samples": samples,
        "distribution": dist,
        "regenerated": {"file": "lean/" + GEN_REL, "sha1": __import__("hashlib").sha1(gen_text.encode()).hexdigest()},
        "observations": obs,
    }
    return ctx.finish("proof", cov,
                      assumptions=["transport: every Read returns >= 1 byte until EOF; EOF is a read of 0 bytes (observations record what the real reader does otherwise)",
                                   "bytes are naturals; the SLIP theorems do not need them to be < 256",
                                   "SlipMuxReader polls forever at EOF by design; the harness ends the stream with a non-EOF sentinel error"],
                      trusted_base=["hand-written Lean transcription of WritePacket/ReadPacket loops (Model/C25.lean) tied by the correspondence run (harness/c25)",
                                    "regenerated constants/table via harness `c25 gen` (compiled values, hook harness/hooks/internal__3rdparty__slip/c25_export.go)",
                                    "python oracle in checks/c25.py (payload equality, MuxWF restated, bitwise CRC-16/X-25)"])
