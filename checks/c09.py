"""C09 — the Chinese (.wz) and the English (.wa) syntaxes mean the same thing."""
import concurrent.futures as cf
import json, os, random, re, subprocess

from extract import c09_tables
from gen import c09_render as R
from lib.vlib import LEAN, REPO

PROP = "C09"
META = {
    "category": "exploration",
    "text": "Proved (Lean 4, kernel evaluation of tables REGENERATED from /repo on every run): the Chinese->English keyword map is "
            "injective, total and covers every shared English keyword; LookupEx separates the two language modes; the full-width "
            "selector and every punctuation spelling scan to the same token in both modes; every consumer `case` list that accepts "
            "a Chinese keyword token accepts its English counterpart; each Chinese predeclared name denotes exactly one object "
            "(kind/type/builtin id/constant/role/scope) of the English universe and no two share one.  The FULL statement (every "
            "program of the shared subset type-checks identically and prints the same) is about two parsers + checker + compiler and "
            "is explored: one program AST is rendered to both surface syntaxes; the two real parsers' position-free trees must be "
            "equal after the proved keyword/identifier map (normaliser = the Lean model), LoadProgramFile must accept/reject both "
            "with the same diagnostic class, and both must print the same bytes when run.",
    "note": "Trusted: Lean kernel; the renderer gen/c09_render.py (it defines what 'the same program' is); the dumper harness/astdump. "
            "The .wz grammar's equivalence to the .wa grammar is NOT proved (explored on generated programs + per-keyword probes). "
            "Bool printing is localised on purpose (true/false vs 真/假): generated programs never print a bool.",
    "technique": "Lean 4 decide over regenerated tables + differential run of both front ends on one AST (trees, diagnostics, output)",
}
REQUIRED = ["kw_map_injective", "kw_map_covers_shared_keywords", "kw_map_total", "kw_lookup_separates_modes",
            "kw_texts_distinct", "selector_fullwidth_is_period", "punct_mode_independent", "consumer_clauses_closed",
            "builtin_name_clauses_closed",
            "universe_map_bijective_on_shared", "doc_pairs_verdict", "doc_pairs_agree_iff", "backend_pairs_verdict",
            "wz_english_names_verdict"]

hx = lambda s: s.encode().hex() or "-"


def unhx(h):
    return "" if h == "-" else bytes.fromhex(h).decode("utf-8", "replace")


def run_ops(binpath, ops, workers=8, per_op=150):
    """one answer line per op, ops spread over `workers` processes.  The harness flushes every answer and
    ends itself after answering `timeout` for an op that exceeds its limit; a process that dies
    (logger.Fatal in the compiler = os.Exit) has answered every op before the fatal one, which gets
    'crash <stderr tail>'; the rest is resumed in a new process."""
    res = [None] * len(ops)

    def work(idxs):
        todo = list(idxs)
        while todo:
            try:
                p = subprocess.run([binpath], input="\n".join(ops[i] for i in todo) + "\n", stdout=subprocess.PIPE,
                                   stderr=subprocess.PIPE, text=True, timeout=300 + per_op * len(todo))
                out, err, rc = p.stdout, p.stderr, p.returncode
            except subprocess.TimeoutExpired as e:
                out = e.stdout.decode("utf-8", "replace") if isinstance(e.stdout, bytes) else (e.stdout or "")
                err, rc = "batch timeout", -9
            lines = out.splitlines()
            for i, l in zip(todo, lines):
                res[i] = "crash " + hx("per-op time limit exceeded") if l == "timeout" else l
            if len(lines) >= len(todo):
                return
            if not (lines and lines[-1] == "timeout"):
                bad = todo[len(lines)]
                res[bad] = "crash " + hx((err or "")[-300:].strip() or ("exit %d" % rc))
                todo = todo[len(lines) + 1:]
            else:
                todo = todo[len(lines):]
    chunks = [list(range(k, len(ops), workers)) for k in range(workers)]
    with cf.ThreadPoolExecutor(workers) as ex:
        list(ex.map(work, [c for c in chunks if c]))
    return res


# ------------------------------------------------------------------ per-keyword probes (hand-written pairs)
def F(body_wa, body_wz, pre_wa="", pre_wz=""):
    ind = lambda b: "".join("\t" + l + "\n" for l in b.strip("\n").split("\n"))
    return (pre_wa + "func main {\n" + ind(body_wa) + "}\n", pre_wz + "函数 主控:\n" + ind(body_wz) + "完毕\n")


PROBES = [
    ("kw:引入", F('println(len("a"))', '输出(长度("a"))', 'import "errors" => _\n\n', '引入 "errors" => _\n\n')),
    ("kw:常量:package", F("println(K)", "输出(K)", "const K = 3\n\n", "常量 K = 3\n\n")),
    ("kw:常量:group", F("println(A, B)", "输出(A, B)", "const (\n\tA = iota\n\tB\n)\n\n", "常量:\n\tA = 嘀嗒\n\tB\n完毕\n\n")),
    ("kw:常量:local", F("const k = 3\nprintln(k + 1)", "常量 k = 3\n输出(k + 1)")),
    ("kw:常量:local-typed", F("const k: i32 = 3\nprintln(k)", "常量 k: 普整型 = 3\n输出(k)")),
    ("kw:全局", F("println(g)", "输出(g)", "global g: int = 4\n\n", "全局 g: 整型 = 4\n\n")),
    ("kw:全局:group", F("println(g, h)", "输出(g, h)", "global (\n\tg: int = 4\n\th = \"x\"\n)\n\n", "全局:\n\tg: 整型 = 4\n\th = \"x\"\n完毕\n\n")),
    ("kw:函数", F("println(f(2))", "输出(f(2))", "func f(a: int) => int {\n\treturn a * 2\n}\n\n", "函数 f(a: 整型) => 整型:\n\t返回 a * 2\n完毕\n\n")),
    ("kw:函数:literal", F("f := func(a: int) => int {\n\treturn a + 1\n}\nprintln(f(1))", "f := 函数(a: 整型) => 整型:\n\t返回 a + 1\n完毕\n输出(f(1))")),
    ("kw:函数:type", F("f: func(a: int) => int\nif f == nil {\n\tprintln(1)\n}", "设定 f: 函数(a: 整型) => 整型\n如果 f == 空:\n\t输出(1)\n完毕")),
    ("kw:设定", F("x: int = 5\nprintln(x)", "设定 x: 整型 = 5\n输出(x)")),
    ("kw:设定:var-keyword", F("var x: int = 5\nprintln(x)", "设定 x: 整型 = 5\n输出(x)")),
    ("kw:设定:no-init", F("x: string\nprintln(len(x))", "设定 x: 字串\n输出(长度(x))")),
    ("kw:结构", F("p := P{x: 1}\nprintln(p.x)", "p := P{x: 1}\n输出(p·x)", "type P :struct {\n\tx: int\n}\n\n", "结构 P:\n\tx: 整型\n完毕\n\n")),
    ("kw:结构:method", F("p := P{x: 1}\np.inc()\nprintln(p.x)", "p := P{x: 1}\np.inc()\n输出(p.x)",
                       "type P :struct {\n\tx: int\n}\n\nfunc P.inc() {\n\tthis.x++\n}\n\n", "结构 P:\n\tx: 整型\n完毕\n\n函数 P.inc():\n\t我的.x++\n完毕\n\n")),
    ("kw:字典", F('m := map[string]int{"a": 1}\nprintln(m["a"])', 'm := 字典[字串]整型{"a": 1}\n输出(m["a"])')),
    ("kw:字典:make", F('m := make(map[int]int)\nm[1] = 2\nprintln(len(m))', 'm := 构建(字典[整型]整型)\nm[1] = 2\n输出(长度(m))')),
    ("kw:接口", F("s: I = &P{}\nprintln(s.v())", "设定 s: I = &P{}\n输出(s.v())",
                "type I :interface {\n\tv() => int\n}\n\ntype P :struct {\n\tx: int\n}\n\nfunc P.v() => int {\n\treturn 7\n}\n\n",
                "接口 I:\n\tv() => 整型\n完毕\n\n结构 P:\n\tx: 整型\n完毕\n\n函数 P.v() => 整型:\n\t返回 7\n完毕\n\n")),
    ("kw:如果", F("x := 1\nif x > 0 {\n\tprintln(1)\n}", "x := 1\n如果 x > 0:\n\t输出(1)\n完毕")),
    ("kw:或者否则", F("x := 1\nif x > 5 {\n\tprintln(1)\n} else if x > 0 {\n\tprintln(2)\n} else {\n\tprintln(3)\n}",
                  "x := 1\n如果 x > 5:\n\t输出(1)\n或者 x > 0:\n\t输出(2)\n否则:\n\t输出(3)\n完毕")),
    ("kw:找辙有辙没辙", F("x := 2\nswitch x {\ncase 1, 2:\n\tprintln(1)\ndefault:\n\tprintln(0)\n}", "x := 2\n找辙 x:\n有辙 1, 2:\n\t输出(1)\n没辙:\n\t输出(0)\n完毕")),
    ("kw:找辙:init", F("switch x := 2; x {\ncase 2:\n\tprintln(1)\n}", "找辙 x := 2; x:\n有辙 2:\n\t输出(1)\n完毕")),
    ("kw:找辙:type", F('x: any = "s"\nswitch v := x.(type) {\ncase int:\n\tprintln(v)\ncase string:\n\tprintln(v)\n}',
                     '设定 x: 皮囊 = "s"\n找辙 v := x.(类型):\n有辙 整型:\n\t输出(v)\n有辙 字串:\n\t输出(v)\n完毕')),
    ("kw:循环:3", F("for i := 0; i < 2; i++ {\n\tprintln(i)\n}", "循环 i := 0; i < 2; i++:\n\t输出(i)\n完毕")),
    ("kw:循环:cond", F("i := 0\nfor i < 2 {\n\ti++\n}\nprintln(i)", "i := 0\n循环 i < 2:\n\ti++\n完毕\n输出(i)")),
    ("kw:循环:forever", F("i := 0\nfor {\n\ti++\n\tif i > 2 {\n\t\tbreak\n\t}\n}\nprintln(i)", "i := 0\n循环:\n\ti++\n\t如果 i > 2:\n\t\t跳出\n\t完毕\n完毕\n输出(i)")),
    ("kw:迭代:int", F("for i := range 2 {\n\tprintln(i)\n}", "循环 i := 迭代 2:\n\t输出(i)\n完毕")),
    ("kw:迭代:slice", F("for i, v := range []int{4, 5} {\n\tprintln(i, v)\n}", "循环 i, v := 迭代 []整型{4, 5}:\n\t输出(i, v)\n完毕")),
    ("kw:迭代:string", F('for i, c := range "aé" {\n\tprintln(i, c)\n}', '循环 i, c := 迭代 "aé":\n\t输出(i, c)\n完毕')),
    ("kw:迭代:no-vars", F("n := 0\nfor range 3 {\n\tn++\n}\nprintln(n)", "n := 0\n循环 迭代 3:\n\tn++\n完毕\n输出(n)")),
    ("kw:继续跳出", F("for i := 0; i < 5; i++ {\n\tif i == 1 {\n\t\tcontinue\n\t}\n\tif i == 3 {\n\t\tbreak\n\t}\n\tprintln(i)\n}",
                  "循环 i := 0; i < 5; i++:\n\t如果 i == 1:\n\t\t继续\n\t完毕\n\t如果 i == 3:\n\t\t跳出\n\t完毕\n\t输出(i)\n完毕")),
    ("kw:押后", F('defer println("d")\nprintln("m")', '押后 输出("d")\n输出("m")')),
    ("kw:返回", F("println(f())", "输出(f())", "func f() => (int, string) {\n\treturn 1, \"a\"\n}\n\n", "函数 f() => (整型, 字串):\n\t返回 1, \"a\"\n完毕\n\n")),
    ("kw:区块完毕", F("{\n\tx := 1\n\tprintln(x)\n}", "区块:\n\tx := 1\n\t输出(x)\n完毕")),
    ("pre:builtins", F('s := make([]int, 2, 5)\ns = append(s, 7)\nt := make([]int, 1)\nn := copy(t, s)\nprintln(len(s), cap(s), n, t[0])\np := new(int)\n*p = 3\nprintln(*p)',
                     's := 构建([]整型, 2, 5)\ns = 追加(s, 7)\nt := 构建([]整型, 1)\nn := 拷贝(t, s)\n输出(长度(s), 容量(s), n, t[0])\np := 新建(整型)\n*p = 3\n输出(*p)')),
    ("pre:print-vs-println", F('print("a", 1)\nprint("b")\nprintln("c", 2)\nprintln("d")', '打印("a", 1)\n打印("b")\n输出("c", 2)\n输出("d")')),
    ("pre:types", F("c: i64 = 1 << 40\nd: u16 = 65535\ne: u32 = 7\nf: u64 = 9\ng: f32 = 1.5\nh: uint = 3\nr: rune = 'x'\nprintln(c, d, e, f, g, h, r, byte(65))",
                  "设定 c: 长整型 = 1 << 40\n设定 d: 短正整 = 65535\n设定 e: 普正整 = 7\n设定 f: 长正整 = 9\n设定 g: 单精 = 1.5\n设定 h: 正整 = 3\n设定 r: 符文 = 'x'\n输出(c, d, e, f, g, h, r, 字节(65))")),
    ("pre:nil-true-false", F("p: *int = nil\nb := true && !false\nif b && p == nil {\n\tprintln(1)\n}", "设定 p: *整型 = 空\nb := 真 && !假\n如果 b && p == 空:\n\t输出(1)\n完毕")),
    ("pre:panic", F('defer println("after")\npanic("boom")', '押后 输出("after")\n崩溃("boom")')),
    ("pre:complex", F("c := complex(1, 2)\nprintln(real(c), imag(c))", "c := 复数(1, 2)\n输出(实部(c), 虚部(c))")),
    ("pre:error", F('e: error = nil\nif e == nil {\n\tprintln(1)\n}', '设定 e: 错误 = 空\n如果 e == 空:\n\t输出(1)\n完毕')),
    ("pre:variadic", F("s := []int{1, 2}\ns = append(s, s...)\nprintln(sum(s...), sum(), sum(1, 2))", "s := []整型{1, 2}\ns = 追加(s, s...)\n输出(sum(s...), sum(), sum(1, 2))",
                     "func sum(xs: ...int) => int {\n\tn := 0\n\tfor _, x := range xs {\n\t\tn += x\n\t}\n\treturn n\n}\n\n",
                     "函数 sum(xs: ...整型) => 整型:\n\tn := 0\n\t循环 _, x := 迭代 xs:\n\t\tn += x\n\t完毕\n\t返回 n\n完毕\n\n")),
    ("shape:embedded-struct", F("c := C{}\nc.x = 4\nc.B.y = 5\nprintln(c.x, c.y, c.get())", "c := C{}\nc.x = 4\nc.B.y = 5\n输出(c.x, c.y, c.get())",
                              "type B :struct {\n\tx: int\n\ty: int\n}\n\nfunc B.get() => int {\n\treturn this.x + this.y\n}\n\ntype C :struct {\n\tB\n\tz: int\n}\n\n",
                              "结构 B:\n\tx: 整型\n\ty: 整型\n完毕\n\n函数 B.get() => 整型:\n\t返回 我的.x + 我的.y\n完毕\n\n结构 C:\n\tB\n\tz: 整型\n完毕\n\n")),
    ("shape:multi-var-array-slice3", F("a, b: int = 1, 2\narr: [4]int\narr[2] = a + b\nt := arr[1:3:4]\nprintln(len(t), cap(t), t[1])", "设定 a, b: 整型 = 1, 2\n设定 arr: [4]整型\narr[2] = a + b\nt := arr[1:3:4]\n输出(长度(t), 容量(t), t[1])")),
    ("shape:func-value-and-closure", F("n := 0\ninc := func() {\n\tn++\n}\ninc()\ninc()\nprintln(apply(dbl, n))", "n := 0\ninc := 函数():\n\tn++\n完毕\ninc()\ninc()\n输出(apply(dbl, n))",
                                     "func dbl(a: int) => int {\n\treturn a * 2\n}\n\nfunc apply(f: func(a: int) => int, v: int) => int {\n\treturn f(v)\n}\n\n",
                                     "函数 dbl(a: 整型) => 整型:\n\t返回 a * 2\n完毕\n\n函数 apply(f: 函数(a: 整型) => 整型, v: 整型) => 整型:\n\t返回 f(v)\n完毕\n\n")),
    ("shape:type-assert", F('x: any = 5\nn, ok := x.(int)\ns, ok2 := x.(string)\nif ok && !ok2 {\n\tprintln(n, len(s))\n}', '设定 x: 皮囊 = 5\nn, ok := x.(整型)\ns, ok2 := x.(字串)\n如果 ok && !ok2:\n\t输出(n, 长度(s))\n完毕')),
    ("shape:init-func", F("println(g)", "输出(g)", "global g: int\n\nfunc init {\n\tg = 9\n}\n\n", "全局 g: 整型\n\n函数 准备:\n\tg = 9\n完毕\n\n")),
    ("shape:error-method", F('e := &E{}\nerr: error = e\nprintln(err.Error())', 'e := &E{}\n设定 err: 错误 = e\n输出(err.报错信息())',
                            'type E :struct {\n\tc: int\n}\n\nfunc E.Error() => string {\n\treturn "E!"\n}\n\n', '结构 E:\n\tc: 整型\n完毕\n\n函数 E.报错信息() => 字串:\n\t返回 "E!"\n完毕\n\n')),
    ("sel:fullwidth", F("p := P{x: 3}\nprintln(p.x, p.get())", "p := P{x: 3}\n输出(p·x, p·get())",
                      "type P :struct {\n\tx: int\n}\n\nfunc P.get() => int {\n\treturn this.x\n}\n\n", "结构·P:\n\tx: 整型\n完毕\n\n函数·P·get() => 整型:\n\t返回 我的·x\n完毕\n\n")),
]
BOOL_PRINT = F("println(true, false)", "输出(真, 假)")


def zh_name_map(tabs):
    m = dict(tabs["ident_map"])
    for r in tabs["zh_rows"]:
        m.setdefault(r["text"], r["doc"])
    return sorted(m.items(), key=lambda kv: -len(kv[0]))


def norm_err(msg, zmap):
    """(line, message) of the first diagnostic, Chinese predeclared names / keywords mapped to English"""
    first = msg.strip().split("\n")[0]
    m = re.match(r"^(?:ERROR: )?[^:\s]*\.w[az]:(\d+):(\d+): (.*)$", first)
    line, text = (int(m.group(1)), m.group(3)) if m else (0, first)
    for z, e in zmap:
        text = text.replace(z, e)
    return line, text


def cause_of(text):
    """root-cause key of a diagnostic: literals and user identifiers removed"""
    t = re.sub(r'"[^"]*"', '"…"', text)
    t = re.sub(r"\b[a-zA-Z_]\w*\d+\b|\b\d+\b", "N", t)
    return t[:90]


def first_diff_node(a, b):
    """name of the innermost node open at the first differing atom"""
    stack = []
    for i, (x, y) in enumerate(zip(a, b)):
        if x != y:
            return (stack[-1] if stack else "?"), i
        if x == "(":
            stack.append(a[i + 1] if i + 1 < len(a) else "?")
        elif x == ")" and stack:
            stack.pop()
    return (stack[-1] if stack else "?"), min(len(a), len(b))


def run(ctx):
    h = ctx.build_harness("c09")
    # ---- 1. regenerate the tables from /repo
    gen_path = os.path.join(LEAN, "WaVerif", "Gen", "C09Tables.lean")
    if os.path.exists(gen_path):
        os.remove(gen_path)
    rc, out, err = ctx.run_bin(h, ["tables", REPO])
    if rc != 0 or not out.strip():
        raise RuntimeError("c09 tables failed: " + err[-2000:])
    doc = json.loads(out)
    tabs = c09_tables.write_lean(doc, gen_path)
    zmap = zh_name_map(tabs)
    # ---- 2. prove
    for oc in tabs["open_builtin_clauses"]:
        ctx.proof["broken"].append({"theorem": "builtin_name_clauses_closed", "why": "English and Chinese builtin names are not listed side by side: " + oc})
    ctx.prove(required=REQUIRED)
    model = ctx.build_model("c09")

    # ---- 3. table-level findings, each confirmed on the real code by a probe program below
    table_checks = []   # (key, what, wa src, wz src, expectation)
    for z, e in tabs["doc_mismatch"]:
        table_checks.append(("universe:documented-pair-denotes-other-object:%s=%s" % (z, e),
                             "const_wz.go documents %s as %s, but universe_wz.go gives %s another object than universe_wa.go gives %s "
                             "(builtin id / kind differs)" % (z, e, z, e)))
    for n in tabs["wzen_mismatch"]:
        table_checks.append(("universe:ascii-name-differs-in-wz:%s" % n,
                             "the ASCII predeclared name %s is defined differently (scope/object) in the Chinese universe than in the English one" % n))
    for z, e in tabs["documented_undefined"]:
        if z in ("断言", "跟踪", "设置终结函数"):
            continue        # test-only / runtime-package builtins, registered on demand in both languages
        table_checks.append(("universe:documented-name-undefined:%s=%s" % (z, e),
                             "const_wz.go (and waroot/src/太初) document %s as the Chinese name of %s but universe_wz.go does not define it" % (z, e)))

    # ---- 4. programs
    rng = ctx.rng
    quick = ctx.tier == "quick"
    n_prog = 30 if quick else 240
    n_ill = 1 if quick else 6           # well-typed base programs, each mutated by every ILL entry
    cases = []                           # dict(kind, key, wa, wz, features)
    for key, (wa, wz) in PROBES:
        cases.append({"kind": "probe", "key": key, "wa": wa, "wz": wz})
    for key, decls in R.builtin_matrix():        # every builtin x every argument kind, both syntaxes
        cases.append({"kind": "probe", "key": key, "wa": R.render(decls, "wa", random.Random(1)),
                      "wz": R.render(decls, "wz", random.Random(1))})
    cdir = os.path.join(os.path.dirname(os.path.dirname(os.path.abspath(__file__))), "corpus", "C09")
    if os.path.isdir(cdir):
        for fn in sorted(os.listdir(cdir)):
            if fn.endswith(".json"):
                c = json.load(open(os.path.join(cdir, fn)))
                cases.append({"kind": "corpus", "key": c.get("key", fn), "wa": c["wa"], "wz": c["wz"]})
    for i in range(n_prog):
        decls, feats = R.gen_program(random.Random(rng.getrandbits(32)), rng.choice([2, 3, 4]))
        cases.append({"kind": "gen", "key": "gen%d" % i, "features": feats,
                      "wa": R.render(decls, "wa", random.Random(i)),
                      "wz": R.render(decls, "wz", random.Random(i), variety=rng.choice([0.0, 0.3, 1.0]))})
    for i in range(n_ill):
        decls, feats = R.gen_program(random.Random(rng.getrandbits(32)), 1)
        for key, mut in R.ILL:
            d2 = mut(list(decls))
            cases.append({"kind": "ill", "key": "ill:" + key, "features": feats,
                          "wa": R.render(d2, "wa", random.Random(i)), "wz": R.render(d2, "wz", random.Random(i))})
    # table findings -> confirming programs
    confirm = {
        "Pointer": F("p: Pointer\nprintln(p == nil)", "设定 p: Pointer\n输出(p == 空)"),
        "单复": F("c: complex64 = complex(1, 2)\nprintln(real(c))", "设定 c: 单复 = 复数(1, 2)\n输出(实部(c))"),
        "双复": F("c: complex128 = complex(1, 2)\nprintln(real(c))", "设定 c: 双复 = 复数(1, 2)\n输出(实部(c))"),
    }
    for k, (wa, wz) in confirm.items():
        cases.append({"kind": "confirm", "key": "confirm:" + k, "wa": wa, "wz": wz})
    cases.append({"kind": "boolprint", "key": "bool-print", "wa": BOOL_PRINT[0], "wz": BOOL_PRINT[1]})

    ops = []
    for c in cases:
        ops += ["ast wa " + hx(c["wa"]), "ast wz " + hx(c["wz"]), "tc prog.wa " + hx(c["wa"]), "tc prog.wz " + hx(c["wz"])]
    hexed = lambda r: ("panic " + hx(r)) if r and r.startswith("PANIC") else r     # a recovered Go panic: keep the text, hex like the others
    res = [hexed(r) for r in run_ops(h, ops, workers=12)]
    for c, k in zip(cases, range(0, len(ops), 4)):
        c["ast"] = (res[k], res[k + 1])
        c["tc"] = (res[k + 2], res[k + 3])
    # run the pairs that both type-check (probes, generated, corpus)
    runops, runidx = [], []
    for i, c in enumerate(cases):
        if c["kind"] in ("probe", "gen", "corpus", "boolprint") and c["tc"][0] == "ok" and c["tc"][1] == "ok":
            runidx.append(i)
            runops += ["run prog.wa " + hx(c["wa"]), "run prog.wz " + hx(c["wz"])]
    rres = [hexed(r) for r in run_ops(h, runops, workers=12)]
    for j, i in enumerate(runidx):
        cases[i]["run"] = (rres[2 * j], rres[2 * j + 1])

    # ---- 5. the Lean model normalises the trees (the proved keyword / identifier map is the comparison relation)
    norm = {}
    if model:
        mops = ["props", "mismatch"]
        for c in cases:
            for r in c["ast"]:
                if r and r.startswith("ok "):
                    mops.append("norm " + r[3:])
        _, mout, _ = ctx.run_bin(model, input_text="\n".join(mops) + "\n", timeout=1200)
        ml = mout.splitlines()
        if len(ml) != len(mops):
            ctx.proof["broken"].append({"theorem": "wamodel_c09", "why": "model answered %d lines for %d ops" % (len(ml), len(mops))})
        else:
            # correspondence: the model's evaluation of the tables vs the generator's (python) evaluation
            want_props = "inj=true cover=true total=true lookup=true texts=true punct=true sel=true clauses=true bclauses=true uinj=true utotal=true uone=true"
            want_mis = "doc=%s backend=%s wzen=%s" % (",".join("%s/%s" % p for p in tabs["doc_mismatch"]),
                                                      ",".join("%s/%s" % p for p in tabs["backend_mismatch"]),
                                                      ",".join(tabs["wzen_mismatch"]))
            for i, op, a, b in ctx.diff_lines(["props", "mismatch"], [want_props, want_mis], ml[:2]):
                ctx.proof["broken"].append({"theorem": "correspondence C09 tables", "why": "op %r generator=%r model=%r" % (op, a, b)})
            for op, o in zip(mops[2:], ml[2:]):
                norm[op[5:]] = o
            ctx.corr["lines"] += len(mops) - 2

    # ---- 6. oracle on the real code
    dist = {"pairs": 0, "ast_equal": 0, "both_parse_error": 0, "tc_both_ok": 0, "tc_both_err_same_class": 0,
            "run_equal": 0, "run_both_fail_equal": 0}
    nontrivial = set()
    samples = []
    confirmed = {}
    for c in cases:
        dist["pairs"] += 1
        replay = {"key": c["key"], "wa": c["wa"], "wz": c["wz"], "features": c.get("features")}
        a_wa, a_wz = c["ast"]
        t_wa, t_wz = c["tc"]
        for nm, r in (("ast-wa", a_wa), ("ast-wz", a_wz), ("tc-wa", t_wa), ("tc-wz", t_wz)):
            if r is None or r.startswith(("panic", "crash", "bad-op")):
                txt = unhx(r.split()[1]) if r and len(r.split()) > 1 else str(r)
                ctx.violation("front-end-crash:%s:%s" % (nm, cause_of(txt)), "%s on %s: %s" % (nm, c["key"], txt[:300]), replay)
        if c["kind"] == "confirm":
            confirmed[c["key"][8:]] = (t_wa, t_wz)
            continue
        # (a) parse status and trees
        pa, pz = a_wa.startswith("ok "), a_wz.startswith("ok ")
        if pa != pz:
            side = "wz" if pa else "wa"
            msg = unhx((a_wz if pa else a_wa).split()[1]) if len((a_wz if pa else a_wa).split()) > 1 else ""
            ctx.violation("parse:%s-only-error:%s" % (side, cause_of(norm_err(msg, zmap)[1])),
                          "%s: only the .%s rendering has a syntax error: %s" % (c["key"], side, msg), replay)
        elif pa and model:
            na, nz = norm.get(a_wa[3:], "").split(), norm.get(a_wz[3:], "").split()
            if na == nz and na:
                dist["ast_equal"] += 1
            else:
                node, at = first_diff_node(na, nz)
                ctx.violation("ast-differs:" + node, "%s: the trees of the two parsers differ after the keyword/identifier map, first at atom %d inside %s: "
                              ".wa %s | .wz %s" % (c["key"], at, node, " ".join(na[at:at + 4]), " ".join(nz[at:at + 4])), replay)
        elif not pa:
            dist["both_parse_error"] += 1
            la, lz = norm_err(unhx(a_wa.split()[1]), zmap)[0], norm_err(unhx(a_wz.split()[1]), zmap)[0]
            if la != lz:
                ctx.violation("parse:error-line-differs", "%s: syntax error reported on line %d (.wa) vs %d (.wz)" % (c["key"], la, lz), replay)
        # (b) type check
        oa, oz = t_wa == "ok", t_wz == "ok"
        ea = norm_err(unhx(t_wa.split()[1]), zmap) if not oa and len(t_wa.split()) > 1 else None
        ez = norm_err(unhx(t_wz.split()[1]), zmap) if not oz and len(t_wz.split()) > 1 else None
        if oa != oz:
            side = "wz" if oa else "wa"
            e = ez if oa else ea
            ctx.violation("typecheck:%s-only-error:%s" % (side, cause_of(e[1]) if e else "?"),
                          "%s: LoadProgramFile accepts the .%s rendering and rejects the .%s one: %s" % (
                              c["key"], "wa" if oa else "wz", side, unhx((t_wz if oa else t_wa).split()[1]).strip()[:300]), replay)
        elif oa:
            dist["tc_both_ok"] += 1
        else:
            if not pa and not pz and ea and ez and ea[0] == ez[0]:
                # both are syntax errors on the same line: the message names the next token, which is
                # spelled differently in the two languages
                dist["tc_both_err_same_class"] += 1
            elif ea == ez:
                dist["tc_both_err_same_class"] += 1
            elif ea and ez and ea[0] == ez[0] and cause_of(ea[1]) == cause_of(ez[1]):
                dist["tc_both_err_same_class"] += 1
            else:
                ctx.violation("typecheck:diagnostic-differs:%s" % cause_of((ea or (0, "?"))[1]),
                              "%s: different diagnostics: .wa line %s %r | .wz line %s %r" % (c["key"], ea and ea[0], ea and ea[1], ez and ez[0], ez and ez[1]), replay)
            if c["kind"] in ("gen", "probe") and ea:
                pass
        if c["kind"] == "ill" and oa and oz:
            ctx.notes.append("ill-typed variant %s is accepted by both front ends" % c["key"])
        # (c) run
        if "run" in c:
            ra, rz = c["run"]
            if c["kind"] == "boolprint":
                wa_out, wz_out = unhx(ra.split()[1]) if len(ra.split()) > 1 else "", unhx(rz.split()[1]) if len(rz.split()) > 1 else ""
                c["localised"] = (wa_out, wz_out)
                if wz_out.replace("真", "true").replace("假", "false") != wa_out:
                    ctx.violation("run:bool-print-not-a-pure-localisation", "println(true,false): %r vs %r" % (wa_out, wz_out), replay)
                continue
            sa, sz = ra.split()[0], rz.split()[0]
            outa = ra.split()[1] if len(ra.split()) > 1 else "-"
            outz = rz.split()[1] if len(rz.split()) > 1 else "-"
            if sa == "ok" and sz == "ok" and outa == outz:
                dist["run_equal"] += 1
            elif sa == sz and sa == "err" and norm_run_err(unhx(outa)) == norm_run_err(unhx(outz)):
                dist["run_both_fail_equal"] += 1
            else:
                ctx.violation("run:output-differs" if sa == sz else "run:status-differs",
                              "%s: run results differ: .wa %s %r | .wz %s %r" % (c["key"], sa, unhx(outa)[-200:], sz, unhx(outz)[-200:]), replay)
            nontrivial.add((c["kind"], tuple(c.get("features") or [c["key"]]), len(unhx(outa))))
        else:
            nontrivial.add((c["kind"], c["key"], t_wa[:3], (ea or (0, ""))[1][:40]))
        if len(samples) < 10 and c["kind"] in ("gen", "ill"):
            samples.append({"key": c["key"], "features": c.get("features"), "tc": [t_wa[:60], t_wz[:60]],
                            "out_hex": (c.get("run") or ("", ""))[0][:80], "wz_head": c["wz"][:160]})

    # table findings, confirmed by their programs
    for key, what in table_checks:
        name = key.split(":")[2].split("=")[0]
        ev = ""
        if name in confirmed:
            ev = "; on the real code: .wa %s | .wz %s" % tuple(
                (("ok" if r == "ok" else unhx(r.split()[1]).strip()[:120]) if r and r.split()[0] in ("ok", "err") else str(r)[:80]) for r in confirmed[name])
        elif name in ("输出", "打印"):
            pc = [c for c in cases if c["key"] == "pre:print-vs-println"]
            if pc and "run" in pc[0]:
                ev = ("; on the real code `%s(\"c\", 2)` ends the line (behaves as println) although its builtin id is that of %s"
                      % (name, "print" if name == "输出" else "println")) if name == "输出" else \
                     "; on the real code `打印(\"a\", 1)` does not end the line (behaves as print) although its builtin id is that of println"
        ctx.violation(key, what + ev, {"table_key": key, "evidence": ev})

    cov = {
        "evaluations": len(ops) + len(runops),
        "distinct_nontrivial": len(nontrivial),
        "rule": "one case = one program AST rendered to .wa and .wz: %d per-keyword/predeclared probes + %d builtin x argument-kind programs, %d generated well-typed programs, "
                "%d deliberately ill-typed/ill-formed variants (%d kinds); each case: both parsers' trees compared after the Lean normaliser, "
                "LoadProgramFile verdict + diagnostic class (line, message with Chinese names mapped), RunCode output bytes; "
                "distinct_nontrivial = distinct (kind, feature set | key, outcome) classes" % (
                    len(PROBES), len(R.builtin_matrix()), n_prog, n_ill * len(R.ILL), len(R.ILL)),
        "samples": samples,
        "distribution": dist,
        "tables": {"zh_keywords": len(tabs["zh_rows"]), "en_keywords": len(tabs["en"]), "wz_chinese_names": len(tabs["tabs"]["wzZh"]),
                   "wa_english_names": len(tabs["tabs"]["waEn"]), "doc_pairs": len(tabs["doc_pairs"]),
                   "backend_pairs": len(tabs["backend_pairs"]), "consumer_clauses": len(tabs["clauses"]),
                   "k_name_clauses": len(tabs["k_clauses"]), "builtin_pairs": len(tabs["builtin_pairs"]),
                   "punct_rows": len(doc["punct"])},
        "english_synonyms_per_chinese_name": "int32/i32, float64/f64, ... : English has several names per basic kind; the bijection is onto objects",
        "english_objects_without_chinese_name": tabs["english_without_chinese"],
        "english_only_clauses_on_decl_tokens": [c["where"] + " " + "/".join(c["tokens"]) for c in doc["en_only_clauses"]],
        "bool_print_localisation": [c.get("localised") for c in cases if c["kind"] == "boolprint"],
        "features_covered": sorted({f for c in cases for f in (c.get("features") or [])}),
    }
    return ctx.finish("exploration", cov,
                      assumptions=["gen/c09_render.py renders the same program in both syntaxes (same line structure)",
                                   "diagnostic class = (line, first message with Chinese predeclared names and keywords mapped to English, literals removed)",
                                   "bool values print localised (true/false vs 真/假) by design"],
                      trusted_base=["harness/c09 + harness/astdump (dumps the real parsers' trees, runs api.LoadProgramFile / api.RunCode)",
                                    "extract/c09_tables.py (interns names/descriptors; the kernel re-evaluates its verdicts)"])


def norm_run_err(s):
    return re.sub(r"prog\.w[az]", "prog", re.sub(r"prog\.w[az]:\d+:\d+", "prog:L:C", s))
