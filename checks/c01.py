"""C01 — Compiled Wa programs compute what the equivalent Go program computes."""
import concurrent.futures as cf, os, re, shutil, subprocess
from lib import vlib
from lib.vlib import boundary_ints, GOENV
from extract import c01_rows

PROP = "C01"
META = {
    "category": "translation_validation",
    "text": "Core proved, rest validated per program. Proved in Lean for ALL operand values: every row of the operator / conversion table that the "
            "real emitter (wir.EmitBinOp/EmitUnOp/EmitGenConvert) produces — regenerated from /repo on every run — computes Go's result "
            "(253 rows: arithmetic, bitwise, comparisons, mixed-width shifts under the count guard, unary ops, int conversions); the rows compose: a compiled straight-line SSA block of any length (rows with operand registers substituted + local.set) computes the source-level evaluation of the block (block_correct); and the "
            "full-strength statements that fail (shift count >= register width, MinInt/-1) are proved false with witnesses that the check replays "
            "on the real compiler. Everything else in the pipeline is validated by single-source differential execution: the same .wa.go text "
            "runs through api.RunCode and through `go run`; an operand grid over every table row, and generated whole programs.",
    "note": "Trusted: Lean kernel + bv_decide's native axioms (SAT certificates checked by compiled Lean code) for the row identities; hand-written Go and "
            "WebAssembly integer specs (Base/GoInt.lean, Base/WasmNum.lean) validated against the Go compiler and wazero by the grid run; the row extractor. "
            "Modelled-not-verified: type checker, SSA construction, local allocation, aggregates/strings/maps/interfaces code generation, runtime library, "
            "all floating point — covered only by differential execution of generated programs.",
    "technique": "Lean 4 proof per regenerated emit-table row (simp + bv_decide) + single-source differential execution Wa vs Go",
}
BV_AX = [r".*\._native\.bv_decide\.ax_.*", r"Lean\.ofReduceBool", r"Lean\.trustCompiler"]

GOT = {"u8": "uint8", "u16": "uint16", "i32": "int32", "u32": "uint32", "i64": "int64", "u64": "uint64", "rune": "rune", "bool": "bool"}
BITS = {"u8": 8, "u16": 16, "i32": 32, "u32": 32, "i64": 64, "u64": 64, "rune": 32}
SIGNED = {"i32", "i64", "rune"}
OPSYM = {"add": "+", "sub": "-", "mul": "*", "quo": "/", "rem": "%", "and": "&", "or": "|", "xor": "^", "andnot": "&^",
         "eql": "==", "ne": "!=", "lt": "<", "gt": ">", "le": "<=", "ge": ">=", "shl": "<<", "shr": ">>"}


def rng_of(t):
    b = BITS[t]
    return (-(1 << (b - 1)), (1 << (b - 1)) - 1) if t in SIGNED else (0, (1 << b) - 1)


def grid(t, rng, n):
    lo, hi = rng_of(t)
    vals = [0, 1, 2, hi, hi - 1, lo, lo + 1, (lo + hi) // 2, -1 if lo < 0 else hi // 3, 7, 100]
    vals = [v for v in vals if lo <= v <= hi]
    pool = boundary_ints(BITS[t], t in SIGNED)
    vals += [rng.choice(pool) for _ in range(n)] + [rng.randint(lo, hi) for _ in range(n)]
    out = []
    for v in vals:
        if v not in out:
            out.append(v)
    return out


def lit(t, v):
    """a Go expression of type t with value v, never an out-of-range constant"""
    if t == "bool":
        return "true" if v else "false"
    if t in SIGNED and v == rng_of(t)[0]:
        return "%s(%d - 1)" % (GOT[t], v + 1)
    return "%s(%d)" % (GOT[t], v)


def reg(t):
    return 32 if BITS.get(t, 32) <= 32 else 64


def row_cases(name, req, rng, n):
    """(x, y, stream) triples for one row; stream: safe | skip-go-panic | probe:<key>"""
    kind, op, tx, ty = req
    cases = []
    if kind == "bin" and op in ("shl", "shr"):
        lim = reg(tx)
        for x in grid(tx, rng, n)[:10]:
            for c in sorted(set([0, 1, 7, 8, 15, 16, 31, lim - 1] + [rng.randrange(0, lim) for _ in range(3)])):
                if c <= rng_of(ty)[1] and c < lim:
                    cases.append((x, c, "safe"))
        return cases
    if kind == "bin":
        xs, ys = grid(tx, rng, n), grid(ty, rng, n)
        lim = 8 if n <= 2 else 14
        for x in xs[:lim]:
            for y in ys[:lim]:
                if op in ("quo", "rem") and y == 0:
                    continue
                if op in ("quo", "rem") and tx in SIGNED and x == rng_of(tx)[0] and y == -1 and op == "quo":
                    continue
                cases.append((x, y, "safe"))
        return cases
    if tx == "bool":
        return [(0, None, "safe"), (1, None, "safe")]
    for x in grid(tx, rng, n * 2):
        cases.append((x, None, "safe"))
    return cases


def fn_src(name, req, ret):
    kind, op, tx, ty = req
    if kind == "bin":
        rt = "bool" if op in ("eql", "ne", "lt", "gt", "le", "ge") else GOT[tx]
        return "func f_%s(x %s, y %s) %s { return x %s y }" % (name, GOT[tx], GOT[ty], rt, OPSYM[op])
    if kind == "un":
        sym = {"sub": "-", "xor": "^", "not": "!"}[op]
        return "func f_%s(x %s) %s { return %sx }" % (name, GOT[tx], GOT[tx], sym)
    return "func f_%s(x %s) %s { return %s(x) }" % (name, GOT[tx], GOT[ty], GOT[ty])


def ret_type(req):
    kind, op, tx, ty = req
    if kind == "bin":
        return "bool" if op in ("eql", "ne", "lt", "gt", "le", "ge") else tx
    if kind == "un":
        return tx
    return ty


def call_src(name, req, x, y):
    kind, op, tx, ty = req
    rt = ret_type(req)
    args = lit(tx, x) if y is None else "%s, %s" % (lit(tx, x), lit(ty, y))
    e = "f_%s(%s)" % (name, args)
    if rt == "rune":
        e = "int64(%s)" % e
    return "\tprintln(%s)" % e


def to_unsigned(rt, printed):
    if rt == "bool":
        return {"true": 1, "false": 0}.get(printed)
    try:
        v = int(printed)
    except ValueError:
        return None
    return v % (1 << reg(rt))


def run_both(ctx, warun, src, tag):
    """returns (wa_status, wa_lines, go_status, go_lines)"""
    d = os.path.join(ctx.tmp, tag)
    os.makedirs(d, exist_ok=True)
    with open(os.path.join(d, "main.go"), "w") as f:
        f.write(src)
    wf = os.path.join(d, "prog.wa.go")
    with open(wf, "w") as f:
        f.write(src)
    try:
        p = subprocess.run([warun, "run", wf], stdout=subprocess.PIPE, stderr=subprocess.PIPE, text=True, timeout=300)
        wst, wout = ("ok" if p.returncode == 0 else "err:%d" % p.returncode), p.stdout
        if p.returncode != 0:
            wout += "\n" + p.stderr
    except subprocess.TimeoutExpired:
        wst, wout = "timeout", ""
    env = dict(GOENV, GOFLAGS="-mod=mod", GO111MODULE="off", GOCACHE=os.environ.get("GOCACHE", os.path.expanduser("~/.cache/go-build")))
    try:
        p = vlib.go_run(d, env, 300)
        gst, gout = ("ok" if p.returncode == 0 else "err:%d" % p.returncode), (p.stderr if p.returncode == 0 else p.stderr)
        # println writes to stderr in Go
    except subprocess.TimeoutExpired:
        gst, gout = "timeout", ""
    return wst, wout.splitlines(), gst, gout.splitlines()


def probes():
    """the recorded Wa-vs-Go divergences (gen/findings.py, kind D = genuine defect) as labelled probe programs;
    each is replayed on the real compiler every run: still present -> violation keyed finding:<name> (listed in
    known_findings.json or repaired), gone -> nothing."""
    from gen import findings
    out = []
    for f in findings.FINDINGS:
        if f["kind"] != "D":
            continue
        key = {"probe:shift_ge_width": "shift-count-ge-width", "probe:minint_div_neg1": "quo-minint-by-minus1"}.get(
            f["probe"], "finding:" + f["probe"].replace("probe:", ""))
        out.append((key, f["title"], f["program"]))
    return out


def replay(ctx, warun):
    import json
    r = json.load(open(ctx.replay))["replay"]
    src = r.get("program")
    if src is None and "source" in r:
        src = "package main\n\n%s\n\nfunc main() {\n%s\n}\n" % (r["source"], "\tprintln(f_%s(%s))" % (
            r["row"], ", ".join(str(v) for v in (r["x"], r["y"]) if v is not None)))
    if not src.lstrip().startswith("package"):
        src = "package main\n\n" + src
    wst, wl, gst, gl = run_both(ctx, warun, src, "replay")
    print("replay program:\n%s\nWa (%s): %s\nGo (%s): %s" % (src, wst, wl, gst, gl))
    return 0 if (wst == "ok" and [l.strip() for l in wl] == [l.strip() for l in gl]) else 1


def run(ctx):
    tabbin = ctx.build_harness("c01tab")
    warun = ctx.build_harness("warun")
    if ctx.replay:
        return replay(ctx, warun)
    # 1. regenerate the emit table from the real emitter
    rows = c01_rows.emit_rows(ctx, tabbin)
    gen_path = os.path.join(vlib.LEAN, "WaVerif", "Gen", "C01Rows.lean")
    names = c01_rows.write_lean(rows, gen_path)
    expected = set(re.findall(r"theorem (\w+)_ok", open(os.path.join(vlib.LEAN, "WaVerif", "Props", "C01Rows.lean")).read()))
    if set(names) != expected:
        ctx.proof["broken"].append({"theorem": "emit-table row set", "why": "rows emitted by the compiler differ from the rows the theorems cover: missing=%s new=%s" % (
            sorted(expected - set(names))[:8], sorted(set(names) - expected)[:8])})
    ctx.phase('rows-regenerated')
    # 2. proofs over the regenerated table
    ctx.prove("WaVerif.Props.C01Rows", allow_extra_axioms=BV_AX)
    ctx.prove("WaVerif.Props.C01", required=["shl_i32_count_ge_32_wrong", "shr_i32_count_ge_32_wrong", "shl_i64_count_ge_64_wrong",
                                              "shr_u8_count_ge_32_wrong", "quo_i32_minint_wrong"], allow_extra_axioms=BV_AX)
    ctx.phase('proved')
    ctx.prove("WaVerif.Props.C01SSA", required=["block_correct", "exec_rename", "rows_use_only_01", "block_add_mul_u8"], allow_extra_axioms=BV_AX)
    model = ctx.build_model("c01")
    ctx.phase('model-built')
    # 3. operand grid over every row: Wa vs Go vs Lean
    n = 2 if ctx.tier == "quick" else 8
    byname = {r["name"]: r for r in rows if "rejected" not in r}
    work = []          # (name, req, x, y)
    for nm in names:
        for (x, y, st) in row_cases(nm, byname[nm]["req"], ctx.rng, n):
            work.append((nm, byname[nm]["req"], x, y))
    nchunks = 16
    chunks = [work[i::nchunks] for i in range(nchunks)]
    progs = []
    for ci, ch in enumerate(chunks):
        used = []
        for w in ch:
            if w[0] not in used:
                used.append(w[0])
        src = "package main\n\n" + "\n".join(fn_src(nm, byname[nm]["req"], None) for nm in used) + "\n\nfunc main() {\n" + \
              "\n".join(call_src(nm, req, x, y) for nm, req, x, y in ch) + "\n}\n"
        progs.append(src)
    with cf.ThreadPoolExecutor(16) as ex:
        results = list(ex.map(lambda a: run_both(ctx, warun, a[1], "grid%d" % a[0]), enumerate(progs)))
    dist = {"rows": len(names), "grid_cases": len(work), "wa_go_mismatch": 0, "wa_lean_mismatch": 0, "programs": 0, "program_mismatch": 0}
    lean_ops, lean_expect = [], []
    nontrivial = set()
    samples = []
    for ci, (ch, (wst, wl, gst, gl)) in enumerate(zip(chunks, results)):
        if gst != "ok":
            raise vlib.InfraError("go run of grid chunk %d failed: %s" % (ci, "\n".join(gl)[-2000:]))
        if wst != "ok" or len(wl) != len(ch):
            # whole chunk failed under Wa: find the first failing case by bisecting is expensive; report the chunk
            ctx.violation("grid:wa-run-failed", "operator grid program fails under Wa (%s) but runs under Go" % wst,
                          {"program": progs[ci], "wa_status": wst, "wa_output_tail": wl[-5:]})
            continue
        for (nm, req, x, y), a, b in zip(ch, wl, gl):
            rt = ret_type(req)
            nontrivial.add((nm, (x == 0, x < 0, x.bit_length()), None if y is None else (y == 0, y < 0, y.bit_length())))
            if a.strip() != b.strip():
                dist["wa_go_mismatch"] += 1
                ctx.violation("row:%s" % nm, "%s(%s, %s): Wa prints %s, Go prints %s" % (nm, x, y, a.strip(), b.strip()),
                              {"row": nm, "x": x, "y": y, "wa": a.strip(), "go": b.strip(), "source": fn_src(nm, req, None)})
            u = to_unsigned(rt, a.strip())
            kind, op, tx, ty = req
            lean_ops.append("row %s %d %d %d %d" % (nm, reg(tx), x % (1 << reg(tx)), reg(ty) if y is not None else 32,
                                                    (y % (1 << reg(ty))) if y is not None else 0))
            lean_expect.append("i%d %s" % (32 if rt == "bool" else reg(rt), u))
        if len(samples) < 6:
            samples.append({"row": ch[0][0], "x": ch[0][2], "y": ch[0][3], "wa": wl[0], "go": gl[0]})
    if model and lean_ops:
        _, mo, _ = ctx.run_bin(model, input_text="\n".join(lean_ops) + "\n")
        diffs = ctx.diff_lines(lean_ops, lean_expect, mo.splitlines())
        dist["wa_lean_mismatch"] = len(diffs)
        for i, op, a, b in diffs[:10]:
            ctx.proof["broken"].append({"theorem": "correspondence: regenerated row + WasmNum semantics vs real execution",
                                        "why": "%s: real Wa run gives %s, Lean model gives %s" % (op, a, b)})
    ctx.phase('grid-done')
    # 4. the Lean witnesses of the false full-strength statements, replayed on the real compiler
    PROBES = probes()
    with cf.ThreadPoolExecutor(16) as ex:
        pres_probe = list(ex.map(lambda a: run_both(ctx, warun, a[2], "probe_" + re.sub(r"\W+", "_", a[0])), PROBES))
    for (key, what, body), (wst, wl, gst, gl) in zip(PROBES, pres_probe):
        if gst != "ok":
            raise vlib.InfraError("go run of probe %s failed: %s" % (key, gl))
        if wst != "ok" or [l.strip() for l in wl] != [l.strip() for l in gl]:
            ctx.violation(key, "%s — Wa: %s %s; Go: %s" % (what, wst, " ".join(l.strip() for l in wl)[:200], " ".join(l.strip() for l in gl)),
                          {"program": body, "wa_status": wst, "wa": wl, "go": gl})
        else:
            # the defect is gone but the theorem about the regenerated row still says it is there: inconsistent
            ctx.notes.append("probe %s now agrees with Go" % key)
    # 4b. hand-written feature programs (corpus/C01/*.go): single source, valid Go and WaGo, every run, both tiers
    import glob as _glob
    feats = sorted(_glob.glob(os.path.join(vlib.VERIF, "corpus", "C01", "*.go")))
    with cf.ThreadPoolExecutor(16) as ex:
        fres = list(ex.map(lambda f: run_both(ctx, warun, open(f).read(), "feat_" + re.sub(r"\W+", "_", os.path.basename(f))), feats))
    dist["feature_programs"] = len(feats)
    for f, (wst, wl, gst, gl) in zip(feats, fres):
        nm = os.path.basename(f)[:-3]
        if gst != "ok":
            raise vlib.InfraError("go run of corpus/C01/%s.go failed: %s" % (nm, gl[:3]))
        if wst != "ok" or [l.rstrip() for l in wl] != [l.rstrip() for l in gl]:
            first = next((i for i, (u, v) in enumerate(zip(wl, gl)) if u.rstrip() != v.rstrip()), min(len(wl), len(gl)))
            ctx.violation("feature:" + nm, "feature program corpus/C01/%s.go: Wa (%s) differs from Go at output line %d: %s vs %s" % (
                nm, wst, first, " | ".join(l.strip() for l in wl[first:first + 3])[:160], " | ".join(l.strip() for l in gl[first:first + 3])[:160]),
                {"program": open(f).read(), "wa_status": wst, "wa": wl[:first + 4], "go": gl[:first + 4]})
    ctx.phase('probes-done')
    # 5. whole programs from the shared generator (single source, both ways)
    try:
        from gen import progs as genprogs
    except Exception as e:          # generator not available yet
        genprogs = None
        ctx.notes.append("shared program generator not available: %r" % (e,))
    feat = {}
    # enumerated matrices (gen/matrix.py, gen/matrix2.py): a slice in quick, everything in thorough
    from gen import matrix, matrix2
    mprogs = matrix.all_programs() + matrix2.all_programs()
    if ctx.tier == "quick":
        off = ctx.seed % 12
        mprogs = mprogs[off::12]

    def mone(a):
        i, (k, src) = a
        return k, src, run_both(ctx, warun, src, "mx%d" % i)
    with cf.ThreadPoolExecutor(16) as ex:
        mres = list(ex.map(mone, enumerate(mprogs)))
    ctx.phase('matrix-done')
    dist["matrix_programs"] = len(mres)
    dist["matrix_mismatch"] = 0
    for k, src, (wst, wl, gst, gl) in mres:
        if gst != "ok":
            continue
        if wst != "ok" or [l.rstrip() for l in wl] != [l.rstrip() for l in gl]:
            dist["matrix_mismatch"] += 1
            werr = " ".join(wl)
            if k[0] in ("methodmix", "methodval") or k[1] in ("methodmix", "methodval") or (k[0] == "I" and "cannot convert" in werr):
                mkey = "finding:value_receiver"          # the cell uses a value-receiver method by construction
            elif "expected identifier" in werr and (k[0] in ("sl", "arr") or "[]" in src):
                mkey = "finding:field_slice_syntax"      # `name []T` / `name [N]T` parameter or field
            elif k[0] == "arr" and k[1] in ("box", "mapval"):
                mkey = "finding:array_eq map_array_key"
            else:
                mkey = "matrix:%s/%s" % k
            ctx.violation(mkey, "feature-matrix program %s/%s: Wa (%s) %s vs Go %s" % (k[0], k[1], wst, " | ".join(l.strip() for l in wl)[:160], " | ".join(l.strip() for l in gl)[:160]),
                          {"program": src, "wa_status": wst, "wa": wl[:8], "go": gl[:8]})
    if genprogs is not None:
        count = 24 if ctx.tier == "quick" else 600
        plist = []
        for i in range(count):
            size = ["small", "medium", "large"][i % 3] if ctx.tier == "thorough" else ["small", "medium"][i % 2]
            plist.append(genprogs.gen_program(ctx.rng, size=size, stream="safe"))

        def one(a):
            i, p = a
            return run_both(ctx, warun, p.render_go(), "prog%d" % i)
        with cf.ThreadPoolExecutor(16) as ex:
            pres = list(ex.map(one, enumerate(plist)))
        for p, (wst, wl, gst, gl) in zip(plist, pres):
            dist["programs"] += 1
            for ft in sorted(p.features):
                feat[ft] = feat.get(ft, 0) + 1
            if gst != "ok":
                ctx.notes.append("generator produced a program Go rejects/panics on (ignored): %s" % " ".join(gl)[:200])
                continue
            if wst != "ok" or [l.rstrip() for l in wl] != [l.rstrip() for l in gl]:
                dist["program_mismatch"] += 1
                def still_fails(q):
                    a, b, c, d = run_both(ctx, warun, q.render_go(), "shrink")
                    return c == "ok" and (a != "ok" or [l.rstrip() for l in b] != [l.rstrip() for l in d])
                try:
                    small = genprogs.shrink(p, still_fails)
                except Exception:
                    small = p
                a, b, c, d = run_both(ctx, warun, small.render_go(), "shrunk")
                first = next((i for i, (u, v) in enumerate(zip(b, d)) if u.rstrip() != v.rstrip()), min(len(b), len(d)))
                key = "program:" + (getattr(genprogs, "classify", lambda *_: "unclassified")(small, a, b, d))
                ctx.violation(key, "generated program differs (Wa %s vs Go) at output line %d" % (a, first),
                              {"program": small.render_go(), "wa_status": a, "wa": b[:first + 3], "go": d[:first + 3]})
    ctx.phase('programs-done')
    cov = {
        "programs": dist["programs"] + len(progs) + len(PROBES),
        "disagreements_checked": dist["wa_go_mismatch"] + dist["program_mismatch"],
        "samples": samples,
        "evaluations": len(work) + dist["programs"],
        "distinct_nontrivial": len(nontrivial),
        "rule": "grid: every emit-table row x boundary-biased operand pairs (distinct = (row, operand class) pairs); programs: shared type-directed generator, safe stream",
        "distribution": dist, "feature_counts": feat,
    }
    return ctx.finish("translation_validation", cov,
                      assumptions=["Go's own compiler/runtime is the reference for the single-source programs",
                                   "int/uint arithmetic in generated programs stays within 32 bits (Wa int is 32-bit)"],
                      trusted_base=["bv_decide native axioms on row identities", "extract/c01_rows.py (prints the emitter's own Format output as Lean terms)",
                                    "Base/GoInt.lean and Base/WasmNum.lean specifications"])
