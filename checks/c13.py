"""C13 — Runtime maps behave as finite maps under every operation history."""
import concurrent.futures as cf, json, os, re, shutil, struct, subprocess
from lib import vlib
from lib.vlib import GOENV

PROP = "C13"
META = {
    "category": "exploration",
    "text": "Proved core + generated search. Proved in Lean for every operation history of any length: the specification model of a Wa map "
            "(association list in slot order: append on insert, swap-with-last on delete — the order of mapImp.nodes) agrees with the mathematical "
            "finite map K -> Option V on lookups / comma-ok, its length is the number of present keys, a range visits each present key exactly once "
            "with its current value. Proved about the executable transcription of waroot/src/runtime/map.wa (pointer store, red-black tree + slot "
            "array): search/Lookup is correct on every store that represents a BST; a rotation at ANY node preserves a whole-tree invariant (representation, "
            "distinct nodes, parent indices, slot indices) and the in-order sequence, hence so do both fix-up loops insertFixup and deleteFixup for any fuel; "
            "the allocation + descent + linking step of insert yields the BST insertion; Delete's slot bookkeeping refines the spec's swap-with-last delete for every "
            "tree shape; for a node with at most one child the unlinking step of delete removes exactly that key (lookups = finite-map delete); the full "
            "refinement statement for delete is proved FALSE of the pinned code on a concrete witness (two-child node) which the check replays on the real runtime. What ties the real runtime to the "
            "models is a correspondence run: generated single-source programs (long random histories for int, int64, uint32, uint8, string, float64, "
            "bool, struct, pointer and interface keys; and for every ELEMENT type that compiles — ints, string, bool, float64, struct, pointer, interface, error, "
            "slice, nested map, func — a fixed history that stores the element type's ZERO value, overwrites non-zero with zero and back, then comma-ok / "
            "lookup / len / range / delete) run under Wa, under Go's native map and through the Lean transcription (exact iteration order), "
            "with the property itself evaluated on Wa's output against a Python dict. NOT proved: red-black colour/black-height balance, and the end-to-end "
            "composition update/delete = spec step on the store level (the pieces above are proved separately); these are MONITORED: a decidable predicate "
            "(BST order, parent/child and slot consistency, colours, black height, slot list = spec state) is evaluated by the model driver after every "
            "operation of every generated history.",
    "note": "Trusted: Lean kernel; the hand transcription Model/C13RB.lean (tied to map.wa only by the correspondence run, which is differential "
            "testing, not proof); the mapping of Wa keys to ranks under runtime.Compare computed in checks/c13.py (validated by the exact-order "
            "comparison); Go's native map and the Python dict as oracles. Modelled-not-verified: the compiler side (value_map.go boxing of keys and "
            "values into interfaces, reference counting), runtime.Compare's per-type comparison functions, mutation of a map during its own range loop.",
    "technique": "Lean 4 proof over spec model and over a store-level transcription of map.wa + single-source differential execution Wa/Go/Lean + dict oracle",
}
REQUIRED = ["lookup_agrees", "len_eq_card", "range_visits_each_once", "keys_nodup",
            "search_correct_of_BST", "rotate_preserves_inorder", "rotate_right_preserves_inorder", "insert_path_refines_spec",
            "rotation_anywhere_preserves_invariant", "insertFixup_preserves_inorder", "deleteFixup_preserves_inorder",
            "delete_slots_refine", "delete_refines_spec_partial", "delete_refines_spec_false", "witness_pinned_behaviour", "witness_fixed_behaviour"]

HEX = "0123456789abcdef"
VS = ["v%d" % i if i % 3 else "w" * (i % 7 + 1) + str(i) for i in range(61)]     # string values (all non-empty)


# ----------------------------------------------------------------------------- key universes
class Kind:
    """a key type with a finite universe K[0..n-1] of Go/Wa expressions.
    eq[i]   : python value identifying the key under Go's == (the mathematical key)
    rk[i]   : python sort key under Wa's runtime.Compare (None: unknown until the WAT has been read)"""

    def __init__(self, name, ktype, decls, init, eq, rk, vtype="int"):
        self.name, self.ktype, self.decls, self.init, self.eq, self.rk, self.vtype = name, ktype, decls, init, eq, rk, vtype
        self.n = len(eq)
        first = {}
        self.canon = []
        for i, e in enumerate(eq):
            first.setdefault(e, i)
            self.canon.append(first[e])
        self.rank = None
        if rk is not None:
            self.set_ranks(rk)

    def set_ranks(self, rk):
        order = sorted(set(rk))
        pos = {r: i for i, r in enumerate(order)}
        self.rank = [pos[r] for r in rk]
        self.idx_of_rank = {}
        for i, r in enumerate(self.rank):
            self.idx_of_rank.setdefault(r, self.canon[i])
        # equality under Go and under Compare must coincide on a regular universe
        assert all((self.rank[i] == self.rank[j]) == (self.canon[i] == self.canon[j])
                   for i in range(self.n) for j in (self.canon[i], 0, self.n - 1)), self.name

    elem = None      # element-type description (ELEMS) when the map's element type is under test

    def setval(self, o, i):
        """abstract value stored by op `o` at program index i: the op index (int / string elements), or the index
        into the value table VV of an element kind ('z' stores VV[0], the ZERO value of the element type)"""
        if self.elem:
            return 0 if o == "z" else 1 + i % (self.elem["nv"] - 1)
        return i

    def val(self, vi):
        if self.elem:
            return str(vi)
        return str(vi) if self.vtype == "int" else VS[vi % len(VS)]

    def zero(self):
        return "0" if self.vtype == "int" or self.elem else ""


def golit_int(v, t):
    lo = {"int": -(1 << 31), "int64": -(1 << 63)}.get(t)
    if lo is not None and v == lo:
        return "%s(%d - 1)" % (t, v + 1)
    return "%s(%d)" % (t, v)


def gostr(b):
    """Go string literal for bytes b"""
    out = ['"']
    for c in b:
        if 32 <= c < 127 and c not in (34, 92):
            out.append(chr(c))
        else:
            out.append("\\x%02x" % c)
    return "".join(out) + '"'


def int_pool(rng, n, bits, signed):
    lo, hi = (-(1 << (bits - 1)), (1 << (bits - 1)) - 1) if signed else (0, (1 << bits) - 1)
    pool = [v for v in vlib.boundary_ints(bits, signed)]
    rng.shuffle(pool)
    vals = [lo, hi, 0, 1] + pool[: n // 3]
    base = rng.randint(lo // 2, hi // 2)
    vals += [min(hi, max(lo, base + d)) for d in range(n // 3)]          # a dense run (deep paths)
    while len(vals) < n:
        vals.append(rng.randint(lo, hi))
    out = []
    for v in vals:
        if v not in out:
            out.append(v)
    return out[:n]


STRS = [b"", b"a", b"aa", b"ab", b"b", b"a\x00", b"\x00", b"\xc3\xa9", b"\xc3\xa8", b"e", b"\xe6\x97\xa5\xe6\x9c\xac", b"\xe6\x97\xa5",
        b"\xf0\x9f\x98\x80", b"\xef\xbf\xbd", b"\x7f", b"A", b"Z", b"z", b"zz", b" ", b"key", b"key0", b"key00", b"kez"]
FLTS = [0.25, -0.25, 1.0, -1.0, 0.1, 0.2, 0.30000000000000004, 0.3, 1e300, -1e300, 1e-300, -1e-300, 2.5, 1.5, 3.0, 1e15, 1e15 + 1, 123456.789,
        4294967296.0, -2147483648.0, 0.5, 2.0 ** -40, 1.7976931348623157e308, 2.2250738585072014e-308]


def rand_str(rng):
    alpha = [b"a", b"b", b"k", b"0", b"\xc3\xa9", b"\xe6\x97\xa5", b"_"]
    return b"".join(rng.choice(alpha) for _ in range(rng.randint(1, 9)))


def fbits(x):
    return struct.unpack("<Q", struct.pack("<d", x))[0]


def make_kind(name, rng, n):
    if name in ("int", "int64", "uint32", "uint8", "intstr"):
        t = {"intstr": "int"}.get(name, name)
        bits, signed = {"int": (32, True), "int64": (64, True), "uint32": (32, False), "uint8": (8, False)}[t]
        n = min(n, 200) if t == "uint8" else n
        vals = int_pool(rng, n, bits, signed)
        init = ["K[%d] = %s" % (i, golit_int(v, t)) for i, v in enumerate(vals)]
        # a few repeated keys: two table entries denoting the same key
        for j in range(min(4, len(vals) // 8)):
            vals.append(vals[j * 3])
            init.append("K[%d] = K[%d]" % (len(vals) - 1, j * 3))
        return Kind(name, t, "", init, list(vals), list(vals), vtype="string" if name == "intstr" else "int")
    if name == "seq":                       # identity universe for the corpus histories
        vals = list(range(n))
        return Kind(name, "int", "", ["for i := 0; i < len(K); i++ {\n\t\tK[i] = i\n\t}"], vals, vals)
    if name == "string":
        vals = list(STRS)
        while len(vals) < n:
            s = rand_str(rng)
            if s not in vals:
                vals.append(s)
            if len(vals) < n and rng.random() < 0.3:                    # proper prefixes / extensions
                e = s + rng.choice([b"a", b"\x00", b"\xc3\xa9"])
                if e not in vals:
                    vals.append(e)
        vals = vals[:n]
        init = ["K[%d] = %s" % (i, gostr(v)) for i, v in enumerate(vals)]
        vals.append(vals[5]); init.append("K[%d] = K[5] + \"\"" % (len(vals) - 1))
        return Kind(name, "string", "", init, list(vals), list(vals))
    if name == "float64":
        vals = list(FLTS)
        while len(vals) < n - 4:
            c = rng.random()
            v = (rng.randint(-4000, 4000) / 8.0) if c < 0.6 else rng.uniform(-1e6, 1e6) if c < 0.8 else rng.choice(FLTS) * rng.choice([3.0, 7.0, 0.5])
            if v not in vals and v == v and abs(v) != float("inf") and v != 0:
                vals.append(v)
        init = ["K[%d] = %r" % (i, v) for i, v in enumerate(vals)]
        b = len(vals)
        init += ["fz := K[%d] - K[%d]" % (0, 0), "K[%d] = 1 / fz" % b, "K[%d] = -1 / fz" % (b + 1), "K[%d] = fz" % (b + 2), "K[%d] = -fz" % (b + 3)]
        vals += [float("inf"), float("-inf"), 0.0, -0.0]
        return Kind(name, "float64", "", init, list(vals), list(vals))       # python: -0.0 == 0.0, same hash
    if name == "bool":
        return Kind(name, "bool", "", ["K[0] = false", "K[1] = true", "K[2] = !K[1]"], [False, True, False], [0, 1, 0])
    if name == "struct":
        vals = []
        while len(vals) < n:
            v = (rng.choice([0, 1, -1, 2, rng.randint(-50, 50)]), rng.choice(STRS[:12] + [rand_str(rng)]), rng.choice([0.0, 0.5, -1.5, 2.0, 1e300]))
            if v not in vals:
                vals.append(v)
        init = ["K[%d] = SK{%d, %s, %r}" % (i, a, gostr(b), c) for i, (a, b, c) in enumerate(vals)]
        vals.append(vals[2]); init.append("K[%d] = K[2]" % (len(vals) - 1))
        return Kind(name, "SK", "type SK struct {\n\ta int\n\tb string\n\tc float64\n}\n", init, list(vals), list(vals))
    if name == "pointer":
        perm = list(range(n))
        rng.shuffle(perm)                    # K[i] = &PA[perm[i]]: address order differs from table order
        init = ["K[%d] = &PA[%d]" % (i, p) for i, p in enumerate(perm)]
        perm.append(perm[1]); init.append("K[%d] = K[1]" % (len(perm) - 1))
        return Kind(name, "*PT", "type PT struct {\n\tv int\n\tw int\n}\n\nvar PA [%d]PT\n" % n, init, list(perm), list(perm))
    if name == "iface":
        eq, init, cls = [], [], []
        def add(e, c, expr):
            if e not in eq:
                eq.append(e); cls.append(c); init.append("K[%d] = %s" % (len(eq) - 1, expr))
        add(("nil", 0), ("ref", 0), "nil")
        npt = max(4, n // 8)
        for j in rng.sample(range(npt), npt):
            add(("*PT", j), ("ref", j + 1), "&PA[%d]" % j)
        while len(eq) < n:
            c = rng.randrange(7)
            small = rng.choice([0, 1, 2, 3, -1, 5, 100, rng.randint(-1000, 1000)])
            if c == 0:
                add(("int", small), ("i32", small), "int(%d)" % small)
            elif c == 1:
                v = rng.choice([small, small + (1 << 40), -(1 << 62)])
                add(("int64", v), ("i64", v), "int64(%d)" % v)
            elif c == 2:
                add(("uint8", small % 256), ("u8", small % 256), "uint8(%d)" % (small % 256))
            elif c == 3:
                s = rng.choice(STRS + [rand_str(rng)])
                add(("string", s), ("string", s), gostr(s))
            elif c == 4:
                v = rng.choice(FLTS + [float(small), small / 4.0])
                add(("float64", v), ("f64", v), "float64(%r)" % v)
            elif c == 5:
                v = rng.random() < 0.5
                add(("bool", v), ("bool", int(v)), "true" if v else "false")
            else:
                v = (small % 5, rng.choice(STRS[:6]), rng.choice([0.0, 0.5]))
                add(("SK", v), ("__main__.SK", v), "SK{%d, %s, %r}" % (v[0], gostr(v[1]), v[2]))
        eq.append(eq[3]); cls.append(cls[3]); init.append("K[%d] = K[3]" % (len(eq) - 1))
        k = Kind(name, "interface{}", "type SK struct {\n\ta int\n\tb string\n\tc float64\n}\n\ntype PT struct {\n\tv int\n\tw int\n}\n\nvar PA [%d]PT\n" % npt,
                 init, eq, None)
        k.cls = cls
        return k
    raise ValueError(name)



# ----------------------------------------------------------------------------- element types
# `@` is replaced by a per-section suffix so that several sections fit in one program.
# VV@[0] is never assigned: it is the ZERO value of the element type; VV@[1..] are pairwise distinct non-zero-table
# entries (some of them "zero-like": 0 / "" / false boxed in an interface, an empty non-nil slice).
# vid@(v) names a value by its index in VV@ (that is what the program prints).
_CMP = "\tfor i := 0; i < len(VV@); i++ {\n\t\tif VV@[i] == v {\n\t\t\treturn i\n\t\t}\n\t}\n\treturn -1\n"
ELEMS = {
    "int": dict(vt="int", decls="", init=["VV@[%d] = %d" % (i, i * 7 - 9) for i in range(1, 6)], vid=_CMP),
    "int64": dict(vt="int64", decls="", init=["VV@[%d] = %d" % (i, (1 << 40) * (i - 3) + i) for i in range(1, 6)], vid=_CMP),
    "uint8": dict(vt="uint8", decls="", init=["VV@[%d] = %d" % (i, 255 - i) for i in range(1, 6)], vid=_CMP),
    "string": dict(vt="string", decls="", init=["VV@[1] = \"a\"", "VV@[2] = \"\\x00\"", "VV@[3] = \"zz\"", "VV@[4] = \" \"", "VV@[5] = \"0\""], vid=_CMP),
    "bool": dict(vt="bool", decls="", init=["VV@[1] = true"], vid=_CMP, nv=2),
    "float64": dict(vt="float64", decls="", init=["VV@[1] = 0.5", "VV@[2] = 1e300", "VV@[3] = -2.5", "VV@[4] = 1", "VV@[5] = -1e-300"], vid=_CMP),
    "struct": dict(vt="SV@", decls="type SV@ struct {\n\ta int\n\tb string\n\tp *PT@\n}\n\ntype PT@ struct {\n\tv int\n}\n\nvar PV@ [6]PT@\n",
                   init=["VV@[1] = SV@{1, \"\", nil}", "VV@[2] = SV@{0, \"x\", nil}", "VV@[3] = SV@{0, \"\", &PV@[0]}", "VV@[4] = SV@{2, \"y\", &PV@[1]}",
                         "VV@[5] = SV@{-1, \"\", nil}"], vid=_CMP),
    "pointer": dict(vt="*PT@", decls="type PT@ struct {\n\tv int\n}\n\nvar PV@ [6]PT@\n", init=["VV@[%d] = &PV@[%d]" % (i, i) for i in range(1, 6)], vid=_CMP),
    "iface": dict(vt="interface{}", decls="type PT@ struct {\n\tv int\n}\n\nvar PV@ [6]PT@\n",
                  init=["VV@[1] = 0", "VV@[2] = \"\"", "VV@[3] = false", "VV@[4] = &PV@[0]", "VV@[5] = 7"], vid=_CMP),
    "error": dict(vt="error", decls="type ER@ struct {\n\tc int\n}\n\nfunc (e *ER@) Error() string {\n\treturn \"e\"\n}\n\nvar EV@ [6]ER@\n",
                  init=["VV@[%d] = &EV@[%d]" % (i, i) for i in range(1, 6)], vid=_CMP),
    "slice": dict(vt="VT@", decls="type VT@ []int\n", init=["VV@[%d] = make(VT@, %d)" % (i, i - 1) for i in range(1, 6)],
                  vid="\tif v == nil {\n\t\treturn 0\n\t}\n\treturn len(v) + 1\n"),
    "map": dict(vt="VT@", decls="type VT@ map[int]int\n", init=["VV@[%d] = make(VT@)" % i for i in range(1, 6)] +
                ["VV@[%d][%d] = 1" % (i, j) for i in range(1, 6) for j in range(i)], vid="\treturn len(v)\n"),
    "func": dict(vt="func() int", decls="".join("func fn%d@() int {\n\treturn %d\n}\n\n" % (i, i) for i in range(1, 6)),
                 init=["VV@[%d] = fn%d@" % (i, i) for i in range(1, 6)], vid="\tif v == nil {\n\t\treturn 0\n\t}\n\treturn v()\n"),
    # (array element types are left out: `map[int][2]int` does not compile — logger.Fatal in wir/value_struct.go emitCompare,
    #  a compiler limitation outside the map runtime)
}


def make_elem_kind(ename, rng, keys="int"):
    """map[<keys>]<element type ename>: a small key universe, values from the table VV (VV[0] = zero value)"""
    base = make_kind(keys, rng, 40)
    k = Kind("elem-%s%s" % (ename, "" if keys == "int" else "-" + keys), base.ktype, base.decls, base.init, base.eq, base.rk, vtype="elem")
    k.elem = dict(ELEMS[ename])
    k.elem.setdefault("nv", 6)
    k.elem["name"] = ename
    return k


def elem_history(kind, rng, nrand):
    """deterministic part: store the ZERO value, overwrite non-zero with zero and zero with non-zero, then comma-ok /
    plain lookup / len / range / delete around each; then a random tail in which a third of the stores are zero stores"""
    ks = list(range(0, 12))
    ops = []
    for rep, (a, b, c, d) in enumerate([(ks[0], ks[1], ks[2], ks[3]), (ks[7], ks[5], ks[6], ks[4])]):
        ops += [("z", a), ("c", a), ("g", a), ("l", 0), ("r", 0),                 # zero stored under a new key
                ("s", b), ("c", b), ("z", b), ("c", b), ("g", b), ("l", 0), ("r", 0),   # non-zero overwritten with zero
                ("z", c), ("s", c), ("c", c), ("z", c), ("z", c), ("c", c), ("l", 0),   # zero -> non-zero -> zero -> zero
                ("c", d), ("g", d),                                               # absent key
                ("d", a), ("c", a), ("l", 0), ("r", 0),                           # delete a key holding zero
                ("d", a), ("z", a), ("c", a), ("d", b), ("c", b), ("l", 0), ("r", 0)]
        if rep == 0:
            ops += [("z", k) for k in ks[4:10]] + [("c", k) for k in ks[4:10]] + [("r", 0)] + [("d", k) for k in ks[4:10:2]] + [("c", k) for k in ks[4:10]]
    present = set()
    for _ in range(nrand):
        r = rng.random()
        k = rng.randrange(kind.n)
        if r < 0.2:
            ops.append(("z", k))
        elif r < 0.45:
            ops.append(("s", k))
        elif r < 0.6:
            ops.append(("d", k))
        elif r < 0.9:
            ops.append((rng.choice("cg"), k))
        elif r < 0.95:
            ops.append(("l", 0))
        else:
            ops.append(("r", 0))
    return ops


def iface_ranks(kind, wat):
    """runtime.Compare orders interface values by the `comp` table index of their dynamic type first
    (0 for references and nil, then compared by address); read the indices from the program's WAT."""
    comp = {"ref": 0}
    for m in re.finditer(r"\(elem \(i32\.const (\d+)\) \$\$(.+?)\.\$\$compAddr\)", wat):
        comp[m.group(2)] = int(m.group(1))
    need = {c for c, _ in kind.cls}
    if not need <= set(comp):
        return "comp table entries not found for %s (have %s)" % (sorted(need - set(comp)), sorted(comp))
    kind.set_ranks([(comp[c], v) for c, v in kind.cls])
    return None


# ----------------------------------------------------------------------------- program text
HX = "func hx(c byte) int {\n\tif c >= '0' && c <= '9' {\n\t\treturn int(c - '0')\n\t}\n\treturn int(c-'a') + 10\n}\n"


def section(kind, opstr, sfx=""):
    """declarations + `func run<sfx>()` executing the history `opstr` on a fresh map of this kind"""
    e = kind.elem
    if e:
        vt, val, zval, pr = e["vt"], "VV@[1+i%%%d]" % (e["nv"] - 1), "VV@[0]", "vid@(%s)"
    elif kind.vtype == "int":
        vt, val, zval, pr = "int", "i", "0", "%s"
    else:
        vt, val, zval, pr = "string", "VS@[i%%%d]" % len(VS), "\"\"", "%s"
    src = [kind.decls.replace("PA", "PA@").replace("SK", "SK@").replace("PT", "PT@") if sfx else kind.decls]
    init = [l.replace("PA", "PA@").replace("SK", "SK@").replace("K[", "K@[").replace("len(K)", "len(K@)") for l in kind.init]
    src += ["var K@ [%d]%s" % (kind.n, kind.ktype.replace("SK", "SK@").replace("PT", "PT@") if sfx else kind.ktype), ""]
    if e:
        src += [e["decls"], "var VV@ [%d]%s" % (e["nv"], vt), "", "func vid@(v %s) int {" % vt, e["vid"] + "}", ""]
        init = init + e["init"]
    elif vt == "string":
        src += ["var VS@ [%d]string" % len(VS), ""]
        init = init + ["VS@[%d] = %s" % (i, gostr(v.encode())) for i, v in enumerate(VS)]
    kt = kind.ktype.replace("SK", "SK@").replace("PT", "PT@") if sfx else kind.ktype
    src += ["func initK@() {"] + ["\t" + l for l in init] + ["}", "",
            "func kid@(k %s) int {" % kt, "\tfor i := 0; i < len(K@); i++ {", "\t\tif K@[i] == k {", "\t\t\treturn i", "\t\t}", "\t}", "\treturn -1", "}", "",
            "func run@() {", "\tinitK@()"]
    # the history is data: op letter + 3 hex digits of the key index
    chunks = [opstr[i:i + 4000] for i in range(0, len(opstr), 4000)] or [""]
    src += ["\tops := \"\""] + ["\tops += \"%s\"" % c for c in chunks]
    src += ["""	m := make(map[%(kt)s]%(vt)s)
	n := len(ops) / 4
	for i := 0; i < n; i++ {
		c := ops[i*4]
		ki := hx(ops[i*4+1])*256 + hx(ops[i*4+2])*16 + hx(ops[i*4+3])
		if c == 's' {
			m[K@[ki]] = %(val)s
			println(len(m))
		} else if c == 'z' {
			m[K@[ki]] = %(zval)s
			println(len(m))
		} else if c == 'g' {
			println(%(prg)s)
		} else if c == 'c' {
			v, ok := m[K@[ki]]
			println(%(prv)s, ok)
		} else if c == 'd' {
			delete(m, K@[ki])
			println(len(m))
		} else if c == 'l' {
			println(len(m))
		} else if c == 'r' {
			println("R")
			for k, v := range m {
				println(kid@(k), %(prv)s)
			}
			println("E")
		} else if c == 'n' {
			m = make(map[%(kt)s]%(vt)s)
			println("N")
		}
	}
}
""" % {"kt": kt, "vt": vt, "val": val, "zval": zval, "prg": pr % "m[K@[ki]]", "prv": pr % "v"}]
    return "\n".join(src).replace("@", sfx)


def program(kind, opstr):
    return "package main\n\n" + section(kind, opstr) + "\n" + HX + "\nfunc main() {\n\trun()\n}\n"


def bundle_program(sections):
    """several sections in one program; the output of section i follows the marker line `P<i>`"""
    body = "".join("\tprintln(\"P%d\")\n\trun_%d()\n" % (i, i) for i in range(len(sections)))
    return "package main\n\n" + "\n".join(sections) + "\n" + HX + "\nfunc main() {\n" + body + "}\n"


def enc(ops):
    return "".join("%s%03x" % (o, k) for o, k in ops)


# ----------------------------------------------------------------------------- histories
def gen_history(rng, kind, nops, style):
    """ops over key indices; a python dict biases the choice towards present / absent keys.
    styles: 'churn' (mixed), 'asc'/'desc' (monotone inserts then deletes: long rotation chains),
    'drain' (fill, then delete everything in random order)."""
    n = kind.n
    ops, present = [], {}
    order = sorted(range(n), key=lambda i: kind.rank[i]) if kind.rank else list(range(n))

    def put(i):
        ops.append(("s", i)); present[kind.canon[i]] = 1

    def rem(i):
        ops.append(("d", i)); present.pop(kind.canon[i], None)

    def look():
        i = rng.choice(list(present)) if present and rng.random() < 0.6 else rng.randrange(n)
        ops.append((rng.choice("gc"), i))

    if style in ("asc", "desc"):
        seq = order if style == "asc" else order[::-1]
        seq = seq[: max(8, min(len(seq), nops // 4))]
        for j, i in enumerate(seq):
            put(i)
            if j % 7 == 0:
                look()
        ops.append(("r", 0))
        dseq = list(seq)
        m = rng.randrange(3)
        if m == 1:
            dseq.reverse()
        elif m == 2:
            rng.shuffle(dseq)
        for j, i in enumerate(dseq):
            rem(i)
            if j % 5 == 0:
                look()
            if j % 40 == 0:
                ops.append(("r", 0))
    elif style == "drain":
        fill = rng.sample(range(n), min(n, max(4, nops // 4)))
        for i in fill:
            put(i)
        ops.append(("r", 0))
        rng.shuffle(fill)
        for j, i in enumerate(fill):
            rem(i)
            look()
            if j % 50 == 0:
                ops.append(("r", 0))
    target = rng.choice([4, 12, 40, min(n, 150), n])
    while len(ops) < nops:
        r = rng.random()
        size = len(present)
        pins = 0.45 if size < target else 0.2
        if r < pins:
            put(rng.randrange(n))                                         # new or overwrite
        elif r < pins + 0.08 and present:
            put(rng.choice(list(present)))                                # overwrite
        elif r < pins + 0.08 + (0.2 if size < target else 0.42):
            rem(rng.choice(list(present)) if present and rng.random() < 0.85 else rng.randrange(n))
        elif r < 0.93:
            look()
        elif r < 0.97:
            ops.append(("l", 0))
        elif size < 80 or rng.random() < 0.2:
            ops.append(("r", 0))
        if rng.random() < 0.002:
            target = rng.choice([0, 4, 12, 40, min(n, 150), n])
    return ops[:nops]


def final_sweep(kind, ops):
    """observe everything the history touched: len, range, comma-ok of every touched key"""
    touched = []
    for o, k in ops:
        if o in "szdgc" and kind.canon[k] not in touched:
            touched.append(kind.canon[k])
    return [("l", 0), ("r", 0)] + [("c", k) for k in touched[:300]]


# ----------------------------------------------------------------------------- observations
def expected(kind, ops, base):
    """expected observation per op from a python dict (finite map).  base = index of ops[0] in the program (values are op indices)"""
    d, out = {}, []
    for j, (o, k) in enumerate(ops):
        c = kind.canon[k]
        if o in "sz":
            d[c] = kind.setval(o, base + j); out.append(("n", len(d)))
        elif o == "d":
            d.pop(c, None); out.append(("n", len(d)))
        elif o == "l":
            out.append(("n", len(d)))
        elif o == "g":
            out.append(("v", kind.val(d[c]) if c in d else kind.zero()))
        elif o == "c":
            out.append(("vo", kind.val(d[c]) if c in d else kind.zero(), "true" if c in d else "false"))
        elif o == "r":
            out.append(("r", sorted((q, kind.val(v)) for q, v in d.items())))
        elif o == "n":
            d = {}; out.append(("N",))
    return out


def parse_output(kind, ops, lines):
    """program output -> one observation per op (None from the point where the output stops making sense)"""
    out, p = [], 0
    for o, k in ops:
        if p >= len(lines):
            out.append(None); continue
        try:
            l = lines[p]
            if o in "szdl":
                out.append(("n", int(l))); p += 1
            elif o == "g":
                out.append(("v", l)); p += 1
            elif o == "c":
                v, _, ok = l.rpartition(" ")
                if ok not in ("true", "false"):
                    raise ValueError
                out.append(("vo", v, ok)); p += 1
            elif o == "n":
                if l != "N":
                    raise ValueError
                out.append(("N",)); p += 1
            elif o == "r":
                if l != "R":
                    raise ValueError
                p += 1
                ent = []
                while p < len(lines) and lines[p] != "E":
                    a, _, b = lines[p].partition(" ")
                    ent.append((int(a), b)); p += 1
                if p >= len(lines):
                    out.append(None); continue
                p += 1
                out.append(("r", ent))
        except ValueError:
            out.append(None)
            p = len(lines)
    return out


def norm(ob):
    """order-insensitive form of an observation"""
    if ob and ob[0] == "r":
        return ("r", sorted(ob[1]))
    return ob


# ----------------------------------------------------------------------------- the Lean mirror
def mirror_run(ctx, model, kind, ops, base, variant, safe=False):
    """run a history (starting from a fresh map) through wamodel_c13.
    returns (obs per op [None once the model stops], info per op: dict(two=bool, check=str, skipped=bool))"""
    lines, tags = ["new " + variant], [("new", -1)]
    for j, (o, k) in enumerate(ops):
        r = kind.rank[k]
        if o in "sz":
            lines.append("set %d %d" % (r, kind.setval(o, base + j))); tags.append(("op", j))
            lines.append("check"); tags.append(("check", j))
        elif o == "d":
            lines.append("shape %d" % r); tags.append(("shape", j))
            lines.append(("sdel %d" if safe else "del %d") % r); tags.append(("op", j))
            lines.append("check"); tags.append(("check", j))
        elif o in "gc":
            lines.append("get %d" % r); tags.append(("op", j))
        elif o == "l":
            lines.append("len"); tags.append(("op", j))
        elif o == "r":
            lines.append("range"); tags.append(("op", j))
        elif o == "n":
            lines.append("new " + variant); tags.append(("op", j))
    rc, out, err = ctx.run_bin(model, input_text="\n".join(lines) + "\n", timeout=900)
    res = out.splitlines()
    if len(res) != len(lines):
        raise vlib.InfraError("wamodel_c13: %d output lines for %d input lines: %s" % (len(res), len(lines), err[-500:]))
    obs = [None] * len(ops)
    info = [dict(two=False, check="", skipped=False) for _ in ops]
    for (t, j), l in zip(tags, res):
        if t == "shape":
            info[j]["two"] = l == "2"
        elif t == "check":
            info[j]["check"] = l
        elif t == "op":
            o, k = ops[j]
            if l == "stop":
                obs[j] = None
            elif l == "skip":
                info[j]["skipped"] = True; obs[j] = ("skip",)
            elif o in "szdl":
                obs[j] = ("n", int(l))
            elif o in "gc":
                v, _, ok = l.partition(" ")
                v = kind.val(int(v)) if ok == "true" else kind.zero()
                obs[j] = ("v", v) if o == "g" else ("vo", v, ok)
            elif o == "r":
                ent = [] if l == "-" else [tuple(int(x) for x in e.split(":")) for e in l.split()]
                obs[j] = ("r", [(kind.idx_of_rank[a], kind.val(b)) for a, b in ent])
            elif o == "n":
                obs[j] = ("N",)
    return obs, info


# ----------------------------------------------------------------------------- running programs
def run_wa(warun, path, timeout):
    try:
        p = subprocess.run([warun, "run", path], stdout=subprocess.PIPE, stderr=subprocess.PIPE, text=True, timeout=timeout)
        return ("ok" if p.returncode == 0 else "err:%d" % p.returncode), p.stdout.splitlines(), p.stderr[-400:]
    except subprocess.TimeoutExpired as e:
        o = e.stdout.decode("utf8", "replace") if isinstance(e.stdout, bytes) else (e.stdout or "")
        return "timeout", o.splitlines(), ""


def run_go(d, timeout):
    env = dict(GOENV, GOFLAGS="-mod=mod", GO111MODULE="off", GOCACHE=os.environ.get("GOCACHE", os.path.expanduser("~/.cache/go-build")))
    try:
        p = vlib.go_run(d, env, timeout)
        lines = p.stderr.splitlines()                      # println writes to stderr under Go
        if p.returncode != 0:
            return "err:%d" % p.returncode, lines, p.stderr[-400:]
        return "ok", lines, ""
    except subprocess.TimeoutExpired:
        return "timeout", [], ""


def wa_wat(warun, path):
    p = subprocess.run([warun, "wat", path], stdout=subprocess.PIPE, stderr=subprocess.PIPE, text=True, timeout=300)
    return p.stdout if p.returncode == 0 else ""


def source_variant():
    """which `delete` the runtime under test contains (selects the transcription the mirror runs)"""
    src = open(os.path.join(vlib.REPO, "waroot", "src", "runtime", "map.wa")).read()
    m = re.search(r"func mapImp\.delete\(.*?\n}\n", src, re.S)
    body = m.group(0) if m else ""
    if re.search(r"if y != z \{\s*z = y\s*\}", body):
        return "pinned"
    if re.search(r"if y != z \{\s*z\.Key = y\.Key\s*z\.Val = y\.Val\s*\}", body):
        return "fixed"
    return "unknown"


# ----------------------------------------------------------------------------- defect probes (key classes where Compare != Go's ==)
def probe_kinds():
    ks = []
    vals = [b"\xff", b"\xfe", b"a\xffb", b"a\xfeb", b"\xc3", b"\xe6\x97", b"\xef\xbf\xbd", b"ok", b"\x80", b"\xc0\x80"]
    k = Kind("badstr", "string", "", ["K[%d] = %s" % (i, gostr(v)) for i, v in enumerate(vals)], list(vals), None)
    k.vkey, k.vwhat = "compare:string-invalid-utf8", (
        "string keys that are not valid UTF-8 collide: $wa.runtime.string_Comp (runtime/string.wa) compares decoded runes, every invalid byte decodes "
        "to U+FFFD, so \"\\xff\" and \"\\xfe\" are the same map key (m[\"\\xff\"]=1; m[\"\\xfe\"]=2 gives len 1, m[\"\\xff\"]==2) although \"\\xff\" != \"\\xfe\"")
    ks.append(k)
    decl = "type PT struct {\n\tv int\n}\n\ntype PU struct {\n\tv int\n}\n\nvar PA [2]PT\nvar PB [2]PU\nvar NP *PT\nvar NU *PU\n"
    init = ["K[0] = nil", "K[1] = NP", "K[2] = NU", "K[3] = &PA[0]", "K[4] = &PA[0].v", "K[5] = &PB[1]", "K[6] = 0"]
    eq = ["nil", "nil*PT", "nil*PU", "&PA0", "&PA0.v", "&PB1", "int0"]
    k = Kind("nilptr", "interface{}", decl, init, eq, None)
    k.vkey, k.vwhat = "compare:iface-pointer-type-ignored", (
        "interface keys holding pointers are compared by address only (runtime.Compare, comp==0 branch): the nil interface, (*T)(nil) and (*U)(nil) "
        "are one key (mi[nil]=1; mi[(*T)(nil)]=2; mi[(*U)(nil)]=3 gives len 1), and &s / &s.firstField collide; Go keeps them distinct")
    ks.append(k)
    return ks


# ----------------------------------------------------------------------------- one program = one kind + several histories
class Prog:
    def __init__(self, tag, kind, hists, cls):
        # cls (one letter per history): 'A' long, two-child deletes filtered out on the pinned runtime / 'B' short, unfiltered / 'P' probe
        self.tag, self.kind, self.hists, self.cls = tag, kind, hists, cls if len(cls) == len(hists) else cls * len(hists)
        self.mobs, self.minfo = [], []
        self.t_wa = self.t_go = 0.0


class Unit:
    """one source file: a single Prog, or a bundle of Progs (sections run_0, run_1, ... separated by marker lines)"""

    def __init__(self, tag, progs):
        self.tag, self.progs = tag, progs


def prepare_ops(ctx, model, warun, prog, variant):
    """fix the ranks (iface), adapt the histories to the variant (needs the model only on the pinned runtime), lay out the program"""
    kind = prog.kind
    d = os.path.join(ctx.tmp, prog.tag)
    os.makedirs(d, exist_ok=True)
    prog.dir = d
    if kind.rank is None and hasattr(kind, "cls"):
        pth = os.path.join(d, "ranks.wa.go")
        with open(pth, "w") as f:
            f.write(program(kind, ""))
        err = iface_ranks(kind, wa_wat(warun, pth))
        if err:
            raise vlib.InfraError("C13: cannot read the comp table of the interface-key program: " + err)
    final, base = [], 0
    for h, hcls in zip(prog.hists, prog.cls):
        ops = list(h)
        if kind.rank is not None and variant == "pinned":
            if hcls == "A":
                _, info = mirror_run(ctx, model, kind, ops, base, "pinned", safe=True)
                ops = [("c", k) if (o == "d" and info[j]["skipped"]) else (o, k) for j, (o, k) in enumerate(ops)]
            else:
                obs, _ = mirror_run(ctx, model, kind, ops, base, "pinned")
                stop = next((j for j, ob in enumerate(obs) if ob is None), len(ops))
                ops = ops[:stop]
        ops += final_sweep(kind, ops)
        final.append((base, ops))
        base += len(ops) + 1
    prog.final = final
    allops = []
    for i, (b, ops) in enumerate(final):
        assert b == len(allops)
        allops += ops + [("n", 0)]
    prog.allops = allops


def mirror_obs(ctx, model, prog, variant):
    """the Lean transcription's answers (and monitored invariants) for the final histories"""
    kind = prog.kind
    mvar = "pinned" if variant == "pinned" else "fixed"
    for base, ops in prog.final:
        if kind.rank is not None and model:
            obs, info = mirror_run(ctx, model, kind, ops, base, mvar)
        else:
            obs, info = [None] * len(ops), [dict(two=False, check="", skipped=False) for _ in ops]
        prog.mobs.append(obs); prog.minfo.append(info)


def write_unit(ctx, unit):
    d = os.path.join(ctx.tmp, "u_" + unit.tag)
    os.makedirs(d, exist_ok=True)
    unit.dir = d
    if len(unit.progs) == 1:
        src = program(unit.progs[0].kind, enc(unit.progs[0].allops))
    else:
        src = bundle_program([section(p.kind, enc(p.allops), "_%d" % i) for i, p in enumerate(unit.progs)])
    for fn in ("main.go", "prog.wa.go"):
        with open(os.path.join(d, fn), "w") as f:
            f.write(src)
    unit.src = src
    for p in unit.progs:
        p.src = src


def split_sections(unit, lines):
    """output lines of each section of a bundle (marker lines P0, P1, ...)"""
    if len(unit.progs) == 1:
        return [lines]
    out, cur = [[] for _ in unit.progs], -1
    for l in lines:
        if cur + 1 < len(unit.progs) and l == "P%d" % (cur + 1):
            cur += 1
        elif cur >= 0:
            out[cur].append(l)
    return out


def exec_wa(ctx, warun, unit, timeout):
    import time
    t0 = time.time()
    wst, wl, werr = run_wa(warun, os.path.join(unit.dir, "prog.wa.go"), timeout)
    for p, ls in zip(unit.progs, split_sections(unit, wl)):
        p.t_wa, p.wst, p.werr = time.time() - t0, wst, werr
        p.wobs = parse_output(p.kind, p.allops, ls)


def exec_go(ctx, unit, timeout):
    import time
    t0 = time.time()
    gst, gl, gerr = run_go(unit.dir, timeout)
    for p, ls in zip(unit.progs, split_sections(unit, gl)):
        p.t_go, p.gst, p.gerr = time.time() - t0, gst, gerr
        p.gobs = parse_output(p.kind, p.allops, ls)


OPNAME = {"s": "set", "z": "set-zero", "d": "delete", "g": "lookup", "c": "comma-ok", "l": "len", "r": "range", "n": "new"}


def judge(ctx, prog, stats):
    kind = prog.kind
    if prog.gst != "ok":
        raise vlib.InfraError("go run of generated program %s failed (%s): %s" % (prog.tag, prog.gst, prog.gerr))
    for hi, (base, ops) in enumerate(prog.final):
        exp = expected(kind, ops, base)
        wob = prog.wobs[base:base + len(ops)]
        gob = prog.gobs[base:base + len(ops)]
        mob, info = prog.mobs[hi], prog.minfo[hi]
        two_at = None
        present = set()
        for j, (o, k) in enumerate(ops):
            c = kind.canon[k]
            was_present = c in present
            if o in "sz":
                present.add(c)
            elif o == "d":
                present.discard(c)
                if info[j]["two"] and was_present and two_at is None:
                    two_at = j
            stats["ops"] += 1
            # --- Go's native map against the dict (validates oracle and program text)
            if norm(gob[j]) != norm(exp[j]):
                ctx.proof["broken"].append({"theorem": "oracle self-check: Go native map vs python dict", "why": "%s history %d op %d %s%d: go=%r dict=%r" % (
                    prog.tag, hi, j, o, k, gob[j], exp[j])})
                break
            # --- ORACLE: the property on the real code's answers
            if norm(wob[j]) != norm(exp[j]):
                rep = {"kind": kind.name, "program": prog.tag, "history_index": hi, "op_index": j, "op": OPNAME[o], "key": repr(kind.eq[k]),
                       "observed": repr(wob[j])[:300], "expected": repr(exp[j])[:300], "wa_status": prog.wst, "wa_stderr": prog.werr,
                       "history": enc(ops[:j + 1]), "key_table": [repr(e) for e in kind.eq][:64], "source_variant": stats["variant"],
                       "two_child_delete_at": two_at, "mirror_says": repr(mob[j])[:300]}
                what = "%s keys: %s of key %r after %d ops: Wa gives %s, a finite map gives %s" % (
                    kind.name, OPNAME[o], kind.eq[k], j, repr(wob[j])[:120] if wob[j] else "no output (%s)" % prog.wst, repr(exp[j])[:120])
                if kind.elem:
                    what = "map[%s]%s (element kind %s; values are printed as indices into the value table, 0 = the ZERO value): %s" % (
                        kind.ktype, kind.elem["vt"].replace("@", ""), kind.elem["name"], what)
                if hasattr(kind, "vkey"):
                    key = kind.vkey
                elif two_at is not None:
                    key = "delete:two-children"
                    what += " (first delete of a node with two children at op %d: key %r)" % (two_at, kind.eq[ops[two_at][1]])
                elif kind.elem:
                    key = "map-elem:%s:%s-wrong" % (kind.elem["name"], OPNAME[o]) if wob[j] else "map-elem:%s:crash" % kind.elem["name"]
                else:
                    key = "map:%s:%s-wrong" % (kind.ktype, OPNAME[o]) if wob[j] else "map:%s:crash" % kind.ktype
                rep["program_text"] = prog.src if len(prog.src) < 60000 else prog.src[:60000]
                ctx.violation(key, what, rep)
                stats["diverged"] += 1
                # the mirror must show the same deviation (it transcribes the code, defect included)
                if mob[j] is not None and mob[j] != wob[j] and wob[j] is not None:
                    ctx.proof["broken"].append({"theorem": "correspondence C13 mirror vs map.wa", "why": "%s history %d op %d %s%d: wa=%r mirror=%r" % (
                        prog.tag, hi, j, o, k, wob[j], mob[j])})
                break
            # --- exact correspondence with the Lean transcription (iteration order included)
            if mob[j] is not None:
                stats["mirror_lines"] += 1
                ctx.corr["lines"] += 1
                if mob[j] != wob[j]:
                    ctx.corr["diffs"] += 1
                    ctx.proof["broken"].append({"theorem": "correspondence C13 mirror vs map.wa", "why": "%s history %d op %d %s%d: wa=%r mirror=%r" % (
                        prog.tag, hi, j, o, k, wob[j], mob[j])})
                    break
                chk = info[j]["check"]
                if chk.startswith("bad") and two_at is None:
                    ctx.proof["broken"].append({"theorem": "monitoring C13: store invariant / spec refinement", "why": "%s history %d op %d %s%d: %s" % (
                        prog.tag, hi, j, o, k, chk)})
                    break
                if chk:
                    stats["checks"] += 1
                    stats["check_" + chk.split()[0]] = stats.get("check_" + chk.split()[0], 0) + 1
            # --- coverage classes
            size = len(present)
            b = size.bit_length()
            if o == "d":
                cl = ("delete", "absent" if not was_present else "two" if info[j]["two"] else "leaf-or-one", b)
            elif o in "sz":
                cl = (OPNAME[o], "overwrite" if was_present else "new", b)
            elif o in "gc":
                cl = (OPNAME[o], "hit" if c in present else "miss", b)
            else:
                cl = (OPNAME[o], "", b)
            stats["classes"].add((kind.name,) + cl)
            stats["dist"][OPNAME[o]] = stats["dist"].get(OPNAME[o], 0) + 1
            if o == "d" and was_present:
                t = "delete_two_children" if info[j]["two"] else "delete_le1_child"
                stats["dist"][t] = stats["dist"].get(t, 0) + 1
            if o == "r" and wob[j]:
                stats["range_entries"] += len(wob[j][1])
                stats["max_size"] = max(stats["max_size"], len(wob[j][1]))
        else:
            if prog.wst != "ok" and hi == len(prog.final) - 1:
                ctx.violation("map:%s:crash" % kind.ktype, "program %s ends with status %s: %s" % (prog.tag, prog.wst, prog.werr),
                              {"program": prog.tag, "program_text": prog.src[:60000]})


def build_private(ctx, name):
    """same command as ctx.build_harness, but the binary goes to ctx.tmp: the shared .build/bin/<name> is rebuilt
    (removed first) by every check that uses it, and must not be replaced by a build from a $VERIF_REPO scratch tree"""
    out = os.path.join(ctx.tmp, name)
    ov = vlib.write_overlay()
    try:
        rc, o = vlib.sh(["go", "build", "-tags", "verif", "-overlay", ov, "-o", out, "./internal/zz_verif/" + name],
                        cwd=vlib.REPO, env=dict(GOENV), timeout=1800)
    finally:
        os.remove(ov)
    if rc != 0:
        raise vlib.InfraError("go build of harness %s failed:\n%s" % (name, o[-6000:]))
    return out


def load_corpus():
    out = []
    d = os.path.join(vlib.VERIF, "corpus", PROP)
    if os.path.isdir(d):
        for f in sorted(os.listdir(d)):
            if f.endswith(".json"):
                j = json.load(open(os.path.join(d, f)))
                ops = [(j["ops"][i], int(j["ops"][i + 1:i + 4], 16)) for i in range(0, len(j["ops"]), 4)]
                out.append((f[:-5], j.get("n", 1024), ops))
    return out


def run(ctx):
    import time
    quick = ctx.tier == "quick"
    rng = ctx.rng
    variant = source_variant()
    ctx.notes.append("map.wa delete variant: " + variant)
    tl = {}

    def lean():
        t0 = time.time()
        ctx.prove(required=REQUIRED)
        m = ctx.build_model("c13")
        tl["lean"] = time.time() - t0
        return m

    pool = cf.ThreadPoolExecutor(16)
    lean_f = pool.submit(lean)                      # proofs + model driver build run beside harness build, generation and execution
    warun = build_private(ctx, "warun")
    progs, units = [], []
    # 1. corpus (fixed regression histories on int keys K[i] = i), among them the Lean witness
    corpus = load_corpus()
    if corpus:
        n = max(c[1] for c in corpus)
        progs.append(Prog("corpus", make_kind("seq", rng, n), [c[2] for c in corpus], "B"))
    # 2. generated histories, key kinds (element type int / string)
    kinds = ["int", "string", "float64", "struct", "pointer", "iface", "int64", "uint32", "uint8", "intstr", "bool"]
    rounds = 1 if quick else 6
    for rd in range(rounds):
        for name in kinds:
            n = {"bool": 3, "uint8": 160}.get(name, rng.choice([300, 600]) if name in ("int", "string", "pointer", "int64") else 240)
            if not quick:
                n = min(n * 2, 1500) if name not in ("bool", "uint8") else n
            kind = make_kind(name, rng, n)
            la = (900 if quick else 6000) if name != "bool" else 300
            styles = ["churn", "asc", "desc", "drain"]
            ha = [gen_history(rng, kind, la, styles[(i + rd) % 4]) for i in range(3)]
            nb = (8 if quick else 40) if name != "bool" else 4
            hb = [gen_history(rng, kind, rng.choice([40, 120, 300]), rng.choice(styles)) for _ in range(nb)]
            progs.append(Prog("%s-%d" % (name, rd), kind, ha + hb, "A" * len(ha) + "B" * len(hb)))
    for k in probe_kinds():
        hs = []
        for _ in range(6):
            h = [(rng.choice("ssgcl"), rng.randrange(k.n)) for _ in range(40)] + [("r", 0)]
            hs.append(h)
        progs.append(Prog("probe-" + k.name, k, hs, "P"))
    units += [Unit(p.tag, [p]) for p in progs]
    # 3. element kinds: every element type, with the ZERO value stored / overwritten deterministically (elem_history), bundled
    #    several sections per program (compile time dominates these short histories)
    eprogs = []
    for rd in range(rounds):
        for ename in ELEMS:
            for keys in (["int"] if (quick and ename not in ("iface", "error", "pointer")) else ["int", "string"]):
                k = make_elem_kind(ename, rng, keys)
                hs = [elem_history(k, rng, 60 if quick else 400) for _ in range(2 if quick else 6)]
                eprogs.append(Prog("%s-%d" % (k.name, rd), k, hs, "B"))
    per = 6
    for i in range(0, len(eprogs), per):
        units.append(Unit("elems-%d" % (i // per), eprogs[i:i + per]))
    progs += eprogs
    stats = {"ops": 0, "mirror_lines": 0, "checks": 0, "diverged": 0, "classes": set(), "dist": {}, "range_entries": 0, "max_size": 0, "variant": variant}
    t0 = time.time()
    model = lean_f.result() if variant == "pinned" else None     # only the pinned runtime needs the model to lay out the histories
    list(pool.map(lambda p: prepare_ops(ctx, model, warun, p, variant), progs))
    list(pool.map(lambda u: write_unit(ctx, u), units))
    tmo = 300 if quick else 1200
    # longest first; Wa and Go runs of the same program are separate tasks
    order = sorted(units, key=lambda u: -sum(len(p.allops) for p in u.progs))
    futs = [pool.submit(exec_wa, ctx, warun, u, tmo) for u in order] + [pool.submit(exec_go, ctx, u, tmo) for u in order]
    model = lean_f.result()
    t_prep0 = time.time()
    list(pool.map(lambda p: mirror_obs(ctx, model, p, variant), progs))
    t_mirror = time.time() - t_prep0
    for f in futs:
        f.result()
    pool.shutdown()
    ctx.notes.append("timing: lean build+audit %.0fs (concurrent), mirror %.0fs, generation+execution+mirror %.0fs (slowest wa %.0fs, slowest go %.0fs), %d source files" % (
        tl.get("lean", 0), t_mirror, time.time() - t0, max(p.t_wa for p in progs), max(p.t_go for p in progs), len(units)))
    for p in progs:
        judge(ctx, p, stats)
    if variant == "unknown":
        ctx.notes.append("mapImp.delete matches neither the pinned text nor the proposed repair; the mirror ran the repaired transcription")
    samples = []
    for p in progs[:: max(1, len(progs) // 10)][:10]:
        base, ops = p.final[0]
        j = min(len(ops) - 1, 25)
        samples.append({"program": p.tag, "op": "%s %r" % (OPNAME[ops[j][0]], p.kind.eq[ops[j][1]]), "wa": repr(p.wobs[base + j])[:100], "mirror": repr(p.mobs[0][j])[:100]})
    cov = {
        "evaluations": stats["ops"],
        "distinct_nontrivial": len(stats["classes"]),
        "rule": "one evaluation = one map operation of a generated history executed by the real runtime and judged against the dict oracle "
                "(and Go's map, and the Lean transcription when the key ranks are known); distinct_nontrivial = distinct "
                "(key kind or element kind, operation [set / set-zero / ...], outcome class [new/overwrite, hit/miss, absent/leaf-or-one-child/two-children], "
                "log2 size bucket); element kinds (%s) run a fixed zero-value history: store the zero value, overwrite non-zero with zero and back, "
                "then comma-ok / lookup / len / range / delete" % ", ".join(ELEMS),
        "samples": samples,
        "distribution": dict(stats["dist"], programs=len(units), sections=len(progs), element_kinds=sorted(ELEMS), histories=sum(len(p.final) for p in progs), range_entries=stats["range_entries"],
                             largest_map_ranged=stats["max_size"], mirror_compared_ops=stats["mirror_lines"], monitored_checks=stats["checks"],
                             monitoring={k: v for k, v in stats.items() if k.startswith("check_")}, histories_diverged=stats["diverged"]),
        "source_variant": variant,
    }
    return ctx.finish("exploration", cov,
                      assumptions=["keys are mapped to integer ranks under runtime.Compare by checks/c13.py (per kind; interface keys: comp table index read from the WAT)",
                                   "float keys exclude NaN; maps are not mutated inside their own range loop",
                                   "on the pinned runtime the long (class A) histories avoid deleting two-child nodes (the known defect); the short (class B) ones do not"],
                      trusted_base=["hand transcription WaVerif/Model/C13RB.lean of map.wa, tied by the correspondence run only",
                                    "Go native map + python dict (oracles)", "harness/warun (api.RunCode)"])
